"""Engine helper for C10: forking over *free* choices without feasibility queries.

`SInt.concretize` / `SBool.__bool__` ask the solver whether each side of a branch is feasible under the whole
path condition (one query with every constraint re-asserted per value).  A schedule choice - "which of the n pending
jobs finishes next", "does agent X exist" - is a fresh variable that occurs in no other constraint than its own
range, so every value is feasible under any path condition over *other* variables by construction; the query is
redundant.  `free_choice` / `free_flag` record exactly what `Path.branch` would record (decision, path condition,
the alternative prefix to explore later) and skip the query.  The harness still hands every explored path's
constraints to the solver in the final query and checks their satisfiability (vacuity guard), so a path that were
infeasible after all would be noticed there, never silently "proved".
"""
from __future__ import annotations

import z3

from .core import cur


def _fork(p, cond):
    idx = len(p.decisions)
    if idx < len(p.prefix):
        d = p.prefix[idx]
    else:
        p.pending.append(p.decisions + [False])
        d = True
    p.decisions.append(d)
    p.forced.append(False) if hasattr(p, "forced") else None
    p.pc.append(cond if d else z3.Not(cond))
    p.witness = None  # the concolic witness was not checked against this decision
    return d


def free_choice(name, n, used):
    """A fresh integer 0 <= k < n (a name never used before on this path); forks over its n values.  Returns (value, term)."""
    if name in used:
        raise RuntimeError(f"free_choice: {name} reused on one path")
    used.add(name)
    p = cur()
    k = z3.Int(name)
    p.assume(z3.And(k >= 0, k < n))
    for v in range(n - 1):
        if _fork(p, k == v):
            return v, k
    return n - 1, k


def free_flag(name, used):
    if name in used:
        raise RuntimeError(f"free_flag: {name} reused on one path")
    used.add(name)
    return _fork(cur(), z3.Bool(name))


# =================================================================================================
# hybrid time environment: concrete instants stay real floats, symbolic ones are symbolic doubles
# =================================================================================================
# `JulianDate` / `ScenarioTime` subclass `float`.  symx.timeenv re-bases *every* instance onto SFloat (and needs the
# symbolic datetime model for the clock).  The C10 worlds run the whole real pipeline on concrete clock epochs; only
# a few instants (the target of a propagateTo call, the Julian date of an event row) are solver variables.  Here the
# names `JulianDate` / `ScenarioTime` are shadowed by *dispatching* classes: called with a symbolic double they build
# an instance of the real class body re-based on SFloat (timeenv.rebase), called with anything else they build the
# real class; isinstance() accepts both.  `float` is shadowed by fp.fp_float in the stardate module (the class
# bodies strip the subclass with float(self)), so mixed real/symbolic arithmetic and comparisons of the real method
# bodies produce SFloat / SBool.  datetime/timedelta stay the real C types (clock epochs are concrete).
_HYB = {}


def _hybrid_classes():
    if _HYB:
        return _HYB
    import importlib

    from . import fp
    from .timeenv import rebase

    SD = importlib.import_module("resonaate.physics.time.stardate")
    out = {}
    for name in ("JulianDate", "ScenarioTime"):
        real = getattr(SD, name)
        sym = rebase(real)

        class Meta(type):
            _real, _sym = real, sym

            def __call__(cls, x=0.0, *a):
                if isinstance(x, fp.SFloat):
                    return cls._sym(x)
                return cls._real(x, *a)

            def __instancecheck__(cls, obj):
                return isinstance(obj, (cls._real, cls._sym))

            def __subclasscheck__(cls, sub):
                return issubclass(sub, (cls._real, cls._sym))

            def __getattr__(cls, k):  # classmethods / class attributes of the real class (JulianDate.getJulianDate ...)
                return getattr(cls._real, k)

        out[name] = Meta(name, (), {"__module__": real.__module__, "__doc__": f"dispatching {name} (symx.ext_c10)"})
        out[name + "_sym"] = sym
        out[name + "_real"] = real
    _HYB.update(out)
    return _HYB


def sym_julian_date(x):
    """A JulianDate (real class body, re-based) carrying the symbolic double x."""
    return _hybrid_classes()["JulianDate_sym"](x)


def hybrid_time(extra=()):
    """Context manager: shadow JulianDate/ScenarioTime (dispatching classes) and float in the stardate module and in every
    module of `extra` = [(module name, {more names})] that binds those names."""
    import contextlib
    import importlib

    from . import fp
    from .stubs import shadow

    H = _hybrid_classes()
    SD = importlib.import_module("resonaate.physics.time.stardate")
    st = contextlib.ExitStack()
    st.enter_context(shadow(SD, float=fp.fp_float, JulianDate=H["JulianDate"], ScenarioTime=H["ScenarioTime"]))
    for name, kw in extra:
        mod = importlib.import_module(name)
        names = dict(kw)
        for k in ("JulianDate", "ScenarioTime"):
            if k in mod.__dict__:
                names.setdefault(k, H[k])
        st.enter_context(shadow(mod, **names))
    return st


# =================================================================================================
# pydantic models on proxies
# =================================================================================================
# pydantic-core validates in compiled code and rejects proxies.  `run_validators` builds the instance with
# model_construct (no validation) and then calls the *Python bodies* of the model's own validators - the real functions
# of /repo registered in __pydantic_decorators__ - in pydantic's order: field validators, then model validators.  The
# declared Field constraints (gt/ge/lt/le) are returned as preconditions for the caller to assume.
class UnsupportedValidator(Exception):
    pass


def field_preconditions(cls, values):
    """Declared numeric Field bounds of `cls` as z3 constraints over the proxy values in `values`."""
    out = []
    for name, info in cls.model_fields.items():
        v = values.get(name)
        t = getattr(v, "t", None)
        if t is None:
            continue
        for m in info.metadata:
            for attr, mk in (("gt", lambda a, b: a > b), ("ge", lambda a, b: a >= b), ("lt", lambda a, b: a < b), ("le", lambda a, b: a <= b)):
                b = getattr(m, attr, None)
                if b is not None:
                    out.append(mk(t, b))
    return out


def run_validators(cls, values):
    """The instance of pydantic model `cls` that validation of `values` produces, computed by the model's own Python validators."""
    import inspect
    import types

    dec = cls.__pydantic_decorators__
    if dec.validators or dec.root_validators:
        raise UnsupportedValidator("pydantic v1-style validators")
    data = dict(values)
    for d in dec.model_validators.values():
        if d.info.mode == "before":
            data = d.func(data)
        elif d.info.mode != "after":
            raise UnsupportedValidator(f"model validator mode {d.info.mode}")
    done = {}
    for name, finfo in cls.model_fields.items():
        if name not in data:
            continue
        v = data[name]
        # the declared bounds are enforced on what the before-validators hand on (a violated bound rejects the configuration)
        for m in finfo.metadata:
            for attr, ok in (("gt", lambda a, b: a > b), ("ge", lambda a, b: a >= b), ("lt", lambda a, b: a < b), ("le", lambda a, b: a <= b)):
                b = getattr(m, attr, None)
                if b is not None and not bool(ok(v, b)):
                    raise ValueError(f"{name}: declared bound {attr}={b} violated")
        for d in dec.field_validators.values():
            if name not in d.info.fields and "*" not in d.info.fields:
                continue
            if d.info.mode == "wrap":
                raise UnsupportedValidator("wrap field validator")
            npar = len(inspect.signature(d.func).parameters)
            v = d.func(v) if npar == 1 else d.func(v, types.SimpleNamespace(data=dict(done), field_name=name, config=None, context=None, mode="python"))
        done[name] = v
    inst = cls.model_construct(**done)
    for d in dec.model_validators.values():
        if d.info.mode == "after":
            npar = len(inspect.signature(d.func).parameters)
            inst = d.func(inst) if npar == 1 else d.func(inst, types.SimpleNamespace(data=dict(done), config=None, context=None, mode="python"))
    return inst


def sym_gcd(*args):
    """math.gcd on symbolic integers (a C function: it would otherwise enumerate its arguments through __index__)."""
    import math

    from .core import SInt

    def gcd2(a, b):
        sa, sb = isinstance(a, SInt), isinstance(b, SInt)
        if not sa and not sb:
            return math.gcd(a, b)
        if sa and sb:
            a, b = abs(a), abs(b)
            for _ in range(64):  # Euclid; forks on the symbolic remainders
                if not b:
                    return a
                a, b = b, a % b
            raise UnsupportedValidator("sym_gcd: more than 64 Euclid steps")
        c, x = (int(b), a) if sa else (int(a), b)
        c = abs(c)
        if c == 0:
            return abs(x)
        # gcd(c, x) = the largest divisor of c that divides x
        t = z3.IntVal(1)
        for dv in sorted(d for d in range(2, c + 1) if c % d == 0):
            t = z3.If(x.t % dv == 0, z3.IntVal(dv), t)
        return SInt(t)

    g = 0
    for a in args:
        g = gcd2(g, a)
    return g


def math_functions_on_proxies(module):
    """Names to shadow in `module` so that integer helpers of the math module it uses accept proxies."""
    import math
    import types

    names = {}
    if module.__dict__.get("gcd") is math.gcd:
        names["gcd"] = sym_gcd
    if module.__dict__.get("math") is math:
        ns = types.SimpleNamespace(**{k: getattr(math, k) for k in dir(math) if not k.startswith("__")})
        ns.gcd = sym_gcd
        names["math"] = ns
    return names
