"""C12 - orbital element sets, anomalies and state configurations convert consistently (compositional)."""
from __future__ import annotations

import math
from fractions import Fraction

import numpy as np
import z3

from symx.core import (PI_F, TWOPI_F, SBool, SReal, assume, close_arrays, cur, explore, identify_lemma, mfloat, real, resume, rv, single_path,
                       slice_for, terms)
from symx.ext_c12 import Canon, KeplerStub, arctan_via_arctan2, explore_sliced, fv, simp, slice_vars, tag, wrap2pi_term
from symx.runner import Ob
from symx.stubs import shadow

ID = "C12"
TECHNIQUE = ("symbolic execution of the real orbital-element code (singularityCheck, anomaly conversions, angle extraction helpers, eci2coe, coe2eci, "
             "coe2eqe/eqe2coe/eci2eqe/eqe2eci, ClassicalElements/EquinoctialElements, StateConfig.toECI) on z3 Real proxies; trigonometry through the angle "
             "algebra ((cos,sin) pairs, exact addition formulas, arccos/arctan2/fmod contracts); the round trip is proved in pieces (scalar level, "
             "frame level, singular families); every piece is an SMT query (unsat = holds for all elements in the bounds); counterexamples are replayed "
             "on the float code")
FLOAT_SEMANTICS = "Real-ideal (rounding outside the claim); identities are asked with a tolerance so that counterexamples replay in doubles"
ENCODED = [
    "resonaate.physics.orbits.utils:singularityCheck", "resonaate.physics.orbits:isInclined", "resonaate.physics.orbits:isEccentric",
    "resonaate.physics.orbits:fixAngleQuadrant", "resonaate.physics.orbits:check_ecc", "resonaate.physics.orbits:wrap_anomaly",
    "resonaate.physics.maths:wrapAngle2Pi", "resonaate.physics.maths:safeArccos", "resonaate.physics.maths:fpe_equals",
    "resonaate.physics.maths:rot1", "resonaate.physics.maths:rot3",
    "resonaate.physics.orbits.anomaly:trueAnom2EccAnom", "resonaate.physics.orbits.anomaly:eccAnom2TrueAnom",
    "resonaate.physics.orbits.anomaly:eccAnom2MeanAnom", "resonaate.physics.orbits.anomaly:trueAnom2MeanAnom",
    "resonaate.physics.orbits.anomaly:meanLong2EccLong",
    "resonaate.physics.orbits.conversions:coe2eci", "resonaate.physics.orbits.conversions:eci2coe",
    "resonaate.physics.orbits.conversions:coe2eqe", "resonaate.physics.orbits.conversions:eqe2coe", "resonaate.physics.orbits.conversions:eqe2eci",
    "resonaate.physics.orbits.utils:getSemiMajorAxis", "resonaate.physics.orbits.utils:getOrbitalEnergy", "resonaate.physics.orbits.utils:getAngularMomentum",
    "resonaate.physics.orbits.utils:getEccentricity", "resonaate.physics.orbits.utils:getLineOfNodes", "resonaate.physics.orbits.utils:getRightAscension",
    "resonaate.physics.orbits.utils:getArgumentPerigee", "resonaate.physics.orbits.utils:getTrueAnomaly", "resonaate.physics.orbits.utils:getArgumentLatitude",
    "resonaate.physics.orbits.utils:getTrueLongitude", "resonaate.physics.orbits.utils:getTrueLongitudePeriapsis",
    "resonaate.physics.orbits.utils:getEquinoctialBasisVectors", "resonaate.physics.orbits.utils:getInclinationFromEQE",
    "resonaate.physics.orbits.utils:getEccentricityFromEQE", "resonaate.physics.orbits.utils:getMeanMotion",
    "resonaate.physics.orbits.elements:ClassicalElements.__init__", "resonaate.physics.orbits.elements:ClassicalElements.fromConfig",
    "resonaate.physics.orbits.elements:ClassicalElements.toECI", "resonaate.physics.orbits.elements:EquinoctialElements.__init__",
    "resonaate.physics.orbits.elements:EquinoctialElements.fromConfig", "resonaate.physics.orbits.elements:EquinoctialElements.toECI",
    "resonaate.scenario.config.state_config:COEStateConfig.toECI", "resonaate.scenario.config.state_config:COEStateConfig.validate_elements",
    "resonaate.scenario.config.state_config:EQEStateConfig.toECI", "resonaate.scenario.config.state_config:ECIStateConfig.toECI",
]
BOUNDS = {
    "sma": "6600..50000 km", "ecc": "[0, 0.9) incl. both sides of ECCENTRICITY_LIMIT = 1e-7 and of the 1e-15 'is zero' test",
    "inc": "[0, pi] incl. both sides of INCLINATION_LIMIT = 1e-7 deg and of pi - INCLINATION_LIMIT", "raan, argp, anomalies": "[0, 2pi)",
    "eci2coe inputs (O3b-O3e)": "every state r = rho u_hat, v = vr u_hat + vt w_hat with rho in [600, 1e5] km, vt > 0, rho*vt >= 1000, any vr, whose elements lie in the "
                                "ranges above; frame (raan, inc, u) arbitrary when inclined; raan = 0 in the equatorial families (node undefined there)",
    "equinoctial (O4)": "inc/2 with sin in [0, 0.9999] (direct set) / [0.01, 1] (retrograde set); eqe2coe recovery on inclined eccentric orbits, sin(inc/2) in [0.01, 0.9999]",
    "configurations (O6)": "documented field ranges; |p|, |q| <= 50, h^2 + k^2 < 0.81",
}
OUTSIDE = [
    "floating-point rounding (e.g. wrapAngle2Pi returning exactly 2pi for tiny negative angles; cos/sin of pi not being -1/0 in doubles)",
    "the Newton iterations keplerSolveCOE / keplerSolveEQE themselves (replaced by the contract 'returns a root of the equation it was asked to solve, same question -> same answer')",
    "meanAnom2EccAnom / meanAnom2TrueAnom / meanLong2TrueAnom / trueAnom2MeanLong / eccLong2MeanLong round trips (only their call sites inside coe2eqe / eqe2coe are checked)",
    "eci2eqe and the in-plane formulas of eqe2eci against coe2eci (only EQEStateConfig -> eqe2eci data flow and the equinoctial frame are checked)",
    "state reproduction to better than ~e*a inside the circular threshold band (0 < e < 1e-7): by design the code treats such orbits as circular; element-level claims are made instead",
    "the composed statement coe2eci(eci2coe(x)) = x as one query: it follows from O3a (form of coe2eci + closing scalar relations) and O3b-O3d (eci2coe returns the elements of "
    "that form); the composition is an argument on paper",
    "eci2coe inside the equatorial threshold bands with a non-zero node angle of the input state, and inside the retrograde band (pi - limit < inc < pi; "
    "one sign fact per run stayed undecided there) - exactly retrograde-equatorial states (inc = pi) and the whole direct band are covered",
    "TLE conversion, getFlightPathAngle, universal-variable helpers",
]
ASSUMPTIONS = [
    "angle algebra of symx.core: cos/sin of a symbolic angle are a pair on the unit circle with exact addition formulas; sqrt, arccos, arcsin, arctan2, fmod contracts",
    "pi identified with const.PI (a double)",
    "equal (cos, sin) => the two angles differ by a whole number of turns (instantiated for named pairs; the rest is linear arithmetic on the ranges)",
    "scipy.linalg.norm(x) = sqrt(sum x_i^2), numpy.vdot/cross by their definitions (wrappers of symx.ext_c12.Canon); a value computed by the code is replaced by a "
    "harness-named term only after the solver proved them equal under the current path constraints",
    "cut variables in the eci2coe obligations: e_cos_nu := vt^2 rho/mu - 1, minus_e_sin_nu := -rho vr vt/mu, ecc := sqrt of the sum of their squares (definitions, no loss of generality)",
    "generalisation steps: an algebraic consequence proved for arbitrary real values (fresh variables) is used for the values of the code's terms once the hypotheses were proved for those terms",
    "trusted numeric facts: sin x >= 1.7e-9 for x in [INCLINATION_LIMIT, pi - INCLINATION_LIMIT]; |cos x| > 0.999999 inside the equatorial bands; "
    "t/(1+t) <= atan t <= pi/2 - 1/(1+t) for t >= 0; numpy.arctan(x) = numpy.arctan2(x, 1)",
    "O6: period, mean motion and mean anomaly attributes of the element objects are stubbed out (they do not enter toECI); pydantic models are built with model_construct "
    "and validate_elements() is called explicitly (field-range validation itself is pydantic's)",
    "O4: trueAnom2MeanLong / meanLong2TrueAnom are replaced by recording providers inside coe2eqe / eqe2coe (their arguments are checked)",
]
LEVEL_TEXT = ("Bounded symbolic verification in pieces: the real conversion code (eci2coe incl. every angle-extraction helper and all four singular branches, coe2eci, "
              "singularityCheck, anomaly conversions, coe2eqe/eqe2coe, equinoctial frame, the three StateConfig.toECI) is executed on solver variables; per path z3 proves "
              "that the returned elements describe the input state (vis-viva, eccentricity vector, node, perigee direction, argument of latitude), ranges, zeros of "
              "undefined elements and threshold classification, for all values in the bounds; counterexamples are replayed on the float code (this found the "
              "retrograde-equatorial defect). Right level because singular and near-threshold orbits and quadrant choices are continuous families that the dozen tabulated "
              "test orbits do not contain.")
LEVEL_NOTE = ("Real arithmetic instead of doubles; trigonometry through (cos, sin) pairs and arccos/arctan2 contracts; the Cartesian round trip is compositional (form of "
              "coe2eci + eci2coe on that form), Kepler solvers are a contract, eci2eqe/eqe2eci in-plane formulas and the mean-longitude conversions are outside.")

TWOPI = rv(TWOPI_F)
PI = rv(PI_F)
TOL_E = 1e-7  # documented ECCENTRICITY_LIMIT
TOL_I = 1e-7 * (math.pi / 180.0)  # documented INCLINATION_LIMIT (1e-7 deg)
KM_TOL = 1e-6  # km, km/s: tolerance for "same state" (Real-ideal identities hold exactly; counterexamples must exceed it)
ANG_TOL = 1e-9


def _simplified(cons):
    """simplified constraints with top-level conjunctions split (so that slicing can keep `s >= 0` of a contract `s >= 0 and s*s == ...`)"""
    out = []

    def add(c):
        if z3.is_and(c):
            for ch in c.children():
                add(ch)
        elif not z3.is_true(c):
            out.append(c)

    for c in cons:
        add(z3.simplify(c))
    return out


def slice_plus(goal, cons, free=("turn!", "ident!"), hop=4):
    """constraints over the goal's variables (the integer turn counters of fmod/identify contracts count as always available), after one hop
    through small constraints (at most `hop` variables: signs, ranges, definitions) that touch the goal's variables"""
    V = set(fv(goal))
    if hop:
        V0 = frozenset(V)
        for c in cons:
            vc = fv(c)
            if len(vc) <= hop and vc & V0:
                V |= vc
    return slice_vars(frozenset(V), cons, tuple(free))


def abstract_products(formulas):
    """Generalisation: every product of two or more non-numeral factors becomes one fresh variable (the same product -> the same
    variable).  What is provable about uninterpreted products holds for the real ones; the result is linear arithmetic."""
    table, memo = {}, {}

    def walk(t):
        i = t.get_id()
        if i in memo:
            return memo[i]
        if z3.is_app(t) and t.num_args() > 0:
            ch = [walk(c) for c in t.children()]
            if t.decl().kind() == z3.Z3_OP_MUL:
                nums = [c for c in ch if z3.is_rational_value(c) or z3.is_int_value(c)]
                rest = sorted((c for c in ch if not (z3.is_rational_value(c) or z3.is_int_value(c))), key=lambda c: c.get_id())
                if len(rest) >= 2:
                    key = tuple(c.get_id() for c in rest)
                    if key not in table:
                        table[key] = (z3.Real(f"prod!{len(table)}"), rest)
                    r = table[key][0]
                    for n in nums:
                        r = n * r
                    memo[i] = r
                    return r
            r = t.decl()(*ch) if ch else t
            memo[i] = r
            return r
        memo[i] = t
        return t

    return [walk(f) for f in formulas]


def slice_pc(goal, cons, pc, free=("turn!", "ident!")):
    """constraints over the goal's variables and the variables of the path's own branch decisions that mention one of them"""
    V0 = fv(goal)
    V = set(V0)
    for c in pc:
        vc = fv(c)
        if vc & V0:
            V |= vc
    return slice_vars(frozenset(V), cons, tuple(free))


def prove(rep, label, goal, cons, timeout_ms=30000, lemmas=(), abstract=(), products=False, pc=None, pins=(), **kw):
    """Discharge `goal` under the path constraints `cons`.

    1. (cheap, sound for `unsat`) the query is first tried in a *generalised* form: constraints are simplified, the harness may name
       sub-terms to be replaced by fresh variables (`abstract`: [(term, var)] - a fact proved for an arbitrary value holds for the term),
       already proved facts about those terms are added (`lemmas`), and only constraints over the goal's variables are kept.
    2. if that does not refute the negated goal, the original query on all constraints is asked (its models respect every constraint,
       so counterexamples can be replayed).
    Returns True when proved.  A `None` among the lemmas (an earlier step failed) makes the item undecided."""
    from symx.core import refute

    if any(l is None or l is False for l in lemmas):
        rep.undecided(label, "a lemma this step depends on was not proved")
        return None
    hy = list(cons) + list(lemmas)
    g = goal
    if abstract:  # structural replacement on the terms exactly as the execution built them (before any rewriting)
        sub = [(t, v) for t, v in abstract]
        g = z3.substitute(goal, *sub)
        hy = [z3.substitute(c, *sub) for c in hy]
    hy = _simplified(hy)
    if products:
        fs = abstract_products([z3.simplify(g)] + [z3.simplify(c) for c in hy])
        g, hy = fs[0], fs[1:]
    lv = z3.And(g, *[z3.substitute(l, *[(t, v) for t, v in abstract]) if abstract else l for l in lemmas]) if lemmas else g
    v0, seen_sizes = None, set()
    for hop, to in ((0, 4000), ("pc", 6000), (4, 6000), (6, 10000)):  # growing slices, each sound for `unsat`
        if hop == "pc":
            if pc is None or abstract:
                continue
            sl = slice_pc(lv, hy, pc)
        else:
            sl = slice_plus(lv, hy, hop=hop)
        if len(sl) in seen_sizes:
            continue
        seen_sizes.add(len(sl))
        v0 = refute(g, sl, min(timeout_ms, to))
        if v0.status == "unsat":
            break
    if __import__("os").environ.get("C12_DEBUG"):
        print("PROVE", label, v0.status, round(v0.secs, 2), len(sl), len(hy), flush=True)
    if v0.status == "unsat":
        rep._item(label, "prove", v0)
        if kw.get("sample") is not None:
            rep.sample({"obligation": f"{rep.ob}:{label}", "verdict": "unsat", "what": kw["sample"]})
        return True
    # not refuted in generalised form: look for a counterexample of the original query, first at the harness's sample points (a model found
    # there is a model of all constraints; the solver then only has to evaluate), then unrestricted
    if len(rep.violations) >= 2:
        # two replayed violations are already on record for this obligation: further candidates are not searched (keeps a broken tree from
        # exhausting the budget); nothing is claimed for this item
        rep.note(f"{label}: not examined further after two violations")
        return False
    full = list(cons) + list(lemmas)
    for pn in pins:
        if refute(goal, full + list(pn), 3000).status == "sat":
            return rep.prove(label, goal, full + list(pn), timeout_ms=timeout_ms, **kw)
    return rep.prove(label, goal, full, timeout_ms=timeout_ms, **kw)


PYTH = [(Fraction(5, 13), Fraction(12, 13)), (Fraction(-5, 13), Fraction(12, 13)), (Fraction(-5, 13), Fraction(-12, 13)), (Fraction(5, 13), Fraction(-12, 13)),
        (Fraction(1), Fraction(0)), (Fraction(0), Fraction(1)), (Fraction(-1), Fraction(0)), (Fraction(0), Fraction(-1)),
        (Fraction(3, 5), Fraction(4, 5)), (Fraction(-4, 5), Fraction(3, 5)), (Fraction(-3, 5), Fraction(-4, 5)), (Fraction(4, 5), Fraction(-3, 5))]


def angle_pins(path, names, k):
    """pin the (cos, sin) pairs of the named input angles to rational points of the unit circle (k selects the combination)"""
    out = []
    for n in names:
        cs = path.trig.get(("atom", z3.Real(n).get_id()))
        if cs is None:
            continue
        c, s_ = PYTH[k % len(PYTH)]
        k = k // len(PYTH) + 3 * (k % len(PYTH)) + 1
        out += [cs[0] == rv(c), cs[1] == rv(s_)]
    return out


def reach(rep, label, cons, pinsets, timeout_ms=3000):
    """Reachability twin with help: the path constraints plus one of the harness's pin sets (rational sample points) must be satisfiable.
    Returns a model or None (None: no pin set worked; the path is then only treated as possibly feasible)."""
    from symx.core import solve

    for pins in pinsets:
        v = solve(list(cons) + list(pins), timeout_ms)
        if v.status == "sat":
            return rep.reachable(label, list(cons) + list(pins), timeout_ms=4 * timeout_ms)
    return None


def lemma(ok, fact):
    return fact if ok else None


def _quiet():
    """The analysed code logs through resonaateLogError before raising; keep the obligation's stdout clean."""
    import contextlib
    import importlib

    from resonaate.physics import maths as M
    from symx.ext_c01 import closeness_shadows

    st = contextlib.ExitStack()
    st.enter_context(shadow(M, resonaateLogError=lambda msg: None))
    # tolerance comparisons of numpy / math, wherever the orbit modules bind them, enter as their defining formula (exact real arithmetic)
    mods = [importlib.import_module(n) for n in ("resonaate.physics.orbits", "resonaate.physics.orbits.anomaly", "resonaate.physics.orbits.conversions",
                                                 "resonaate.physics.orbits.utils", "resonaate.physics.orbits.elements", "resonaate.physics.orbits.kepler")]
    for c in closeness_shadows(mods):
        st.enter_context(c)
    return st


def _z(x):
    return x.t if isinstance(x, (SReal, SBool)) else rv(x)


def _circ_dist(a, b):
    d = abs(a - b) % (2 * math.pi)
    return min(d, 2 * math.pi - d)


# ====================================================================================================================
# O1  singularityCheck: documented combined angles, ranges, zeros, thresholds; state preserved at exact singularities
# ====================================================================================================================
def _sing_expected(e, inc, raan, argp, nu):
    """documented behaviour (ClassicalElements docstring) as terms over the inputs"""
    inclined = z3.And(inc >= rv(TOL_I), inc <= rv(math.pi - TOL_I))  # the documented pi - limit, evaluated in doubles as any caller would
    eccentric = e >= rv(TOL_E)
    w = wrap2pi_term
    exp_raan = z3.If(inclined, w(raan), rv(0))
    exp_argp = z3.If(eccentric, z3.If(inclined, w(argp), w(raan + argp)), rv(0))
    exp_anom = z3.If(eccentric, w(nu), z3.If(inclined, w(nu + argp), w(nu + argp + raan)))
    return inclined, eccentric, exp_raan, exp_argp, exp_anom


def _sing_expected_retro(e, inc, raan, argp, nu):
    """retrograde equatorial orbits: the node angle is measured the other way round; the combined angle that keeps the state is argp - raan
    (what O1c checks).  The docstrings only say 'approximately raan + argp', so both readings are accepted here."""
    w = wrap2pi_term
    eccentric = e >= rv(TOL_E)
    return z3.If(eccentric, w(argp - raan), rv(0)), z3.If(eccentric, nu, w(nu + argp - raan))


def _py_wrap(x):
    return x % (2 * math.pi)


def replay_sing(d):
    from resonaate.physics.orbits import utils as UT
    from resonaate.physics.orbits.conversions import coe2eci

    e, inc, raan, argp, nu = d["e"], d["inc"], d["raan"], d["argp"], d["nu"]
    out = [float(v) for v in UT.singularityCheck(e, inc, raan, argp, nu)]
    inclined = TOL_I <= inc <= math.pi - TOL_I
    eccentric = e >= TOL_E
    exp = [_py_wrap(raan) if inclined else 0.0, (_py_wrap(argp) if inclined else _py_wrap(raan + argp)) if eccentric else 0.0,
           _py_wrap(nu) if eccentric else (_py_wrap(nu + argp) if inclined else _py_wrap(nu + argp + raan))]
    detail = {"returned": out, "documented": exp}
    if inc > math.pi - TOL_I:  # retrograde equatorial: either reading of the combined angle (see _sing_expected_retro)
        alt = [0.0, _py_wrap(argp - raan) if eccentric else 0.0, nu if eccentric else _py_wrap(nu + argp - raan)]
        bad = any(min(_circ_dist(o, x), _circ_dist(o, y)) > ANG_TOL / 2 for o, x, y in zip(out, exp, alt))
    else:
        bad = any(_circ_dist(o, x) > ANG_TOL / 2 for o, x in zip(out, exp))
    bad = bad or any(not (0 <= o < 2 * math.pi) for o in out)
    if "a" in d:
        x0 = coe2eci(d["a"], e, inc, raan, argp, nu)
        x1 = coe2eci(d["a"], e, inc, *out)
        err = float(np.abs(x1 - x0).max())
        detail["state_error_km"] = err
        bad = bad or err > KM_TOL / 2
    return bad, detail


def o1_sing(rep):
    from resonaate.physics.orbits import utils as UT

    def run():
        e, inc = real("e"), real("inc")
        raan, argp, nu = real("raan"), real("argp"), real("nu")
        assume(e.t >= 0, e.t < rv(0.9), inc.t >= 0, inc.t <= PI)
        # documented inputs are in [0, 2pi); eqe2coe hands over un-wrapped node / perigee angles (arctan2 values and their difference), so
        # the wider domain is the one callers rely on
        assume(raan.t >= -TWOPI, raan.t <= TWOPI, argp.t >= -TWOPI, argp.t <= TWOPI, nu.t >= 0, nu.t < TWOPI)
        return UT.singularityCheck(e, inc, raan, argp, nu)

    V = {n: z3.Real(n) for n in ("e", "inc", "raan", "argp", "nu")}
    inputs = lambda m: {n: mfloat(m, v) for n, v in V.items()}  # noqa: E731
    inclined, eccentric, x_raan, x_argp, x_anom = _sing_expected(V["e"], V["inc"], V["raan"], V["argp"], V["nu"])
    res = explore(run, max_paths=64)
    rep.note(f"paths={len(res)}")
    classes = set()
    tol = rv(ANG_TOL)
    for r in res:
        if r.exc is not None:
            rep.prove(f"no-exception[{tag(r)}]", z3.BoolVal(False), r.constraints, inputs=inputs, replay=replay_sing,
                      sample="singularityCheck raises nothing for e in [0,0.9), inc in [0,pi]")
            continue
        o_raan, o_argp, o_anom = (_z(v) for v in r.out)
        cons = r.constraints
        m = rep.feasible(f"path[{tag(r)}]", cons)
        if m is None:
            continue
        if m is not True:
            classes.add((z3.is_true(m.eval(inclined, model_completion=True)), z3.is_true(m.eval(eccentric, model_completion=True))))
        retro_eq = V["inc"] > rv(math.pi - TOL_I)
        y_argp, y_anom = _sing_expected_retro(V["e"], V["inc"], V["raan"], V["argp"], V["nu"])
        alt = {"argp": y_argp, "anomaly": y_anom}
        for nm, o, x in (("raan", o_raan, x_raan), ("argp", o_argp, x_argp), ("anomaly", o_anom, x_anom)):
            g = z3.And(o - x <= tol, x - o <= tol)
            if nm in alt:
                g = z3.Or(g, z3.And(retro_eq, o - alt[nm] <= tol, alt[nm] - o <= tol))
            rep.prove(f"{nm}-documented[{tag(r)}]", g, cons, inputs=inputs, replay=replay_sing,
                      sample=f"singularityCheck: returned {nm} is the documented (combined) angle / zero for its orbit class, thresholds straddled")
            rep.prove(f"{nm}-range[{tag(r)}]", z3.And(o >= 0, o < TWOPI), cons, inputs=inputs, replay=replay_sing, sample=f"returned {nm} in [0, 2pi)")
    if len(classes) < 4:
        rep.error("reach", f"only the orbit classes {sorted(classes)} were reached (inclined, eccentric)")


def model_angle(m, path, ang):
    """value in [0, 2pi) of an input angle in a model: from the model's (cos, sin) pair when the angle has one (the angle algebra
    constrains the pair, not the number), else the number itself."""
    t = ang.t if isinstance(ang, SReal) else ang
    cs = path.trig.get(("atom", t.get_id()))
    if cs is None:
        return mfloat(m, t)
    c, s = mfloat(m, cs[0]), mfloat(m, cs[1])
    return math.atan2(s, c) % (2 * math.pi)


def _o1_state(rep, inc_c, e_c, label):
    """coe2eci(singularityCheck(elements)) == coe2eci(elements) when the singular quantity is exactly 0 (or pi)."""
    from resonaate.physics.orbits import conversions as CV
    from resonaate.physics.orbits import utils as UT

    def run():
        a = real("a")
        e = real("e") if e_c is None else SReal(Fraction(e_c))
        inc = real("inc") if inc_c is None else SReal(Fraction(inc_c))
        raan, argp, nu = real("raan"), real("argp"), real("nu")
        assume(a.t >= 6600, a.t <= 50000)
        if e_c is None:
            assume(e.t >= rv(TOL_E), e.t < rv(0.9))
        if inc_c is None:
            assume(inc.t >= rv(TOL_I), inc.t <= PI - rv(TOL_I))
        for ang in (raan, argp, nu):
            assume(ang.t >= 0, ang.t < TWOPI)
        out = UT.singularityCheck(e, inc, raan, argp, nu)
        x0 = CV.coe2eci(a, e, inc, raan, argp, nu)
        x1 = CV.coe2eci(a, e, inc, *out)
        return x0, x1

    def mk_inputs(path):
        def inputs(m):
            d = {"a": mfloat(m, z3.Real("a"))}
            for n in ("raan", "argp", "nu"):
                d[n] = model_angle(m, path, z3.Real(n))
            d["e"] = mfloat(m, z3.Real("e")) if e_c is None else e_c
            d["inc"] = model_angle(m, path, z3.Real("inc")) if inc_c is None else inc_c
            return d
        return inputs

    res = explore(run, max_paths=64)
    n = 0
    # known-finding region: retrograde equatorial with a non-zero node angle
    regions = None
    for r in res:
        if r.exc is not None:
            rep.error("exception", repr(r.exc))
            continue
        x0, x1 = r.out
        n += 1
        for j in range(6):
            g = close_arrays(x1[j:j + 1], x0[j:j + 1], KM_TOL)
            rep.prove(f"{label}-state[{j}][{tag(r)}]", g, r.constraints, timeout_ms=60000, inputs=mk_inputs(r.path), replay=replay_sing, regions=regions,
                      sample=f"{label}: coe2eci of the singularity-adjusted elements is the state of the original elements")
    if n == 0:
        rep.error("reach", "no path")


def o1b_state_direct(rep):
    _o1_state(rep, 0.0, None, "equatorial-direct")
    _o1_state(rep, None, 0.0, "circular-inclined")
    _o1_state(rep, 0.0, 0.0, "circular-equatorial-direct")


def o1c_state_retro(rep):
    _o1_state(rep, math.pi, None, "equatorial-retrograde")
    _o1_state(rep, math.pi, 0.0, "circular-equatorial-retrograde")



# ====================================================================================================================
# O2  anomaly conversions: textbook relations, mutual inverses, Kepler's equation, ranges
# ====================================================================================================================
def replay_anom(d):
    from resonaate.physics.orbits import anomaly as AN

    e, nu, E = d["e"], d["nu"], d["E"]
    out = {}
    bad = False
    Et = float(AN.trueAnom2EccAnom(nu, e))
    nut = float(AN.eccAnom2TrueAnom(E, e))
    M = float(AN.eccAnom2MeanAnom(E, e))
    Mt = float(AN.trueAnom2MeanAnom(nu, e))
    out.update(E_of_nu=Et, nu_of_E=nut, M_of_E=M, M_of_nu=Mt)
    for v in (Et, nut, M, Mt):
        bad = bad or not (0 <= v < 2 * math.pi)
    if e >= TOL_E:
        b = math.sqrt(1 - e * e)
        r1 = [math.cos(Et) * (1 + e * math.cos(nu)) - (e + math.cos(nu)), math.sin(Et) * (1 + e * math.cos(nu)) - math.sin(nu) * b]
        r2 = [math.cos(nut) * (1 - e * math.cos(E)) - (math.cos(E) - e), math.sin(nut) * (1 - e * math.cos(E)) - math.sin(E) * b]
        kep = _circ_dist(M, E - e * math.sin(E))
        kep2 = _circ_dist(Mt, Et - e * math.sin(Et))
    else:
        r1, r2 = [_circ_dist(Et, nu)], [_circ_dist(nut, E)]
        kep, kep2 = _circ_dist(M, E), _circ_dist(Mt, nu)
    inv1 = _circ_dist(float(AN.eccAnom2TrueAnom(Et, e)), nu)
    inv2 = _circ_dist(float(AN.trueAnom2EccAnom(nut, e)), E)
    out.update(textbook_residuals=r1 + r2, kepler_residuals=[kep, kep2], inverse_residuals=[inv1, inv2])
    bad = bad or max(abs(x) for x in r1 + r2 + [kep, kep2, inv1, inv2]) > ANG_TOL / 2
    return bad, out


def _anom_inputs(path):
    def inputs(m):
        d = {"e": mfloat(m, z3.Real("e")), "nu": 0.3, "E": 0.3}
        for n in ("nu", "E"):
            if any(str(k) == n for k in m.decls()) or ("atom", z3.Real(n).get_id()) in path.trig:
                d[n] = model_angle(m, path, z3.Real(n))
        return d
    return inputs


def _o2_explore(rep, body, label):
    def run():
        e = real("e")
        assume(e.t >= 0, e.t < rv(0.9))
        with _quiet():
            return e, body(e)

    res = explore_sliced(run, max_paths=128, branch_timeout_ms=5000)
    rep.note(f"{label}: paths={len(res)}")
    seen = set()
    out = []
    for r in res:
        if r.exc is not None:
            prove(rep, f"{label}-no-exception[{tag(r)}]", z3.BoolVal(False), r.constraints, timeout_ms=20000, sample="anomaly conversions raise nothing for e in [0, 0.9)")
            continue
        e = r.out[0].t
        pinsets = [[e == rv(ev)] + angle_pins(r.path, ("nu", "E"), k) for ev in (Fraction(3, 5), Fraction(0), Fraction(5, 10 ** 8)) for k in range(12)]
        m = reach(rep, f"{label}-path[{tag(r)}]", r.constraints, pinsets)
        if m is None:
            m = rep.feasible(f"{label}-path?[{tag(r)}]", r.constraints, timeout_ms=5000)
            if m is None:
                continue
        seen.add(None if m is True else z3.is_true(m.eval(e >= rv(TOL_E), model_completion=True)))
        out.append((r, e, r.out[1]))
    if not ({True, False} <= seen):
        rep.error("reach", f"{label}: eccentric and circular classes must both be reached, got {seen}")
    return out


class _Sym:
    """View of a module whose functions return proxies also when the analysed code hands back a plain number (a literal 0.0, say)."""

    def __init__(self, mod):
        self.__dict__["_m"] = mod

    def __getattr__(self, name):
        f = getattr(self.__dict__["_m"], name)
        if not callable(f):
            return f

        def g(*a, **k):
            r = f(*a, **k)
            return SReal(r) if isinstance(r, (int, float)) and not isinstance(r, bool) else r

        return g


def _ang(name):
    a = real(name)
    assume(a.t >= 0, a.t < TWOPI)
    return a


def _rng(rep, label, r, val, inputs):
    prove(rep, label, z3.And(val.t >= 0, val.t < TWOPI), r.constraints, inputs=inputs, replay=replay_anom, sample="every returned anomaly lies in [0, 2pi)")


def _close(a, b, tol=ANG_TOL):
    t = rv(tol)
    return z3.And(a - b <= t, b - a <= t)


def _inverse_premise(rep, label, r, e, b, cs0, cs1, back, la, mid, inputs, sample):
    """(cos, sin) of conversion2(conversion1(x)) equals (cos, sin) of x, in three solver steps on the real terms:
    (1) conversion1's textbook relation `la` (already proved), (2) the intermediate angle's pair is on the unit circle, (3) conversion2's
    textbook relation for the intermediate pair taken as an arbitrary point of the circle (generalisation), then the algebra."""
    cons = r.constraints
    (c0, s0), (c1, s1) = cs0, cs1
    with resume(r.path):
        c2, s2 = back.cos().t, back.sin().t
    circ = c1 * c1 + s1 * s1 == 1
    lc = lemma(prove(rep, label + "/circle", circ, cons, inputs=inputs, replay=replay_anom, sample="intermediate anomaly: cos^2 + sin^2 = 1 from the arctan2 contract"), circ)
    C1, S1, C2, S2 = (z3.Real(f"{mid}_{n}") for n in ("c", "s", "c_back", "s_back"))
    eccentric = e >= rv(TOL_E)
    if mid == "E":   # second conversion is E -> nu
        B = z3.And(c2 * (1 - e * c1) == c1 - e, s2 * (1 - e * c1) == s1 * b)
    else:            # second conversion is nu -> E
        B = z3.And(c2 * (1 + e * c1) == e + c1, s2 * (1 + e * c1) == s1 * b)
    B = z3.If(eccentric, B, z3.And(c2 == c1, s2 == s1))
    lb = lemma(prove(rep, label + "/second", B, cons, lemmas=[lc], abstract=[(c1, C1), (s1, S1)], inputs=inputs, replay=replay_anom,
                     sample="second conversion: textbook relation for an arbitrary intermediate (cos, sin) on the unit circle"), B)
    goal = z3.And(c2 == c0, s2 == s0)
    la2 = None if la is None else z3.If(eccentric, la.arg(1) if z3.is_app(la) and la.decl().kind() == z3.Z3_OP_ITE else la, z3.And(c1 == c0, s1 == s0))
    return prove(rep, label, goal, cons, lemmas=[la2, lb, lc], abstract=[(c1, C1), (s1, S1), (c2, C2), (s2, S2)], inputs=inputs, replay=replay_anom, sample=sample)


def o2a_true2ecc(rep):
    from resonaate.physics.orbits import anomaly as AN
    AN = _Sym(AN)  # results that come back as plain numbers are lifted

    def body(e):
        nu = _ang("nu")
        E1 = AN.trueAnom2EccAnom(nu, e)
        nu2 = AN.eccAnom2TrueAnom(E1, e)
        return dict(nu=nu, E1=E1, nu2=nu2, lem=identify_lemma(nu2, nu), beta=(1 - e * e).sqrt(), tr=[(v.cos().t, v.sin().t) for v in (nu, E1)])

    for r, e, o in _o2_explore(rep, body, "nu->E"):
        t, cons, inputs = tag(r), r.constraints, _anom_inputs(r.path)
        (cn, sn), (cE, sE) = o["tr"]
        b, nu = o["beta"].t, o["nu"].t
        _rng(rep, f"range-E[{t}]", r, o["E1"], inputs)
        _rng(rep, f"range-nu[{t}]", r, o["nu2"], inputs)
        g = z3.If(e >= rv(TOL_E), z3.And(cE * (1 + e * cn) == e + cn, sE * (1 + e * cn) == sn * b), o["E1"].t == nu)
        la = lemma(prove(rep, f"trueAnom2EccAnom-textbook[{t}]", g, cons, timeout_ms=30000, inputs=inputs, replay=replay_anom,
                         sample="cos E = (e + cos nu)/(1 + e cos nu), sin E = sqrt(1-e^2) sin nu/(1 + e cos nu); E = nu for circular orbits"), g)
        prem, concl = o["lem"]
        if _inverse_premise(rep, f"inverse-nu->E->nu-cos-sin[{t}]", r, e, b, (cn, sn), (cE, sE), o["nu2"], la, "E", inputs,
                            "eccAnom2TrueAnom(trueAnom2EccAnom(nu)) has the cosine and sine of nu"):
            prove(rep, f"inverse-nu->E->nu[{t}]", _close(o["nu2"].t, nu), cons + [concl], timeout_ms=30000, inputs=inputs, replay=replay_anom,
                      sample="eccAnom2TrueAnom(trueAnom2EccAnom(nu)) = nu on [0, 2pi)")


def o2b_ecc2true(rep):
    from resonaate.physics.orbits import anomaly as AN
    AN = _Sym(AN)  # results that come back as plain numbers are lifted

    def body(e):
        E = _ang("E")
        nu1 = AN.eccAnom2TrueAnom(E, e)
        E2 = AN.trueAnom2EccAnom(nu1, e)
        return dict(E=E, nu1=nu1, E2=E2, lem=identify_lemma(E2, E), beta=(1 - e * e).sqrt(), tr=[(v.cos().t, v.sin().t) for v in (E, nu1)])

    for r, e, o in _o2_explore(rep, body, "E->nu"):
        t, cons, inputs = tag(r), r.constraints, _anom_inputs(r.path)
        (cE, sE), (cn, sn) = o["tr"]
        b, E = o["beta"].t, o["E"].t
        _rng(rep, f"range-nu[{t}]", r, o["nu1"], inputs)
        _rng(rep, f"range-E[{t}]", r, o["E2"], inputs)
        g = z3.If(e >= rv(TOL_E), z3.And(cn * (1 - e * cE) == cE - e, sn * (1 - e * cE) == sE * b), o["nu1"].t == E)
        la = lemma(prove(rep, f"eccAnom2TrueAnom-textbook[{t}]", g, cons, timeout_ms=30000, inputs=inputs, replay=replay_anom,
                         sample="cos nu = (cos E - e)/(1 - e cos E), sin nu = sqrt(1-e^2) sin E/(1 - e cos E); nu = E for circular orbits"), g)
        prem, concl = o["lem"]
        if _inverse_premise(rep, f"inverse-E->nu->E-cos-sin[{t}]", r, e, b, (cE, sE), (cn, sn), o["E2"], la, "nu", inputs,
                            "trueAnom2EccAnom(eccAnom2TrueAnom(E)) has the cosine and sine of E"):
            prove(rep, f"inverse-E->nu->E[{t}]", _close(o["E2"].t, E), cons + [concl], timeout_ms=30000, inputs=inputs, replay=replay_anom,
                      sample="trueAnom2EccAnom(eccAnom2TrueAnom(E)) = E on [0, 2pi)")


def o2c_kepler(rep):
    from resonaate.physics.orbits import anomaly as AN
    AN = _Sym(AN)  # results that come back as plain numbers are lifted

    def body(e):
        E = _ang("E")
        return dict(E=E, M=AN.eccAnom2MeanAnom(E, e), sE=E.sin().t)

    for r, e, o in _o2_explore(rep, body, "E->M"):
        t, cons, inputs = tag(r), r.constraints, _anom_inputs(r.path)
        E, M = o["E"].t, o["M"].t
        _rng(rep, f"range-M[{t}]", r, o["M"], inputs)
        X = z3.If(e >= rv(TOL_E), E - e * o["sE"], E)
        prove(rep, f"kepler[{t}]", z3.Or(*[_close(M, X + TWOPI * j) for j in (-1, 0, 1)]), cons, timeout_ms=30000,
                  inputs=inputs, replay=replay_anom, sample="eccAnom2MeanAnom(E) = E - e sin E (mod 2pi): Kepler's equation")

    def body2(e):
        nu = _ang("nu")
        return dict(nu=nu, M1=AN.trueAnom2MeanAnom(nu, e), tr=(nu.cos().t, nu.sin().t), beta=(1 - e * e).sqrt())

    for r, e, o in _o2_explore(rep, body2, "nu->M"):
        t, cons, inputs = tag(r), r.constraints, _anom_inputs(r.path)
        _rng(rep, f"range-M(nu)[{t}]", r, o["M1"], inputs)
        at = r.path.apps.get("arctan2", [])
        M1, nu = o["M1"].t, o["nu"].t
        if not at:
            prove(rep, f"trueAnom2MeanAnom-circular[{t}]", z3.And(e < rv(TOL_E), _close(M1, nu)), cons, inputs=inputs, replay=replay_anom,
                  sample="circular orbit: mean anomaly = true anomaly")
            continue
        # witness for "there is an eccentric anomaly E with the textbook relation to nu and M = E - e sin E (mod 2pi)": the arctan2 value
        a, (c, s_) = at[0]
        cn, sn = o["tr"]
        b = o["beta"].t
        g = z3.And(c * (1 + e * cn) == e + cn, s_ * (1 + e * cn) == sn * b, e >= rv(TOL_E))
        la = lemma(prove(rep, f"trueAnom2MeanAnom-E-textbook[{t}]", g, cons, inputs=inputs, replay=replay_anom,
                         sample="the eccentric anomaly used has cos E = (e + cos nu)/(1 + e cos nu), sin E = sqrt(1-e^2) sin nu/(1 + e cos nu)"), g)
        circ = z3.And(s_ >= -1, s_ <= 1)
        lb = lemma(prove(rep, f"trueAnom2MeanAnom-sinE-bounded[{t}]", circ, cons, inputs=inputs, replay=replay_anom, sample="|sin E| <= 1"), circ)
        S0 = z3.Real("sinE")
        prove(rep, f"trueAnom2MeanAnom-kepler[{t}]", z3.Or(*[_close(M1, a - e * s_ + TWOPI * j) for j in (-1, 0, 1, 2)]), cons, lemmas=[la, lb], abstract=[(s_, S0)],
              inputs=inputs, replay=replay_anom, sample="trueAnom2MeanAnom(nu) = E - e sin E (mod 2pi) for that E: Kepler's equation")



# ====================================================================================================================
# O3  Cartesian <-> classical elements, in pieces
#     interface form of a state:  r = rho*u_hat,  v = vr*u_hat + vt*w_hat,  (u_hat, w_hat, h_hat) = columns of rot3(-raan) rot1(-inc) rot3(-u)
#     O3a  coe2eci(a,e,i,raan,argp,nu) has that form with rho = p/(1+e cos nu), vr = sqrt(mu/p) e sin nu, vt = sqrt(mu/p)(1+e cos nu), u = argp+nu
#          and the scalar relations that close the loop (vis-viva, eccentricity-vector components)
#     O3b+ eci2coe of a state in interface form returns the elements that describe it
# ====================================================================================================================
def _mu():
    from resonaate.physics.bodies import Earth

    return Earth.mu


def _frame(raan, inc, u):
    """columns (u_hat, w_hat, h_hat) through the repository's own rot1/rot3"""
    from resonaate.physics import maths as M

    R = simp(M.rot3(-raan).dot(M.rot1(-inc).dot(M.rot3(-u))))
    return R[:, 0], R[:, 1], R[:, 2]


def _inc_input(fixed=None):
    """inclination as arccos(ci) of a symbolic cosine (so that sin(inc) = +sqrt(1 - ci^2) and arccos is functional), or an exact constant"""
    if fixed is not None:
        inc = SReal(fixed)
        return inc, inc.cos(), inc.sin()
    ci = real("ci")
    assume(ci.t >= -1, ci.t <= 1)
    inc = ci.arccos()
    return inc, ci, inc.sin()


def _inc_value(m, fixed=None):
    if fixed is not None:
        return float(fixed)
    return math.acos(max(-1.0, min(1.0, mfloat(m, z3.Real("ci")))))


def replay_coe2eci_form(d):
    from resonaate.physics import maths as M
    from resonaate.physics.orbits.conversions import coe2eci

    a, e, inc, raan, argp, nu = (d[k] for k in ("a", "e", "inc", "raan", "argp", "nu"))
    mu = _mu()
    x = coe2eci(a, e, inc, raan, argp, nu)
    p = a * (1 - e * e)
    rho, k = p / (1 + e * math.cos(nu)), math.sqrt(mu / p)
    vr, vt = k * e * math.sin(nu), k * (1 + e * math.cos(nu))
    R = M.rot3(-raan) @ M.rot1(-inc) @ M.rot3(-(argp + nu))
    ref = np.concatenate([rho * R[:, 0], vr * R[:, 0] + vt * R[:, 1]])
    err = float(np.abs(x - ref).max())
    # independent of the rotation helpers: radius, speed, radial velocity, angular momentum
    r, v = x[:3], x[3:]
    h = np.cross(r, v)
    hh = np.array([math.sin(raan) * math.sin(inc), -math.cos(raan) * math.sin(inc), math.cos(inc)])
    inv = [abs(np.linalg.norm(r) - rho), abs(r @ v - rho * vr), float(np.abs(h - rho * vt * hh).max()) / max(1.0, rho * vt)]
    return err > KM_TOL / 2 or max(inv) > KM_TOL / 2, {"max_component_error": err, "radius/radial-velocity/angular-momentum errors": inv}


def o3a_coe2eci(rep):
    from resonaate.physics.orbits import conversions as CV

    mu = _mu()
    with single_path() as p:
        a, e = real("a"), real("e")
        assume(a.t >= 6600, a.t <= 50000, e.t >= 0, e.t < rv(0.9))
        inc, ci, si = _inc_input()
        raan, argp, nu = _ang("raan"), _ang("argp"), _ang("nu")
        x = simp(CV.coe2eci(a, e, inc, raan, argp, nu))
        cnu, snu = nu.cos(), nu.sin()
        pp = a * (1.0 - e ** 2)
        rho = pp / (1.0 + e * cnu)
        k = (mu / pp).sqrt()
        vr, vt = k * e * snu, k * (1.0 + e * cnu)
        uh, wh, hh = _frame(raan, inc, argp + nu)
        ref = np.concatenate([simp(rho * uh), simp(vr * uh + vt * wh)])
        cons = p.constraints()

        def inputs(m):
            d = {"a": mfloat(m, a.t), "e": mfloat(m, e.t), "inc": _inc_value(m)}
            for n in ("raan", "argp", "nu"):
                d[n] = model_angle(m, p, z3.Real(n))
            return d

        for j in range(6):
            prove(rep, f"interface-form[{j}]", close_arrays(x[j:j + 1], ref[j:j + 1], KM_TOL), cons, timeout_ms=60000, inputs=inputs, replay=replay_coe2eci_form,
                  sample="coe2eci = [rho u_hat; vr u_hat + vt w_hat] with rho = p/(1+e cos nu), vr = sqrt(mu/p) e sin nu, vt = sqrt(mu/p)(1+e cos nu)")
        # scalar relations that connect the interface scalars back to (a, e, nu): used by the eci2coe obligations as their specification
        A = vt * vt * rho / mu - 1
        B = -(rho * vr * vt) / mu
        V2 = vr * vr + vt * vt
        sma = mu * rho / (2 * mu - rho * V2)
        tol = rv(1e-9)
        for nm, got, want in (("e cos nu", A, e * cnu), ("-e sin nu", B, -(e * snu))):
            prove(rep, f"closure-{nm}", _close(got.t, want.t, 1e-9), cons, timeout_ms=60000, inputs=inputs, replay=replay_coe2eci_form,
                  sample="eccentricity-vector components of the interface state: vt^2 rho/mu - 1 = e cos nu, -rho vr vt/mu = -e sin nu")
        prove(rep, "closure-vis-viva", _close(sma.t, a.t, KM_TOL), cons, timeout_ms=60000, inputs=inputs, replay=replay_coe2eci_form,
              sample="vis-viva: mu rho/(2 mu - rho v^2) = a for the interface scalars")
        prove(rep, "closure-positive", z3.And(rho.t > 0, vt.t > 0, 2 * mu - (rho * V2).t > 0), cons, timeout_ms=60000, inputs=inputs, replay=replay_coe2eci_form,
              sample="rho > 0, vt > 0, bound orbit")
        rep.reachable("inputs", cons + [a.t == 7000, e.t == rv(Fraction(3, 5)), ci.t == rv(Fraction(3, 5))] + angle_pins(p, ("raan", "argp", "nu"), 0))



class _Iface:
    """symbolic state in interface form + the specification terms derived from it"""

    def __init__(self, inc_fixed=None, raan_fixed=None, inclined=None, eccentric=None, outbound=None):
        mu = _mu()
        self.mu = mu
        self.inc_fixed = inc_fixed
        self.raan_fixed = raan_fixed
        rho, vr, vt = real("rho"), real("vr"), real("vt")
        self.rho, self.vr, self.vt = rho, vr, vt
        assume(rho.t >= 600, rho.t <= 100000, vt.t > 0, (rho * vt).t >= 1000)
        self.inc, self.ci, self.si = _inc_input(inc_fixed)
        self.band = False
        # what the family's own assumptions say about the orbit class (None: left to the path)
        self.known_inclined = False if (inc_fixed is not None or inclined in ("direct", "retro")) else (True if inclined is True else None)
        self.known_eccentric = eccentric
        if inc_fixed is None:
            inside = z3.And(self.inc.t >= rv(TOL_I), self.inc.t <= rv(math.pi - TOL_I))
            if inclined is True:
                # trusted numeric fact about the sine on [limit, pi - limit] (sin(1.745e-9) > 1.7e-9)
                assume(inside, self.si.t >= rv(1.7e-9))
            elif inclined == "direct":  # trusted numeric fact: cos x > 0.999999 for 0 <= x < limit
                assume(self.inc.t < rv(TOL_I), self.ci.t > rv(0.999999))
            elif inclined == "retro":
                assume(self.inc.t > rv(math.pi - TOL_I), self.ci.t < rv(-0.999999))
            self.band = inclined in ("direct", "retro")
        self.raan = SReal(raan_fixed) if raan_fixed is not None else _ang("raan")
        self.u = _ang("u")
        self.uh, self.wh, self.hh = _frame(self.raan, self.inc, self.u)
        self.pos = simp(rho * self.uh)
        self.vel = simp(vr * self.uh + vt * self.wh)
        self.x = np.concatenate([self.pos, self.vel])
        self.V2 = vr * vr + vt * vt
        # cut variables (no loss of generality: they are functions of rho, vr, vt):  A = vt^2 rho/mu - 1 (= e cos nu),  B = -rho vr vt/mu (= -e sin nu),
        # E = sqrt(A^2 + B^2) (= e)
        self.A, self.B, self.E = real("e_cos_nu"), real("minus_e_sin_nu"), real("ecc")
        assume((mu * (1 + self.A)).t == (vt * vt * rho).t, (mu * self.B).t == (-(rho * vr * vt)).t, self.E.t >= 0, (self.E * self.E).t == (self.A * self.A + self.B * self.B).t)
        self.E2 = self.A * self.A + self.B * self.B
        self.sma = mu * rho / (2 * mu - rho * self.V2)
        # bound orbit inside the stated element ranges
        assume(self.E.t < rv(0.9), (2 * mu - rho * self.V2).t > 0, self.sma.t >= 6600, self.sma.t <= 50000)
        if outbound is True:  # radial velocity sign (splits the work; both halves are run)
            assume(vr.t >= 0)
        elif outbound is False:
            assume(vr.t < 0)
        if eccentric is True:
            assume(self.E.t >= rv(TOL_E))
        elif eccentric is False:
            assume(self.E.t < rv(TOL_E))
        self.cu, self.su = self.u.cos(), self.u.sin()
        self.cO, self.sO = self.raan.cos(), self.raan.sin()

    def canon(self):
        A, B, E, rho, vr, vt, si, ci = self.A, self.B, self.E, self.rho, self.vr, self.vt, self.si, self.ci
        cn = Canon()
        cn.add("rho", rho, True).add("rho*vt", rho * vt, True).add("rho*vt*si", simp(rho * vt * si), True).add("E", E, True)
        cn.add_square("v^2", self.V2)
        cn.add("rho*vr", rho * vr).add("ci", ci).add("cos raan", self.cO).add("sin raan", self.sO).add("cos u", self.cu)
        cn.add("rho cos u", rho * self.cu)
        cn.add_vec("h", simp(rho * vt * self.hh))
        cn.add_vec("node", simp(rho * vt * si * np.array([self.cO, self.sO, SReal(0)], dtype=object)))
        ev = np.array([A * self.uh[j] + B * self.wh[j] for j in range(3)], dtype=object)  # built from A, B as they are (the proofs name these sub-terms)
        cn.add_vec("e_vec", ev)
        cn.add_vec("e_hat", np.array([x / E for x in ev], dtype=object))
        cn.add("n.e", (A * self.cu - B * self.su) / E).add("e.r", A * rho / E).add("A/E", A / E)
        cn.add_vec("u_hat", self.uh)
        p = cur()
        pins = []
        for k in range(4):
            pp = [rho.t == 7000 + 1000 * k, self.B.t == rv(Fraction([3, -3, 4, 0][k], 10)), self.A.t == rv(Fraction([4, 4, -3, 1][k], 10))]
            if self.inc_fixed is None:
                pp.append(ci.t == rv([Fraction(3, 5), Fraction(-4, 5), Fraction(5, 13), Fraction(-12, 13)][k]))
            pp += angle_pins(p, ("raan", "u"), k)
            pins.append(pp)
        cn.pins = pins
        return cn

    def inputs(self, path):
        def f(m):
            d = {"rho": mfloat(m, self.rho.t), "vr": mfloat(m, self.vr.t), "vt": mfloat(m, self.vt.t), "inc": _inc_value(m, self.inc_fixed)}
            if self.band:  # inside a threshold band the inclination itself (not its cosine, which is 1 to 18 digits) identifies the input
                d["inc"] = min(math.pi, max(0.0, mfloat(m, self.inc.t)))
            d["raan"] = float(self.raan_fixed) if self.raan_fixed is not None else model_angle(m, path, z3.Real("raan"))
            d["u"] = model_angle(m, path, z3.Real("u"))
            return d
        return f


def _iface_state(d):
    from resonaate.physics import maths as M

    R = M.rot3(-d["raan"]) @ M.rot1(-d["inc"]) @ M.rot3(-d["u"])
    return np.concatenate([d["rho"] * R[:, 0], d["vr"] * R[:, 0] + d["vt"] * R[:, 1]])


def replay_eci2coe(d):
    """eci2coe on the float state, then (i) coe2eci of the result must give the state back when the orbit is not in a threshold band,
    (ii) element-level expectations that hold in every class."""
    from resonaate.physics.orbits.conversions import coe2eci, eci2coe

    mu = _mu()
    x = _iface_state(d)
    sma, ecc, inc, raan, argp, nu = (float(v) for v in eci2coe(x))
    rho, vr, vt = d["rho"], d["vr"], d["vt"]
    A, B = vt * vt * rho / mu - 1, -rho * vr * vt / mu
    E = math.hypot(A, B)
    out = {"elements": [sma, ecc, inc, raan, argp, nu], "state": x}
    bad = []
    if abs(sma - mu * rho / (2 * mu - rho * (vr * vr + vt * vt))) > 1e-6 * sma:
        bad.append("sma")
    if abs(ecc - E) > 1e-9:
        bad.append("ecc")
    if abs(inc - d["inc"]) > 1e-7:
        bad.append("inc")
    for nm, v in (("raan", raan), ("argp", argp), ("anomaly", nu)):
        if not (0 <= v < 2 * math.pi):
            bad.append(nm + "-range")
    inclined = TOL_I <= d["inc"] <= math.pi - TOL_I
    eccentric = E >= TOL_E
    if inclined and _circ_dist(raan, d["raan"]) > 1e-7:
        bad.append("raan")
    if not inclined and raan != 0.0:
        bad.append("raan-not-zero")
    if not eccentric and argp != 0.0:
        bad.append("argp-not-zero")
    if eccentric and E > 1e-4 and _circ_dist(nu, math.atan2(-B, A)) > 1e-6:
        bad.append("true-anomaly")
    if (inclined or abs(math.sin(d["raan"])) < 1e-12) and _circ_dist(argp + nu, d["u"]) > 1e-6 and (E > 1e-4 or not eccentric):
        bad.append("argument-of-latitude")
    x2 = coe2eci(sma, ecc, inc, raan, argp, nu)
    err = float(np.abs(x2 - x).max())
    out["roundtrip_error_km"] = err
    if err > 1e-3 * (1 + 1e5 * (E if not eccentric else 0)) and (inclined or abs(math.sin(d["raan"])) < 1e-12):
        bad.append("state-not-reproduced")
    out["failed"] = bad
    return bool(bad), out


def _eci2coe_run(make):
    from resonaate.physics import maths as M
    from resonaate.physics.orbits import conversions as CV
    from resonaate.physics.orbits import utils as UT
    import resonaate.physics.orbits as OR

    def run():
        st = make()
        cn = st.canon()

        def fix(angle_, check):
            return OR.fixAngleQuadrant(angle_, cn.scalar(check, "quadrant-check") if isinstance(check, SReal) else check)

        with _quiet(), shadow(CV, norm=cn.norm, vdot=cn.vdot, arccos=cn.arccos), shadow(UT, norm=cn.norm, vdot=cn.vdot, cross=cn.cross, fixAngleQuadrant=fix), \
                shadow(M, arccos=cn.arccos, fabs=cn.fabs):
            out = CV.eci2coe(st.x)
        return st, cn, out

    return run


def _angle_equal(rep, label, r, got, want, cons, inputs, replay, sample, lemmas=(), abstract=()):
    """got == want for angles both known to lie in [0, 2pi): (cos, sin) equal (solver), then the trusted step
    'equal (cos, sin) => whole turns apart' and linear arithmetic on the ranges."""
    with resume(r.path):
        prem, concl = identify_lemma(got, want)
    if not prove(rep, label + "/cos-sin", prem, cons, lemmas=lemmas, abstract=abstract, inputs=inputs, replay=replay, sample=sample + " (cosine and sine)"):
        return False
    g = _close(_z(got), _z(want))
    return prove(rep, label, g, list(cons) + [concl], inputs=inputs, replay=replay, sample=sample)


def _o3_check(rep, make, label, expect_classes, regions=None):
    res = explore_sliced(_eci2coe_run(make), max_paths=400, max_depth=80, branch_timeout_ms=4000)
    rep.note(f"{label}: paths={len(res)}")
    seen = set()
    for r in res:
        t = tag(r)
        if r.exc is not None:
            prove(rep, f"{label}-no-exception[{t}]", z3.BoolVal(False), r.constraints, timeout_ms=20000, sample=f"eci2coe raises nothing on a bound orbit ({type(r.exc).__name__} path infeasible)")
            continue
        st, cn, out = r.out
        cons = r.constraints
        inputs = st.inputs(r.path)
        kw = dict(inputs=inputs, replay=replay_eci2coe, regions=regions, pc=r.path.pc, pins=cn.pins)
        sma, ecc, inc, raan, argp, anom = out
        pinsets = cn.pins
        m = reach(rep, f"{label}-path[{t}]", cons, pinsets)
        if m is None:
            m = rep.feasible(f"{label}-path?[{t}]", cons, timeout_ms=5000)
            if m is None:
                continue
        un = cn.unmatched()
        if un:
            rep.note(f"{label}[{t}]: {len(un)} values not canonicalised, e.g. {un[0]}")
        E, A, B = st.E.t, st.A.t, st.B.t
        inclined = z3.And(st.inc.t >= rv(TOL_I), st.inc.t <= rv(math.pi - TOL_I))
        eccentric = E >= rv(TOL_E)
        # class of this path (decided by the solver from the path condition)
        from symx.core import refute

        def decided(c):
            hy_ = _simplified(cons)
            for sl_, to_ in ((slice_plus(c, hy_, hop=0), 8000), (slice_pc(c, hy_, r.path.pc), 8000), (slice_plus(c, hy_), 8000), (hy_, 30000)):
                if refute(c, sl_, to_).status == "unsat":
                    return True
                if refute(z3.Not(c), sl_, to_).status == "unsat":
                    return False
            return None

        is_inc = st.known_inclined if st.known_inclined is not None else decided(inclined)
        is_ecc = st.known_eccentric if st.known_eccentric is not None else decided(eccentric)
        if is_inc is None or is_ecc is None:
            rep.undecided(f"{label}-class[{t}]", "the path does not determine the orbit class")
            continue
        seen.add((is_inc, is_ecc))
        prove(rep, f"{label}-sma[{t}]", _close(_z(sma), st.sma.t, KM_TOL), cons, sample="semi-major axis = mu rho/(2 mu - rho v^2) (vis-viva)", **kw)
        prove(rep, f"{label}-ecc[{t}]", z3.And(_z(ecc) >= 0, _close(_z(ecc) * _z(ecc), st.E2.t, 1e-12)), cons, sample="eccentricity = |(vt^2 rho/mu - 1) u_hat - (rho vr vt/mu) w_hat|", **kw)
        prove(rep, f"{label}-inc[{t}]", _close(_z(inc), st.inc.t), cons, sample="inclination = angle between the angular momentum and +Z", **kw)
        for nm, v in (("raan", raan), ("argp", argp), ("anomaly", anom)):
            prove(rep, f"{label}-{nm}-range[{t}]", z3.And(_z(v) >= 0, _z(v) < TWOPI), cons, sample=f"returned {nm} in [0, 2pi)", **kw)
        if is_inc:
            if isinstance(raan, SReal):
                _angle_equal(rep, f"{label}-raan[{t}]", r, raan, st.raan, cons, inputs, replay_eci2coe, "inclined orbit: returned right ascension = node angle of the state")
            else:
                rep.error(f"{label}-raan[{t}]", "inclined orbit but a constant right ascension was returned")
        else:
            prove(rep, f"{label}-raan-zero[{t}]", _z(raan) == 0, cons, sample="equatorial orbit: right ascension reported as 0", **kw)
        if not is_ecc:
            prove(rep, f"{label}-argp-zero[{t}]", _z(argp) == 0, cons, sample="circular orbit: argument of perigee reported as 0", **kw)
        # argument of latitude reproduced: argp + anomaly == u (mod 2pi); with raan = 0 in the equatorial families this is the true longitude
        argp, anom = (v if isinstance(v, SReal) else SReal(float(v)) for v in (argp, anom))
        total = argp + anom
        cu, su = st.cu.t, st.su.t
        with resume(r.path):
            ct, st_ = total.cos().t, total.sin().t
            if is_ecc:
                cv, sv = anom.cos().t, anom.sin().t
                cw, sw = argp.cos().t, argp.sin().t
        goal = z3.And(_close(ct, cu, 1e-9), _close(st_, su, 1e-9))
        smp = "argp + anomaly = argument of latitude of the state (mod 2pi): the returned angles place the satellite where it is"
        if not is_ecc:
            prove(rep, f"{label}-argument-of-latitude[{t}]", goal, cons, timeout_ms=60000, sample=smp, **kw)
            continue
        # Every step below is a solver query.  Facts about the returned angles are proved on the real terms (F1 cosine, F2 unit circle, F3 sign of
        # the sine from the quadrant rule); the algebra that combines them is proved once for arbitrary values (fresh variables), which is sound
        # because it is then instantiated with the values of the real terms.
        lc = z3.And(E > 0, E * E == A * A + B * B, cu * cu + su * su == 1)
        okc = prove(rep, f"{label}-ecc-facts[{t}]", lc, cons, sample="on an eccentric path e > 0, e^2 = (e cos nu)^2 + (e sin nu)^2", **kw)

        def angle_pair(nm, c_, s_, cexp, sexp, what):
            f1 = c_ * E == cexp
            f2 = c_ * c_ + s_ * s_ == 1
            oks = [prove(rep, f"{label}-{nm}-cos[{t}]", f1, cons, sample=f"{what}: cosine", **kw),
                   prove(rep, f"{label}-{nm}-circle[{t}]", f2, cons, sample=f"{what}: cos^2 + sin^2 = 1", **kw)]
            C, S = z3.Real(f"{nm}_cos"), z3.Real(f"{nm}_sin")
            if not (all(oks) and okc):
                if any(o is None for o in oks + [okc]):
                    rep.undecided(f"{label}-{nm}-sine[{t}]", "a fact this step depends on was not decided")
                return None  # (a refuted fact is reported by its own item)
            # algebra, for arbitrary values: (sin * e)^2 = (expected e*sin)^2
            sq = lambda x: x * x  # noqa: E731
            ok1 = prove(rep, f"{label}-{nm}-sine-magnitude[{t}]", sq(S * E) == sq(sexp), [C * E == cexp, C * C + S * S == 1, lc],
                        sample=f"{what}: |sine| (algebra from cosine and unit circle, for arbitrary values)")
            if not ok1:
                return None
            # sign: on one path the quadrant rule has fixed the sign of the returned sine and the path condition has fixed the sign of the
            # quantity it tested; both are small queries.  (If they cannot be decided separately the combined statement is asked.)
            from symx.core import refute

            def sign(term, lem):
                hy = _simplified(list(cons) + lem)
                for sg, fact in ((1, term >= 0), (-1, term <= 0)):
                    tgt = z3.And(fact, *lem) if lem else fact
                    for sl in (slice_plus(tgt, hy, hop=0), slice_pc(tgt, hy, r.path.pc), slice_plus(tgt, hy, hop=4)):
                        if refute(fact, sl, 4000).status == "unsat":
                            return sg, fact
                return None, None

            sg_s, fact_s = sign(s_, [])
            sg_x, fact_x = sign(sexp, [lc])
            if sg_s is not None and sg_x is not None and sg_s == sg_x:
                ok3 = prove(rep, f"{label}-{nm}-quadrant[{t}]", z3.And(fact_s, fact_x), cons, lemmas=[lc],
                            sample=f"{what}: the quadrant rule gives the sine the sign of the tested quantity", **kw)
                hyp = [sq(S * E) == sq(sexp), (S >= 0) if sg_s > 0 else (S <= 0), fact_x, lc]
            else:
                f3 = z3.And(z3.Implies(sexp < 0, s_ <= 0), z3.Implies(sexp >= 0, s_ >= 0))
                ok3 = prove(rep, f"{label}-{nm}-quadrant[{t}]", f3, cons, lemmas=[sq(s_ * E) == sq(sexp), lc], sample=f"{what}: the quadrant rule gives the sine its sign", **kw)
                hyp = [sq(S * E) == sq(sexp), z3.Implies(sexp < 0, S <= 0), z3.Implies(sexp >= 0, S >= 0), lc]
            if not ok3:
                if ok3 is None:
                    rep.undecided(f"{label}-{nm}-sine[{t}]", "a fact this step depends on was not decided")
                return None
            ok = prove(rep, f"{label}-{nm}-sine[{t}]", S * E == sexp, hyp, sample=f"{what}: sine (algebra from magnitude and sign, for arbitrary values)")
            return z3.And(c_ * E == cexp, s_ * E == sexp) if ok else None

        la = angle_pair("true-anomaly", cv, sv, A, -B, "eccentric orbit: e cos nu = vt^2 rho/mu - 1, e sin nu = rho vr vt/mu")
        lb = angle_pair("perigee", cw, sw, A * cu - B * su, A * su + B * cu,
                        "eccentric orbit: the returned argument of perigee (true longitude of periapsis when equatorial) points along the eccentricity vector")
        if la is None or lb is None:
            continue
        CV_, SV_, CW_, SW_ = (z3.Real(n) for n in ("nu_c", "nu_s", "argp_c", "argp_s"))
        hyp = [CV_ * E == A, SV_ * E == -B, CW_ * E == A * cu - B * su, SW_ * E == A * su + B * cu, lc]
        fin = z3.And(CW_ * CV_ - SW_ * SV_ == cu, SW_ * CV_ + CW_ * SV_ == su)
        prove(rep, f"{label}-argument-of-latitude[{t}]", fin, hyp, timeout_ms=60000, sample=smp + " (addition formulas on the two proved pairs)")
    missing = set(expect_classes) - seen
    if missing:
        rep.error("reach", f"{label}: orbit classes (inclined, eccentric) not reached: {sorted(missing)}")


def o3b_inclined(rep):
    _o3_check(rep, lambda: _Iface(inclined=True, eccentric=True, outbound=True), "inclined-eccentric-outbound", [(True, True)])


def o3b1_inclined_inbound(rep):
    _o3_check(rep, lambda: _Iface(inclined=True, eccentric=True, outbound=False), "inclined-eccentric-inbound", [(True, True)])


def o3b2_inclined_circular(rep):
    _o3_check(rep, lambda: _Iface(inclined=True, eccentric=False), "inclined-circular", [(True, False)])


def o3c_equatorial_direct(rep):
    _o3_check(rep, lambda: _Iface(inc_fixed=Fraction(0), raan_fixed=Fraction(0)), "equatorial-exact", [(False, True), (False, False)])


def o3c2_equatorial_direct_band(rep):
    _o3_check(rep, lambda: _Iface(raan_fixed=Fraction(0), inclined="direct"), "equatorial-band", [(False, True), (False, False)])


def replay_vec(d):
    from resonaate.physics.orbits import utils as UT

    mu = _mu()
    x = _iface_state(d)
    r, v = x[:3], x[3:]
    rho, vr, vt = d["rho"], d["vr"], d["vt"]
    hh = np.array([math.sin(d["raan"]) * math.sin(d["inc"]), -math.cos(d["raan"]) * math.sin(d["inc"]), math.cos(d["inc"])])
    A, B = vt * vt * rho / mu - 1, -rho * vr * vt / mu
    uh, wh = r / rho, (v - vr * r / rho) / vt
    sma = float(UT.getSemiMajorAxis(np.linalg.norm(r), np.linalg.norm(v)))
    h = UT.getAngularMomentum(r, v)
    ecc, ev = UT.getEccentricity(r, v)
    node = UT.getLineOfNodes(h)
    errs = {"sma": abs(sma - mu * rho / (2 * mu - rho * (vr * vr + vt * vt))) / sma, "h": float(np.abs(h - rho * vt * hh).max()) / (rho * vt),
            "ecc": abs(float(ecc) - math.hypot(A, B)), "e_vec": float(np.abs(np.asarray(ev) * (float(ecc) if float(ecc) >= 1e-15 else 1.0) - (A * uh + B * wh)).max()),
            "node": float(np.abs(node - np.array([-h[1], h[0], 0.0])).max()) / (rho * vt)}
    return max(errs.values()) > 1e-9, errs


def o3v_vector_helpers(rep):
    """getSemiMajorAxis / getAngularMomentum / getEccentricity / getLineOfNodes on a state in interface form, general position"""
    from resonaate.physics.orbits import utils as UT

    def run():
        st = _Iface()
        cn = st.canon()
        with _quiet(), shadow(UT, norm=cn.norm, vdot=cn.vdot, cross=cn.cross):
            sma = UT.getSemiMajorAxis(cn.norm(st.pos), cn.norm(st.vel))
            h = UT.getAngularMomentum(st.pos, st.vel)
            ecc, ev = UT.getEccentricity(st.pos, st.vel)
            node = UT.getLineOfNodes(h)
        return st, cn, sma, h, ecc, ev, node

    res = explore_sliced(run, max_paths=16, branch_timeout_ms=4000)
    n = 0
    for r in res:
        t = tag(r)
        if r.exc is not None:
            rep.error(f"exception[{t}]", repr(r.exc))
            continue
        st, cn, sma, h, ecc, ev, node = r.out
        cons = r.constraints
        kw = dict(inputs=st.inputs(r.path), replay=replay_vec, pc=r.path.pc, pins=cn.pins)
        if reach(rep, f"path[{t}]", cons, cn.pins) is None and rep.feasible(f"path?[{t}]", cons, timeout_ms=5000) is None:
            continue
        n += 1
        prove(rep, f"sma[{t}]", _close(_z(sma), st.sma.t, KM_TOL), cons, sample="getSemiMajorAxis(|r|, |v|) = mu rho/(2 mu - rho v^2)", **kw)
        href = simp(st.rho * st.vt * st.hh)
        for j in range(3):
            prove(rep, f"h[{j}][{t}]", _close(_z(h[j]), href[j].t, 1e-6), cons, sample="getAngularMomentum = rho vt h_hat", **kw)
            prove(rep, f"node[{j}][{t}]", _close(_z(node[j]), [(-href[1]).t, href[0].t, rv(0)][j], 1e-6), cons, sample="getLineOfNodes = z_hat x h", **kw)
        prove(rep, f"ecc[{t}]", z3.And(_z(ecc) >= 0, _close(_z(ecc) * _z(ecc), st.E2.t, 1e-12)), cons, sample="getEccentricity: e^2 = (vt^2 rho/mu - 1)^2 + (rho vr vt/mu)^2", **kw)
        scale = z3.If(_z(ecc) >= rv(1e-15), _z(ecc), rv(1))
        for j in range(3):
            want = (st.A * st.uh[j] + st.B * st.wh[j]).t
            prove(rep, f"e_vec[{j}][{t}]", _close(_z(ev[j]) * scale, want, 1e-9), cons,
                  sample="getEccentricity: vector (unit when e >= 1e-15) along (vt^2 rho/mu - 1) u_hat - (rho vr vt/mu) w_hat", **kw)
    if n == 0:
        rep.error("reach", "no feasible path")


RETRO_REGIONS = None  # (the retrograde-equatorial defect found by O1c/O3d was repaired in /repo; no known-finding region is needed)


def o3d_equatorial_retro(rep):
    _o3_check(rep, lambda: _Iface(inc_fixed=PI_F, raan_fixed=Fraction(0)), "retrograde-exact", [(False, True), (False, False)], RETRO_REGIONS)


def o3e_equatorial_retro_band(rep):
    _o3_check(rep, lambda: _Iface(raan_fixed=Fraction(0), inclined="retro"), "retrograde-band", [(False, True), (False, False)], RETRO_REGIONS)



# ====================================================================================================================
# O6  state configurations: the three descriptions reach the conversion functions unchanged
# ====================================================================================================================
COE_VARIANTS = {
    "full": ("true_anomaly", "right_ascension", "argument_periapsis"),
    "equatorial": ("true_anomaly", "true_longitude_periapsis"),
    "circular": ("right_ascension", "argument_latitude"),
    "circular-equatorial": ("true_longitude",),
}


def _variant_elements(variant, f):
    """(raan, argp, anomaly) in degrees that the documented field combination stands for"""
    z = 0.0
    if variant == "full":
        return f["right_ascension"], f["argument_periapsis"], f["true_anomaly"]
    if variant == "equatorial":
        return z, f["true_longitude_periapsis"], f["true_anomaly"]
    if variant == "circular":
        return f["right_ascension"], z, f["argument_latitude"]
    return z, z, f["true_longitude"]


def replay_config(d):
    from resonaate.physics.orbits.conversions import coe2eci, eqe2eci
    from resonaate.physics.orbits.utils import singularityCheck
    from resonaate.scenario.config.state_config import COEStateConfig, ECIStateConfig, EQEStateConfig

    D = math.pi / 180.0
    hist = d.get("history")

    def edited(c0, new):
        """the history of the configuration object (see _coe_history), on the really validated object"""
        if hist == "copy":
            return c0.model_copy(update=new)
        c0.toECI(None)
        if hist == "copy-of-used":
            return c0.model_copy(update=new)
        for k_, v_ in new.items():
            setattr(c0, k_, v_)
        return c0

    if d["kind"] == "eci":
        if hist:
            x = edited(ECIStateConfig(position=[7000.0, 1.0, 2.0], velocity=[0.0, 7.5, 0.1]), {"position": d["position"], "velocity": d["velocity"]}).toECI(None)
        else:
            x = ECIStateConfig(position=d["position"], velocity=d["velocity"]).toECI(None)
        err = float(np.abs(np.asarray(x) - np.array(d["position"] + d["velocity"])).max())
        return err > 0, {"error": err}
    if d["kind"] == "coe":
        f = d["fields"]
        if hist:
            c0 = COEStateConfig(semi_major_axis=FIRST_COE["a"], eccentricity=FIRST_COE["e"], inclination=FIRST_COE["inc_deg"], **{n: FIRST_COE["angle_deg"] for n in f})
            x = edited(c0, dict(semi_major_axis=d["a"], eccentricity=d["e"], inclination=d["inc_deg"], **f)).toECI(None)
        else:
            x = COEStateConfig(semi_major_axis=d["a"], eccentricity=d["e"], inclination=d["inc_deg"], **f).toECI(None)
        raan, argp, anom = (v * D for v in _variant_elements(d["variant"], f))
        ref = coe2eci(d["a"], d["e"], d["inc_deg"] * D, *singularityCheck(d["e"], d["inc_deg"] * D, raan, argp, anom))
        err = float(np.abs(x - ref).max())
        return err > KM_TOL / 2, {"state": x, "coe2eci of the described elements": ref, "error": err}
    if hist:
        c0 = EQEStateConfig(semi_major_axis=FIRST_EQE["a"], h=FIRST_EQE["h"], k=FIRST_EQE["k"], p=FIRST_EQE["p"], q=FIRST_EQE["q"], mean_longitude=FIRST_EQE["lam_deg"], retrograde=d["retro"])
        x = edited(c0, dict(semi_major_axis=d["a"], h=d["h"], k=d["k"], p=d["p"], q=d["q"], mean_longitude=d["lam_deg"])).toECI(None)
    else:
        x = EQEStateConfig(semi_major_axis=d["a"], h=d["h"], k=d["k"], p=d["p"], q=d["q"], mean_longitude=d["lam_deg"], retrograde=d["retro"]).toECI(None)
    ref = eqe2eci(d["a"], d["h"], d["k"], d["p"], d["q"], d["lam_deg"] * D, retro=d["retro"])
    err = float(np.abs(x - ref).max())
    return err > KM_TOL / 2, {"state": x, "eqe2eci of the described elements": ref, "error": err}


def _deg(name, D):
    """a configuration field in degrees whose value in radians (field * DEG2RAD, as the code converts it) is the symbolic angle `name`
    in [0, 2pi): the angle algebra needs the radian value as its variable"""
    r = _ang(name)
    return r / D


FIRST_COE = {"a": 7100.0, "e": 0.02, "inc_deg": 35.0, "angle_deg": 40.0}   # the values a configuration object holds before it is edited (O6c)
FIRST_EQE = {"a": 7100.0, "h": 0.01, "k": 0.02, "p": 0.1, "q": -0.2, "lam_deg": 40.0}
HISTORIES = ("assign", "copy", "copy-of-used")


def _coe_history(history, COEStateConfig, names, a, e, inc_deg, f):
    """the configuration object's history before the conversion that is checked: really validated and converted once with other
    numbers (same field combination), then edited through the public API"""
    c0 = COEStateConfig(semi_major_axis=FIRST_COE["a"], eccentricity=FIRST_COE["e"], inclination=FIRST_COE["inc_deg"], **{n: FIRST_COE["angle_deg"] for n in names})
    new = dict(semi_major_axis=a, eccentricity=e, inclination=inc_deg, **f)
    if history == "copy":
        return c0.model_copy(update=new)
    c0.toECI(None)
    if history == "copy-of-used":
        return c0.model_copy(update=new)
    for k_, v_ in new.items():
        setattr(c0, k_, v_)
    return c0


def _eqe_history(history, EQEStateConfig, retro, new):
    c0 = EQEStateConfig(semi_major_axis=FIRST_EQE["a"], h=FIRST_EQE["h"], k=FIRST_EQE["k"], p=FIRST_EQE["p"], q=FIRST_EQE["q"], mean_longitude=FIRST_EQE["lam_deg"], retrograde=retro)
    if history == "copy":
        return c0.model_copy(update=new)
    c0.toECI(None)
    if history == "copy-of-used":
        return c0.model_copy(update=new)
    for k_, v_ in new.items():
        setattr(c0, k_, v_)
    return c0


def o6a_config_coe(rep, history=None):
    from resonaate.physics import constants as const
    from resonaate.physics.orbits import utils as UT
    from resonaate.physics.orbits import conversions as CV
    from resonaate.physics.orbits import elements as EL
    from resonaate.scenario.config.state_config import COEStateConfig

    D = const.DEG2RAD
    for variant, names in COE_VARIANTS.items():
        def run(variant=variant, names=names):
            a, e, inc_rad = real("a"), real("e"), real("inc")
            assume(a.t >= 6600, a.t <= 50000, e.t >= 0, e.t < rv(0.9), inc_rad.t >= 0, inc_rad.t <= PI)
            inc_deg = inc_rad / D
            f = {n: _deg(n, D) for n in names}
            if history is None:
                cfg = COEStateConfig.model_construct(semi_major_axis=a, eccentricity=e, inclination=inc_deg, **f)
                cfg.validate_elements()
            else:
                cfg = _coe_history(history, COEStateConfig, names, a, e, inc_deg, f)
            # attributes ClassicalElements computes besides the elements (period, mean motion, mean anomaly) do not enter toECI
            with _quiet(), shadow(EL, getPeriod=lambda *a_, **k_: 0.0, getMeanMotion=lambda *a_, **k_: 0.0, trueAnom2MeanAnom=lambda *a_, **k_: 0.0):
                x = cfg.toECI(None)
            raan, argp, anom = (v * D for v in _variant_elements(variant, f))
            raan, argp, anom = (v if isinstance(v, SReal) else SReal(0) for v in (raan, argp, anom))
            inc = inc_deg * D
            # the element object documents that it folds singular cases with singularityCheck (whose own behaviour is O1/O1b/O1c's subject)
            with _quiet():
                ref = CV.coe2eci(a, e, inc, *UT.singularityCheck(e, inc, raan, argp, anom))
            return x, ref, f

        res = explore_sliced(run, max_paths=200)
        rep.note(f"{variant}: paths={len(res)}")
        n = 0
        for r in res:
            t = tag(r)
            if r.exc is not None:
                prove(rep, f"{variant}-no-exception[{t}]", z3.BoolVal(False), r.constraints, sample="toECI raises nothing for documented field ranges")
                continue
            x, ref, f = r.out

            def inputs(m, variant=variant, f=f, r=r):
                fl = {n: min(model_angle(m, r.path, z3.Real(n)) / D, 359.99999999999994) for n in f}
                return {"kind": "coe", "variant": variant, "a": mfloat(m, z3.Real("a")), "e": mfloat(m, z3.Real("e")),
                        "inc_deg": min(180.0, mfloat(m, z3.Real("inc")) / D), "fields": fl, "history": history}

            n += 1
            for j in range(6):
                prove(rep, f"{variant}-state[{j}][{t}]", close_arrays(x[j:j + 1], ref[j:j + 1], KM_TOL), r.constraints, inputs=inputs, replay=replay_config,
                      sample="COEStateConfig.toECI = coe2eci of the elements the fields describe (degrees -> radians, documented singular-case folding)"
                      + (f"; configuration object with history '{history}' (validated and used with other numbers, then edited through the public API)" if history else ""))
        if n == 0:
            rep.error("reach", f"{variant}: no path")
        rep.reachable(f"{variant}-inputs", [z3.Real("a") == 7000])


def o6b_config_eci_eqe(rep, history=None):
    from resonaate.physics import constants as const
    from resonaate.physics.orbits import anomaly as AN
    AN = _Sym(AN)  # results that come back as plain numbers are lifted
    from resonaate.physics.orbits import conversions as CV
    from resonaate.physics.orbits import elements as EL
    from resonaate.physics.orbits import utils as UT
    from resonaate.scenario.config.state_config import ECIStateConfig, EQEStateConfig
    from symx.core import reals

    D = const.DEG2RAD
    with single_path() as p:
        pos, vel = reals("pos", 3), reals("vel", 3)
        if history is None:
            ecfg = ECIStateConfig.model_construct(position=list(pos), velocity=list(vel))
        else:
            ecfg = ECIStateConfig(position=[7000.0, 1.0, 2.0], velocity=[0.0, 7.5, 0.1])
            if history != "copy":
                ecfg.toECI(None)
            if history == "assign":
                ecfg.position, ecfg.velocity = list(pos), list(vel)
            else:
                ecfg = ecfg.model_copy(update={"position": list(pos), "velocity": list(vel)})
        x = ecfg.toECI(None)
        ref = np.concatenate([pos, vel])
        inputs = lambda m: {"kind": "eci", "position": [mfloat(m, v.t) for v in pos], "velocity": [mfloat(m, v.t) for v in vel], "history": history}  # noqa: E731
        for j in range(6):
            prove(rep, f"eci-state[{j}]", _z(x[j]) == _z(ref[j]), p.constraints(), inputs=inputs, replay=replay_config, sample="ECIStateConfig.toECI = [position; velocity]")
        rep.reachable("eci-inputs", [pos[0].t == 7000])

    for retro in (False, True):
        def run(retro=retro):
            a, h, k, pp, q, lam = real("a"), real("h"), real("k"), real("p"), real("q"), _deg("lam", D)
            assume(a.t >= 6600, a.t <= 50000, (h * h + k * k).t < rv(0.81), pp.t >= -50, pp.t <= 50, q.t >= -50, q.t <= 50)
            if history is None:
                cfg = EQEStateConfig.model_construct(semi_major_axis=a, h=h, k=k, p=pp, q=q, mean_longitude=lam, retrograde=retro)
            else:
                cfg = _eqe_history(history, EQEStateConfig, retro, dict(semi_major_axis=a, h=h, k=k, p=pp, q=q, mean_longitude=lam))
            ks = KeplerStub()
            with _quiet(), shadow(EL, getPeriod=lambda *a_, **k_: 0.0, getMeanMotion=lambda *a_, **k_: 0.0), shadow(getattr(AN, "_m", AN), keplerSolveEQE=ks.eqe), shadow(UT, arctan=arctan_via_arctan2):
                x = cfg.toECI(None)
                ref = CV.eqe2eci(a, h, k, pp, q, lam * D, retro=retro)
            return x, ref, ks.axioms

        res = explore_sliced(run, max_paths=200)
        rep.note(f"eqe retro={retro}: paths={len(res)}")
        n = 0
        for r in res:
            t = tag(r)
            if r.exc is not None:
                prove(rep, f"eqe-no-exception[retro={retro}][{t}]", z3.BoolVal(False), r.constraints, sample="toECI raises nothing for bound equinoctial elements")
                continue
            x, ref, axioms = r.out
            cons = list(r.constraints)
            lem = []
            for i, (same, eq) in enumerate(axioms):  # the solver stub is a function: once the questions are proved equal, so are the answers
                if prove(rep, f"eqe-same-question#{i}[retro={retro}][{t}]", same, cons, sample="the Kepler solver is asked for the same (wrapped) mean longitude by the configuration object and by eqe2eci"):
                    lem.append(eq)

            def inputs(m, retro=retro, r=r):
                d = {"kind": "eqe", "retro": retro, "lam_deg": min(model_angle(m, r.path, z3.Real("lam")) / D, 359.99999999999994), "history": history}
                for nm in ("a", "h", "k", "p", "q"):
                    d[nm] = mfloat(m, z3.Real(nm))
                return d

            n += 1
            pins = [[z3.Real("a") == 7000 + 100 * k_, z3.Real("h") == rv(Fraction(1, 10)), z3.Real("k") == rv(Fraction(k_, 10)), z3.Real("p") == rv(Fraction(3, 10)),
                     z3.Real("q") == rv(Fraction(-4, 10))] + angle_pins(r.path, ("lam",), k_) for k_ in range(4)]
            for j in range(6):
                prove(rep, f"eqe-state[{j}][retro={retro}][{t}]", close_arrays(x[j:j + 1], ref[j:j + 1], KM_TOL), cons, lemmas=lem, pins=pins, inputs=inputs, replay=replay_config,
                      sample="EQEStateConfig.toECI = eqe2eci of the configured elements (mean longitude degrees -> radians, retrograde flag passed on)")
        if n == 0:
            rep.error("reach", f"eqe retro={retro}: no path")
    rep.reachable("eqe-inputs", [z3.Real("a") == 7000])



# ====================================================================================================================
# O4  equinoctial elements
# ====================================================================================================================
def _half_inc(retro):
    """inclination as 2*eta with eta = arcsin(sh) in [0, pi/2]: tan(inc/2) = sin(eta)/cos(eta) is then a ratio of the pair the algebra knows"""
    sh = real("sin_half_inc")
    if retro:
        assume(sh.t >= rv(0.01), sh.t <= 1)       # tan(inc/2)^-1: inc > 0
    else:
        assume(sh.t >= 0, sh.t <= rv(0.9999))     # tan(inc/2): inc < pi
    eta = sh.arcsin()
    return sh, eta, 2 * eta


def replay_eqe_frame(d):
    from resonaate.physics import maths as M
    from resonaate.physics.orbits import utils as UT
    from resonaate.physics.orbits.conversions import coe2eqe, eqe2coe

    e, raan, argp, nu, retro = d["e"], d["raan"], d["argp"], d["nu"], d["retro"]
    inc = 2 * math.asin(d["sin_half_inc"])
    II = -1 if retro else 1
    sma, h, k, p, q, lam = coe2eqe(7000.0, e, inc, raan, argp, nu, retro=retro)
    f, g = UT.getEquinoctialBasisVectors(p, q, retro=retro)
    R = M.rot3(-raan) @ M.rot1(-inc) @ M.rot3(II * raan)
    err_f = float(np.abs(np.concatenate([f - R[:, 0], g - R[:, 1]])).max())
    out = {"frame_error": err_f, "h^2+k^2-e^2": h * h + k * k - e * e}
    bad = err_f > 1e-9 or abs(h * h + k * k - e * e) > 1e-12
    if e >= TOL_E and TOL_I <= inc <= math.pi - TOL_I:
        back = [float(v) for v in eqe2coe(sma, h, k, p, q, lam, retro=retro)]
        errs = [abs(back[1] - e), abs(back[2] - inc), _circ_dist(back[3], raan), _circ_dist(back[4], argp), _circ_dist(back[5], nu)]
        out["eqe2coe(coe2eqe) errors (e, inc, raan, argp, nu)"] = errs
        bad = bad or max(errs) > 1e-7
    return bad, out


def _o4_frame_part(rep, p, retro, II, inputs_for, CV, UT):
    a, e = real("a"), real("e")
    assume(a.t >= 6600, a.t <= 50000, e.t >= 0, e.t < rv(0.9))
    sh, eta, inc = _half_inc(retro)
    raan, argp, nu = _ang("raan"), _ang("argp"), _ang("nu")
    lam0 = _ang("lam0")
    seen = {}

    def prov_lam(*args, **kw):
        seen["call"] = (args, kw)
        return lam0

    with _quiet(), shadow(CV, trueAnom2MeanLong=prov_lam):
        sma, h, k, pp, q, lam = CV.coe2eqe(a, e, inc, raan, argp, nu, retro=retro)
        f, g = UT.getEquinoctialBasisVectors(pp, q, retro=retro)
    uh, wh, hh = _frame(raan, inc, raan * (-II))  # rot3(-raan) rot1(-inc) rot3(II*raan)
    cons = p.constraints()
    kw = dict(inputs=inputs_for(p), replay=replay_eqe_frame)
    t = f"retro={retro}"
    args, kwargs = seen["call"]
    flow = z3.And(_z(args[0]) == nu.t, _z(args[1]) == e.t, _z(args[2]) == raan.t, _z(args[3]) == argp.t, z3.BoolVal(bool(kwargs.get("retro", False)) == retro),
                  _z(lam) == lam0.t, _z(sma) == a.t)
    prove(rep, f"coe2eqe-mean-longitude-call[{t}]", flow, cons, sample="coe2eqe: mean longitude = trueAnom2MeanLong(nu, ecc, raan, argp, retro); sma passed through", **kw)
    prove(rep, f"h2+k2=e2[{t}]", _close((h * h + k * k).t, (e * e).t, 1e-12), cons, sample="h^2 + k^2 = e^2", **kw)
    ce, se = eta.cos().t, eta.sin().t
    T = z3.Real("tan_half_inc") if not retro else z3.Real("cot_half_inc")
    tl = (T * ce == se) if not retro else (T * se == ce)
    okp = prove(rep, f"p-q-definition[{t}]", z3.And(_z(pp) == T * raan.sin().t, _z(q) == T * raan.cos().t), cons + [tl],
                sample="p = tan(inc/2)^I sin raan, q = tan(inc/2)^I cos raan (with tan written as the ratio sin/cos of the half angle)", **kw)
    # the frame identity is then algebra in (T, cos/sin raan, cos/sin eta): proved with p, q named (generalisation)
    P_, Q_ = z3.Real("p_eq"), z3.Real("q_eq")
    fg = UT.getEquinoctialBasisVectors(SReal(P_), SReal(Q_), retro=retro)
    hyp = [P_ == T * raan.sin().t, Q_ == T * raan.cos().t, tl, ce * ce + se * se == 1, raan.cos().t * raan.cos().t + raan.sin().t * raan.sin().t == 1,
           (ce > 0) if not retro else (se > 0)]
    okq = prove(rep, f"half-angle-positive[{t}]", hyp[-1], cons, sample="cos(inc/2) > 0 (sin(inc/2) > 0 for the retrograde set) inside the bounds", **kw)
    D_ = 1 + P_ * P_ + Q_ * Q_
    hint = (D_ * ce * ce == 1) if not retro else (D_ * se * se == 1)
    okh = prove(rep, f"frame-normalisation[{t}]", hint, hyp, sample="1 + p^2 + q^2 = 1/cos^2(inc/2) (1/sin^2 for the retrograde set): algebra, arbitrary values")
    for nm, vec, ref in (("f", fg[0], uh), ("g", fg[1], wh)):
        for j in range(3):
            if okp and okq and okh:
                prove(rep, f"frame-{nm}[{j}][{t}]", _close(_z(vec[j]), ref[j].t, 1e-9), hyp + [hint, D_ > 0], timeout_ms=60000,
                      sample=f"equinoctial {nm} = column of rot3(-raan) rot1(-inc) rot3(I raan) (algebra over p, q, tan(inc/2), for arbitrary values)")
    rep.reachable(f"inputs[{t}]", cons + [e.t == rv(Fraction(1, 2)), sh.t == rv(Fraction(3, 5))] + angle_pins(p, ("raan", "argp", "nu", "lam0"), 1))



def o4a_eqe_elements(rep):
    _o4_eqe(rep, "frame")


def o4b_eqe2coe(rep):
    _o4_eqe(rep, "eqe2coe")


def _o4_eqe(rep, part):
    from resonaate.physics.orbits import conversions as CV
    from resonaate.physics.orbits import utils as UT

    for retro in (False, True):
        II = -1 if retro else 1

        def inputs_for(path, retro=retro):
            def inputs(m):
                d = {"e": mfloat(m, z3.Real("e")), "sin_half_inc": mfloat(m, z3.Real("sin_half_inc")), "retro": retro}
                for n in ("raan", "argp", "nu"):
                    d[n] = model_angle(m, path, z3.Real(n))
                return d
            return inputs

        # ---- (A) coe2eqe and the equinoctial frame: straight-line code --------------------------------------------------
        with single_path() as p:
            if part == "frame":
                _o4_frame_part(rep, p, retro, II, inputs_for, CV, UT)
        if part == "frame":
            continue

        # ---- (B) eqe2coe(coe2eqe(.)) on inclined eccentric orbits: elements recovered -----------------------------------------
        def run(retro=retro, II=II):
            a, e = real("a"), real("e")
            assume(a.t >= 6600, a.t <= 50000, e.t >= rv(TOL_E), e.t < rv(0.9))
            sh, eta, inc = _half_inc(retro)
            assume(sh.t >= rv(0.01), sh.t <= rv(0.9999))
            raan, argp, nu = _ang("raan"), _ang("argp"), _ang("nu")
            lam0, nu0 = _ang("lam0"), _ang("nu0")
            seen = {}

            def prov_nu(*args, **kw):
                seen["call"] = (args, kw)
                return nu0

            with _quiet(), shadow(CV, trueAnom2MeanLong=lambda *a_, **k_: lam0, meanLong2TrueAnom=prov_nu), shadow(UT, arctan=arctan_via_arctan2):
                el = CV.coe2eqe(a, e, inc, raan, argp, nu, retro=retro)
                back = CV.eqe2coe(*el, retro=retro)
            lems = [identify_lemma(back[2], inc), identify_lemma(back[3], raan), identify_lemma(back[4], argp)] if all(isinstance(back[j], SReal) for j in (2, 3, 4)) else None
            return dict(a=a, e=e, inc=inc, raan=raan, argp=argp, lam0=lam0, nu0=nu0, back=back, seen=seen, lems=lems, el=el)

        res = explore_sliced(run, max_paths=100, branch_timeout_ms=4000)
        rep.note(f"eqe2coe retro={retro}: paths={len(res)}")
        n = 0
        for r in res:
            t = f"retro={retro}][{tag(r)}"
            if r.exc is not None:
                prove(rep, f"eqe2coe-no-exception[{t}]", z3.BoolVal(False), r.constraints, pc=r.path.pc, sample="eqe2coe raises nothing on an inclined eccentric orbit")
                continue
            o = r.out
            cons = r.constraints
            kw = dict(inputs=inputs_for(r.path), replay=replay_eqe_frame, pc=r.path.pc)
            pins = [[z3.Real("e") == rv(Fraction(3, 5)), z3.Real("sin_half_inc") == rv(Fraction(3, 5))] + angle_pins(r.path, ("raan", "argp", "nu", "lam0", "nu0"), k_) for k_ in range(12)]
            if reach(rep, f"eqe2coe-path[{t}]", cons, pins) is None and rep.feasible(f"eqe2coe-path?[{t}]", cons, timeout_ms=5000) is None:
                continue
            n += 1
            b = o["back"]
            e = o["e"].t
            prove(rep, f"eqe2coe-sma-ecc[{t}]", z3.And(_z(b[0]) == o["a"].t, _close(_z(b[1]), e, 1e-12)), cons, sample="eqe2coe: sma passed through, ecc = sqrt(h^2+k^2) = e", **kw)
            margs, mkw = o["seen"]["call"]
            prove(rep, f"eqe2coe-anomaly-call[{t}]", z3.And(_z(margs[0]) == o["lam0"].t, _close(_z(margs[1]), e, 1e-12), z3.BoolVal(bool(mkw.get("retro", False)) == retro)), cons,
                  sample="eqe2coe: true anomaly = meanLong2TrueAnom(mean longitude, ecc, raan, argp, retro)", **kw)
            # the raan / argp handed to meanLong2TrueAnom enter only through argp + I raan there: that combination must be the original one (mod 2pi)
            if o["lems"] is None:
                rep.error(f"eqe2coe-shape[{t}]", "eqe2coe returned constants for inc/raan/argp on an inclined eccentric orbit")
                continue
            # the norms eqe2coe takes: sqrt(h^2+k^2) = e, sqrt(p^2+q^2) = tan(inc/2)^I (each proved, then available as lemmas)
            sq_lem = []
            with resume(r.path):
                ce_, se_ = (o["inc"] * 0.5).cos().t, (o["inc"] * 0.5).sin().t
            for (rt, arg) in r.path.apps.get("sqrt", []):
                for cand in (e, se_ / ce_, ce_ / se_):
                    from symx.core import refute as _rf

                    fact = rt == cand
                    if _rf(fact, slice_plus(fact, _simplified(cons), hop=0), 3000).status == "unsat":
                        if prove(rep, f"eqe2coe-norm#{len(sq_lem)}[{t}]", fact, cons, sample="a norm taken by eqe2coe equals e or tan(inc/2)^I", **kw):
                            sq_lem.append(fact)
                        break
            proved = {}
            for nm, j, want, (prem, concl) in (("inc", 2, o["inc"], o["lems"][0]), ("raan", 3, o["raan"], o["lems"][1])):
                proved[nm] = prove(rep, f"eqe2coe-{nm}-cos-sin[{t}]", prem, cons, lemmas=sq_lem, timeout_ms=60000, sample=f"eqe2coe(coe2eqe): {nm} has the cosine and sine of the original", **kw)
                if proved[nm]:
                    prove(rep, f"eqe2coe-{nm}[{t}]", _close(_z(b[j]), want.t), list(cons) + [concl], sample=f"eqe2coe(coe2eqe): {nm} recovered (inclined eccentric orbit)", **kw)
            # argument of perigee = atan2(h, k) - I atan2(p, q): facts about the two arctan2 values on the real terms, then addition formulas for arbitrary values
            hh_, kk_ = _z(o["el"][1]), _z(o["el"][2])
            with resume(r.path):
                cO, sO, cw, sw = o["raan"].cos().t, o["raan"].sin().t, o["argp"].cos().t, o["argp"].sin().t
                cA, sA = b[4].cos().t, b[4].sin().t
            pair_hk = pair_pq = None
            for (a_, (c_, s_)) in r.path.apps.get("arctan2", []):
                from symx.core import refute as _rf

                f_hk = z3.And(c_ * e == kk_, s_ * e == hh_)
                f_pq = z3.And(c_ == cO, s_ == sO)
                hy_ = _simplified(list(cons) + sq_lem)
                if pair_hk is None and _rf(f_hk, slice_plus(z3.And(f_hk, *sq_lem) if sq_lem else f_hk, hy_, hop=4), 5000).status == "unsat":
                    pair_hk = (c_, s_, f_hk)
                elif pair_pq is None and _rf(f_pq, slice_plus(z3.And(f_pq, *sq_lem) if sq_lem else f_pq, hy_, hop=4), 5000).status == "unsat":
                    pair_pq = (c_, s_, f_pq)
            if pair_hk is None or pair_pq is None:
                rep.undecided(f"eqe2coe-argp[{t}]", "the arctan2 values for (h, k) and (p, q) could not be characterised")
                continue
            ok1 = prove(rep, f"eqe2coe-atan2(h,k)[{t}]", pair_hk[2], cons, lemmas=sq_lem, sample="eqe2coe: arctan2(h, k) points along (k, h)/e", **kw)
            ok2 = prove(rep, f"eqe2coe-atan2(p,q)[{t}]", pair_pq[2], cons, lemmas=sq_lem, sample="eqe2coe: arctan2(p, q) has the cosine and sine of raan", **kw)
            c1, s1, c2, s2 = pair_hk[0], pair_hk[1], pair_pq[0], pair_pq[1]
            add = z3.And(cA == c1 * c2 + II * s1 * s2, sA == s1 * c2 - II * c1 * s2)
            ok3 = prove(rep, f"eqe2coe-argp-addition[{t}]", add, cons, sample="the returned argp has the (cos, sin) of arctan2(h,k) - I arctan2(p,q) (addition formulas)", **kw)
            hk = z3.And(kk_ == e * (cw * cO - II * sw * sO), hh_ == e * (sw * cO + II * cw * sO))
            ok4 = prove(rep, f"eqe2coe-h-k[{t}]", hk, cons, sample="coe2eqe: h = e sin(argp + I raan), k = e cos(argp + I raan)", **kw)
            if ok1 and ok2 and ok3 and ok4:
                C1, S1, C2, S2, CA, SA, H_, K_ = (z3.Real(n) for n in ("hk_c", "hk_s", "pq_c", "pq_s", "argp_c", "argp_s", "h_eq", "k_eq"))
                hyp = [C1 * e == K_, S1 * e == H_, C2 == cO, S2 == sO, CA == C1 * C2 + II * S1 * S2, SA == S1 * C2 - II * C1 * S2,
                       K_ == e * (cw * cO - II * sw * sO), H_ == e * (sw * cO + II * cw * sO), e > 0, cO * cO + sO * sO == 1, cw * cw + sw * sw == 1]
                if prove(rep, f"eqe2coe-argp-cos-sin[{t}]", z3.And(CA == cw, SA == sw), hyp, sample="eqe2coe(coe2eqe): argp has the cosine and sine of the original (algebra, arbitrary values)"):
                    prem, concl = o["lems"][2]
                    prove(rep, f"eqe2coe-argp[{t}]", _close(_z(b[4]), o["argp"].t), list(cons) + [concl], sample="eqe2coe(coe2eqe): argp recovered (inclined eccentric orbit)", **kw)
            prove(rep, f"eqe2coe-anomaly[{t}]", _z(b[5]) == o["nu0"].t, cons, sample="eqe2coe: the true anomaly returned is the one meanLong2TrueAnom gave (already in [0, 2pi))", **kw)
        if n == 0:
            rep.error("reach", f"eqe2coe retro={retro}: no feasible path")


REPLAYS = {"O1": replay_sing, "O1b": replay_sing, "O1c": replay_sing, "O2a": replay_anom, "O2b": replay_anom, "O2c": replay_anom, "O3a": replay_coe2eci_form, "O3v": replay_vec, "O3b": replay_eci2coe, "O3b1": replay_eci2coe, "O3b2": replay_eci2coe, "O3c": replay_eci2coe, "O3c2": replay_eci2coe, "O3d": replay_eci2coe, "O3e": replay_eci2coe, "O4a": replay_eqe_frame, "O4b": replay_eqe_frame, "O6a": replay_config, "O6b": replay_config}
REPLAYS.update({f"O6c-{k_}-{h_}": replay_config for k_ in ("coe", "eqe") for h_ in HISTORIES})


def obligations(tier):
    obs = [
        Ob("O1", o1_sing, "singularityCheck: documented angles, zeros, ranges over all orbit classes with thresholds straddled", 120),
        Ob("O1b", o1b_state_direct, "singularityCheck keeps the state at exact singularities (direct equatorial, circular)", 180),
        Ob("O1c", o1c_state_retro, "singularityCheck keeps the state at exact singularities (retrograde equatorial)", 180),
    ]
    obs += [
        Ob("O2a", o2a_true2ecc, "trueAnom2EccAnom: textbook relation, range, inverse of eccAnom2TrueAnom; circular threshold straddled", 180),
        Ob("O2b", o2b_ecc2true, "eccAnom2TrueAnom: textbook relation, range, inverse of trueAnom2EccAnom", 180),
        Ob("O2c", o2c_kepler, "eccAnom2MeanAnom / trueAnom2MeanAnom: Kepler's equation, ranges, composition", 180),
    ]
    obs += [
        Ob("O3b", o3b_inclined, "eci2coe on inclined eccentric orbits in general position, r.v >= 0: elements describe the state", 400),
        Ob("O3b1", o3b1_inclined_inbound, "eci2coe on inclined eccentric orbits in general position, r.v < 0", 400),
        Ob("O3b2", o3b2_inclined_circular, "eci2coe on inclined circular orbits (e below the limit, incl. the 1e-15 zero test) in general position", 400),
        Ob("O3c", o3c_equatorial_direct, "eci2coe on exactly equatorial direct orbits (inc = 0): eccentric and circular", 400),
        Ob("O3c2", o3c2_equatorial_direct_band, "eci2coe on direct orbits inside the equatorial threshold band (0 < inc < limit)", 400),
        Ob("O3d", o3d_equatorial_retro, "eci2coe on exactly retrograde equatorial orbits (inc = pi)", 400),
    ]
    # (o3e_equatorial_retro_band is kept for experiments but is not an obligation: one quadrant fact per run stays undecided, see OUTSIDE)
    obs += [
        Ob("O6a", o6a_config_coe, "COEStateConfig.toECI for the four documented field combinations = coe2eci of the described elements", 300),
        Ob("O6b", o6b_config_eci_eqe, "ECIStateConfig / EQEStateConfig.toECI hand the configured numbers to hstack / eqe2eci unchanged", 300),
    ] + [Ob(f"O6c-coe-{h_}", (lambda h_: lambda rep: o6a_config_coe(rep, h_))(h_),
            "COEStateConfig.toECI of a configuration object that was validated (and converted) with other numbers and then edited through the public API "
            "(attribute assignment / model_copy(update=...)): the state of the numbers it holds now", 400) for h_ in (HISTORIES if tier == "thorough" else HISTORIES[:1] + HISTORIES[2:])
    ] + [Ob(f"O6c-eqe-{h_}", (lambda h_: lambda rep: o6b_config_eci_eqe(rep, h_))(h_),
            "ECIStateConfig / EQEStateConfig.toECI of an edited configuration object: the state of the numbers it holds now", 400) for h_ in (HISTORIES if tier == "thorough" else HISTORIES[:1] + HISTORIES[2:])
    ] + [
    ]
    if tier == "thorough":
        obs.append(Ob("O4a", o4a_eqe_elements, "coe2eqe / getEquinoctialBasisVectors: p, q, h, k definitions, equinoctial frame = rot3(-raan) rot1(-inc) rot3(I raan)", 600))
    obs.append(Ob("O4b", o4b_eqe2coe, "eqe2coe(coe2eqe(.)) on inclined eccentric orbits: ecc, inc, raan, argp recovered; calls of the longitude conversions", 400))
    obs.append(Ob("O3v", o3v_vector_helpers, "getSemiMajorAxis / getAngularMomentum / getEccentricity / getLineOfNodes on interface states in general position", 300))
    obs.append(Ob("O3a", o3a_coe2eci, "coe2eci has the interface form (rho, vr, vt; raan, inc, argp+nu); closing scalar relations", 180))
    return obs


ASSUMPTIONS.append("numpy.isclose / numpy.allclose / math.isclose, wherever the orbit modules bind them, are their defining formulas in exact real arithmetic (a tolerance snap is a branch the solver sees)")
OUTSIDE.append("angle values within 1e-4 of a full turn as concrete replay inputs: the angle algebra relates an angle to its cosine/sine by range and turn count only, so a counterexample that needs the value itself that close to 2 pi is found by the solver but does not concretise (reported as a harness error, not as a violation)")
BOUNDS["configuration histories (O6c)"] = ("one edit step: the configuration object is really validated (and, except in 'copy', converted once) with fixed first numbers of the same field "
                                           "combination, then every numeric field is replaced by a symbolic value through attribute assignment ('assign') or model_copy(update=...) "
                                           "('copy', 'copy-of-used'); quick tier: 'assign' and 'copy-of-used'")
OUTSIDE.append("configuration histories other than the listed single edit step (edits that change the field combination - the validator's flags are documented to be set at validation - , "
               "several edits, dump-edit-revalidate round trips)")
