#!/venv/bin/python
"""Self-test against the seeded changes: for every /verif/seeded/<name>/ apply patch.diff to a scratch worktree of /repo
(tools/seedrun.sh), run the quick check(s) of the property it breaks, and record what was reported.
  tools/seedall.py [name ...]      -> updates seeded/<name>/meta.json ("detection") and prints a table
"""
import json, os, re, subprocess, sys
from concurrent.futures import ThreadPoolExecutor

ROOT = "/verif/seeded"
names = sys.argv[1:] or sorted(d for d in os.listdir(ROOT) if os.path.isdir(os.path.join(ROOT, d)))


def run(name):
    d = os.path.join(ROOT, name)
    meta = json.load(open(os.path.join(d, "meta.json")))
    out = {}
    for chk in meta.get("checks", [meta["property"]]):
        p = subprocess.run(["/verif/tools/seedrun.sh", chk, os.path.join(d, "patch.diff")], capture_output=True, text=True)
        txt = p.stdout + p.stderr
        viol = re.findall(r"^VIOLATION property=(\S+) replay=\S*/([^/\s]+)$", txt, re.M)
        summ = re.findall(r"^(C\d+ quick: .*)$", txt, re.M)
        out[chk] = {"violations": len(viol), "first_obligations": sorted({v[1].split(".")[0] for v in viol})[:6], "harness_errors": len(re.findall(r"^HARNESS-ERROR", txt, re.M)),
                    "undecided": len(re.findall(r"^UNDECIDED", txt, re.M)), "summary": summ[-1] if summ else txt[-300:]}
    meta["detection"] = out
    meta["detected"] = any(v["violations"] > 0 for v in out.values())
    json.dump(meta, open(os.path.join(d, "meta.json"), "w"), indent=1)
    return name, meta


with ThreadPoolExecutor(max_workers=int(os.environ.get("SEED_JOBS", "2"))) as ex:
    for name, meta in ex.map(run, names):
        det = "; ".join(f"{c}: {v['violations']} viol ({','.join(v['first_obligations'])})" if v["violations"] else f"{c}: none (errors {v['harness_errors']}, undecided {v['undecided']})"
                        for c, v in meta["detection"].items())
        print(f"{name:6s} {'CAUGHT' if meta['detected'] else 'MISSED':7s} {det}", flush=True)
