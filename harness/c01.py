"""C01 - every scheduled event takes effect exactly once, at its configured time."""
from __future__ import annotations

import datetime as _dt
import random
import types
from fractions import Fraction

import numpy as np
import z3

from symx import fp
from symx.core import SBool, SInt, Unsupported, assume, cur, explore, integer, mval, rv, solve
from symx.dtmodel import SDateTime, STimeDelta, to_real_datetime
from symx.runner import Ob
from symx.stubs import shadow
from symx.timeenv import time_env

ID = "C01"
TECHNIQUE = ("the real Scenario.stepForward, getRelevantEvents/handleRelevantEvents (the real SQLAlchemy Query is built; its where-clause is translated and evaluated on symbolic "
             "event rows), the real event classes' handleEvent (ScheduledImpulseEvent, TargetAdditionEvent, AgentRemovalEvent, SensorTimeBiasEvent, TargetTaskPriority), "
             "ScenarioClock.ticToc/julian_date_epoch/datetime_epoch, ScenarioTime.convertToJulianDate and JulianDate.convertToScenarioTime are executed for three consecutive steps on "
             "symbolic IEEE doubles (symx.fp) and a symbolic calendar start instant, step size and step index; the start/end Julian dates of the event rows are those of symbolic "
             "whole-second instants; z3 decides on every path that each event is handed to exactly the addressed handler in exactly the step whose interval contains it; "
             "applied-*/pair-* additionally run the real PropagateRegistration.generateSubmission (queue pruning) / processResults with the worker's propagate cut to its impulse "
             "contract, with one row resp. two rows (same agent or two agents, times free to share a step or an instant), and decide that every row's delta-v is applied exactly once")
FLOAT_SEMANTICS = "IEEE-754 double (relaxed encoding for proofs - sound; candidates replayed on the real code; exact encoding for the candidate's start date when a candidate does not replay)"
ENCODED = ["resonaate.scenario.scenario:Scenario.stepForward", "resonaate.data.events:getRelevantEvents", "resonaate.data.events:handleRelevantEvents",
           "resonaate.scenario.clock:ScenarioClock.ticToc", "resonaate.physics.time.stardate:ScenarioTime.convertToJulianDate",
           "resonaate.physics.time.stardate:JulianDate.convertToScenarioTime", "resonaate.data.events.scheduled_impulse:ScheduledImpulseEvent.handleEvent",
           "resonaate.data.events.scheduled_impulse:ScheduledImpulseEvent.fromConfig", "resonaate.data.events.target_addition:TargetAdditionEvent.handleEvent",
           "resonaate.data.events.agent_removal:AgentRemovalEvent.handleEvent", "resonaate.data.events.sensor_time_bias:SensorTimeBiasEvent.handleEvent",
           "resonaate.data.events.target_task_priority:TargetTaskPriority.handleEvent", "resonaate.agents.agent_base:Agent.appendPropagateEvent",
           "resonaate.agents.agent_base:Agent.prunePropagateEvents", "resonaate.tasking.engine.centralized_engine:CentralizedTaskingEngine.assess",
           "resonaate.parallel.agent_propagation:PropagateRegistration.generateSubmission", "resonaate.parallel.agent_propagation:PropagateRegistration.processResults",
           "resonaate.physics.maths:fpe_equals"]
BOUNDS = {"start instant": "any whole second 1901-01-01 .. 2099-11-30", "dt": "quick {60, 300, 3080}; thorough adds {1, 7, 45, 3600}", "step index": "k0 symbolic, 0 .. 30 days / dt",
          "steps": "3 consecutive stepForward calls", "events": "one event row per run (any kind), start/end = start instant + symbolic whole seconds inside the three steps (aligned times included); "
                                                                "pair-*: two impulse rows per run (first not planned, second planned), each at a symbolic whole second inside the first two steps - same step, same instant and either order included; "
                                                                "a-mid / b-mid: one of the two rows strictly inside a step, the other on any second; thorough adds both rows on any second for dt 60 / 300",
          "agents": "3 targets, 2 sensors, 2 engines (ids symbolic over the universe); pair-*: row A addressed to a symbolic id (thorough: out of the 3 targets; quick and the 'both' shapes: one id per obligation, different ones across the obligations), row B to the same id (pair-same) "
                    "or to the cyclically next id (pair-two); the feasible ids are enumerated by forking so that containers keyed by ids behave as on ints",
          "pair-* step sizes": "quick 60; thorough 60, 300, 3080"}
OUTSIDE = ["SQLite's own comparison of stored doubles (the translated where-clause is evaluated as written)", "events with sub-second times", "construction of agents in addTarget/addSensor (recorded as calls)",
           "the numerical effect of an impulse inside the integrator (C15/C03 cover the restart loop; here the impulse is queued once with the time of its row and pruned once past)",
           "three or more event rows inside one step; two rows of other kinds than impulses in one step (each kind is covered with one row per run)",
           "application of a planned impulse inside the estimate's filter prediction (EstPredictRegistration is stubbed): for estimates only the delivery (exactly once, same step, same agent id) is decided",
           "tolerance comparisons (math.isclose / numpy.isclose) exactly on their threshold in double rounding are decided in the relaxed rounding model first; only candidates that replay on the real code count"]
ASSUMPTIONS = ["datetimeToJulianDate(t) -> a double within 2^-31 d of the exact Julian date of t, the same double for the same instant (this is what C05's jd-accuracy obligations prove; cut)",
               "datetime/timedelta -> integer calendar model (symx.dtmodel)", "database.getData(query) returns exactly the rows satisfying the query's where-clause (stub database; translator in this harness)",
               "ray / executors / logger / EventStack stubbed; agents are recording tokens with the real Agent.appendPropagateEvent / prunePropagateEvents",
               "applied-*/pair-*: the remote worker (asyncPropagate -> Celestial.propagate) is cut to its contract for impulses (C03/C15 decide it on the real restart loop): an impulse of the submitted queue is "
               "applied exactly once iff init_time <= its time <= final_time, equality in the code's own fpe_equals tolerance; nothing else is applied; the replay runs the real TwoBody.propagate / scipy integrator instead",
               "the Julian dates handed to the code (rows' start/end, query bounds) hash to one bucket and the agent ids of pair-* are forked to ints, so sets / dicts keyed by them compare with == (a solver term) as they would on floats / ints",
               "math.isclose / numpy.isclose / numpy.allclose, where an analysed module binds them (none on the current tree), run on symbolic doubles by their documented formula "
               "(a == b or |b-a| <= |rel*b| or |b-a| <= |rel*a| or |b-a| <= abs; numpy: |a-b| <= atol + rtol*|b|) with the rounded double operations of symx.fp (symx.ext_c01)"]
LEVEL_TEXT = ("Bounded symbolic verification in IEEE double semantics over all (start instant, step, step index, event time) tuples: the query windows of consecutive steps, the "
              "event rows' Julian dates and the where-clause are solver terms, so a gap, an overlap, a one-ulp disagreement between differently computed dates or a missing filter "
              "clause is a satisfiable query with a concrete replay - the failing configurations are too sparse for sampled scenarios.")
LEVEL_NOTE = "Three consecutive steps, one event row per run (two impulse rows in pair-*); datetimeToJulianDate cut to its C05 contract; SQLite comparison trusted; impulse application inside the integrator is C15/C03."

JD_1901 = Fraction(4830771, 2)
TGT_IDS, SEN_IDS, ENG_IDS = (11, 12, 13), (21, 22), (1, 2)


# ------------------------------------------------------------------------------------------------
# where-clause translator
# ------------------------------------------------------------------------------------------------
def eval_where(clause, row):
    """SBool / bool: value of a SQLAlchemy where-clause on a row (dict column -> value)."""
    from sqlalchemy.sql import operators
    from sqlalchemy.sql.elements import BinaryExpression, BindParameter, BooleanClauseList, Grouping

    if clause is None:
        return True
    if isinstance(clause, Grouping):
        return eval_where(clause.element, row)
    if isinstance(clause, BooleanClauseList):
        vals = [eval_where(c, row) for c in clause.clauses]
        if clause.operator is operators.and_:
            out = True
            for v in vals:
                out = v & out if not isinstance(out, bool) or not isinstance(v, bool) else (v and out)
            return out
        if clause.operator is operators.or_:
            out = False
            for v in vals:
                out = v | out if not isinstance(out, bool) or not isinstance(v, bool) else (v or out)
            return out
        raise Unsupported(f"where-clause operator {clause.operator}")
    if isinstance(clause, BinaryExpression):
        def side(x):
            if isinstance(x, BindParameter):
                return x.value
            if hasattr(x, "key") and x.key in row:
                return row[x.key]
            raise Unsupported(f"where-clause operand {x!r}")
        a, b = side(clause.left), side(clause.right)
        name = clause.operator.__name__
        ops = {"eq": lambda: a == b, "ne": lambda: a != b, "le": lambda: a <= b, "lt": lambda: a < b, "ge": lambda: a >= b, "gt": lambda: a > b}
        if name not in ops:
            raise Unsupported(f"where-clause operator {name}")
        return ops[name]()
    raise Unsupported(f"where-clause element {type(clause).__name__}")


class StubDB:
    """getData(query) returns the rows of `events` satisfying the real query's where-clause (forks on symbolic conditions)."""

    def __init__(self, events):
        self.events, self.queries = events, []

    def getData(self, query, multi=True):
        w = query.whereclause
        out = []
        for ev in self.events:
            row = {"scope": ev.scope, "scope_instance_id": ev.scope_instance_id, "start_time_jd": ev.start_time_jd, "end_time_jd": ev.end_time_jd, "event_type": ev.event_type}
            v = eval_where(w, row)
            if bool(v):
                out.append(ev)
        self.queries.append(w)
        return out if multi else (out[0] if out else None)


class SymDict(dict):
    """dict whose lookup also accepts a symbolic integer key (forks over the entries)."""

    def __getitem__(self, key):
        if isinstance(key, (SInt, fp.SFloat)):
            for k in self.keys():
                if bool(key == k):
                    return dict.__getitem__(self, k)
            raise KeyError("symbolic key matches no entry")
        return dict.__getitem__(self, key)

    def __contains__(self, key):
        if isinstance(key, (SInt, fp.SFloat)):
            return any(bool(key == k) for k in self.keys())
        return dict.__contains__(self, key)


# ------------------------------------------------------------------------------------------------
# the driver: a bare Scenario with a real clock, token agents, a stub database
# ------------------------------------------------------------------------------------------------
class JDProvider:
    """datetimeToJulianDate cut to its contract (C05): accurate to 2^-31 d, functional in the instant."""

    def __init__(self, ns):
        self.ns, self.memo = ns, {}

        def body(d):
            d.update(__slots__=(), __module__=ns.JulianDate.__module__, __hash__=lambda self: 0)

        # the Julian dates handed out (event rows' start/end, query bounds) hash to one bucket, so that a set / dict keyed by them compares
        # them with == (a solver term the engine forks on) instead of silently treating two symbolic dates as different keys
        self.cls = types.new_class("JulianDate", (ns.JulianDate,), exec_body=body)

    def __call__(self, d):
        tot = z3.simplify(d.tot)
        key = tot.get_id()
        if key not in self.memo:
            p = cur()
            p.keep.append(tot)
            x = fp.fresh_float(f"J{len(self.memo)}", Fraction(4830041, 2), Fraction(4976899, 2), -31)
            exact = rv(JD_1901) + z3.ToReal(tot) / 86400
            ulp = rv(Fraction(1, 2 ** 31))
            p.assume(z3.And(x.t - exact <= ulp, exact - x.t <= ulp))
            # functional consistency with every earlier application (the same instant has the same Julian date)
            for tot2, x2 in self.memo.values():
                p.assume(z3.Implies(tot == tot2, x.t == x2.t))
            self.memo[key] = (tot, x)
        return self.cls(self.memo[key][1])


def _token_agent(ns, aid, js, log, kind):
    from resonaate.agents.agent_base import Agent
    from resonaate.agents.sensing_agent import SensingAgent

    class Tok:
        realtime = True
        simulation_id = aid
        julian_date_start = js
        prunePropagateEvents = Agent.prunePropagateEvents

        def appendPropagateEvent(self, ev):
            # observation point "event delivered to this agent" (the real method does the queueing)
            log.append(("append", kind, aid, log.step, ev))
            Agent.appendPropagateEvent(self, ev)

        station_keeping = ()
        dynamics = "dynamics-token"
        datetime_start = None
        datetime_epoch = Agent.datetime_epoch

        def __init__(self):
            self.propagate_event_queue = []
            self.sensor_time_bias_event_queue = []
            self._time = ns.ScenarioTime(0)
            self.eci_state = ("state", aid, 0)
            self.dt_step = None

        time = property(lambda self: self._time, lambda self, v: setattr(self, "_time", v))

        def appendTimeBiasEvent(self, ev):
            log.append(("time_bias", kind, aid, log.step, ev))
            SensingAgent.appendTimeBiasEvent(self, ev)

        pruneTimeBiasEvents = SensingAgent.pruneTimeBiasEvents
        julian_date_epoch = Agent.julian_date_epoch

    return Tok()


class _Log(list):
    step = 0


def build(ns, jdp, t0, dt, k0_t, truth_only, events):
    """(scenario, log): bare Scenario at scenario time k0*dt."""
    from resonaate.scenario import clock as CK
    from resonaate.scenario import scenario as SC

    log = _Log()
    js = jdp(t0)
    clock = object.__new__(CK.ScenarioClock)
    clock.datetime_start, clock.julian_date_start = t0, js
    clock.dt_step = ns.ScenarioTime(dt)
    clock.time = ns.ScenarioTime(fp.from_int(k0_t * dt, 0, 31 * 86400)) if not isinstance(k0_t, int) else ns.ScenarioTime(k0_t * dt)
    clock.initial_time = ns.ScenarioTime(0)
    clock.logger = None
    sc = object.__new__(SC.Scenario)
    sc.clock = clock
    sc.current_julian_date = clock.julian_date_epoch
    sc.database = StubDB(events)
    nul = lambda *a, **k: None  # noqa: E731
    sc.logger = types.SimpleNamespace(info=nul, error=nul, debug=nul, warning=nul)
    sc.scenario_config = types.SimpleNamespace(propagation=types.SimpleNamespace(truth_simulation_only=truth_only))
    sc.target_agents = SymDict({i: _token_agent(ns, i, js, log, "target") for i in TGT_IDS})
    sc._sensor_agents = SymDict({i: _token_agent(ns, i, js, log, "sensor") for i in SEN_IDS})
    sc._estimate_agents = SymDict({i: _token_agent(ns, i, js, log, "estimate") for i in TGT_IDS})
    sc._ephem_importer = None
    sc._stepped_epochs = {}  # (attribute the real constructor sets)
    for ags in (sc.target_agents, sc._sensor_agents, sc._estimate_agents):
        for ag in ags.values():
            ag.datetime_start = t0

    class Exec:
        def enqueueJob(self, reg):
            pass

        def join(self):
            pass

    sc._agent_propagator = sc._estimate_predictor = sc._estimate_updater = Exec()
    sc._target_store, sc._sensor_store, sc._estimate_store = {}, {}, {}

    class Eng:
        sensor_changes = {}
        observations = []

        def __init__(self, eid):
            self.eid = eid

        def setHandles(self, *a):
            pass

        def resetHandles(self):
            pass

        def assess(self, prior, now):
            log.append(("assess", self.eid, log.step, prior, now))

    sc._tasking_engines = {e: Eng(e) for e in ENG_IDS}
    for name in ("addTarget", "removeTarget", "addSensor", "removeSensor"):
        setattr(sc, name, (lambda name: lambda *a: log.append((name, log.step, a)))(name))
    return sc, log


class _Reg:
    def __init__(self, agent):
        self.agent = agent


class ContractExecutor:
    """Stands for PropagateExecutor + the remote worker.  The real PropagateRegistration.generateSubmission and processResults run;
    the worker's Celestial.propagate is replaced by its contract for impulses (what C03's obligations prove of the real restart
    loop): an impulse of the submitted queue is applied exactly once iff init_time <= its time <= final_time, where equality is
    the code's own fpe_equals tolerance at both ends; nothing else is applied."""

    def __init__(self, log, fpe):
        self.log, self.fpe, self.jobs = log, fpe, []

    def enqueueJob(self, reg):
        self.jobs.append(reg)

    def join(self):
        from resonaate.parallel.agent_propagation import PropagateResult

        jobs, self.jobs = self.jobs, []
        for reg in jobs:
            sub = reg.generateSubmission()
            for ev in list(sub.scheduled_events or ()):
                if not hasattr(ev, "getStateChange"):
                    continue
                after_start = bool(sub.init_time < ev.time) or bool(self.fpe(ev.time, sub.init_time))
                before_end = bool(ev.time < sub.final_time) or bool(self.fpe(ev.time, sub.final_time))
                if after_start and before_end:
                    self.log.append(("applied", sub.agent_id, self.log.step, ev))
            reg.processResults(PropagateResult(agent_id=sub.agent_id, final_time=sub.final_time, prev_state=sub.init_eci, final_eci=("state", sub.agent_id, self.log.step + 1)))


def _with_closeness(mods):
    """The (module, shadows) list for time_env, extended by the tolerance comparisons (math.isclose / numpy.isclose / numpy.allclose,
    also reached through `math.` / `np.`) the modules bind: they run on symbolic doubles by their documented formula (symx.ext_c01).
    Only names that exist in a module are shadowed.  The modules are imported here, before time_env re-bases the time classes."""
    import importlib

    from symx.ext_c01 import closeness_names

    out = []
    for name, kw in mods:
        kw = dict(kw)
        for k, v in closeness_names(importlib.import_module(name)).items():
            kw.setdefault(k, v)
        out.append((name, kw))
    return out


def run_steps(b_unused, dt, truth_only, mk_events, nsteps=3, pin=None, k0_max=None, apply=False):
    """Three real stepForward calls; returns everything the obligations need."""
    from resonaate.scenario import scenario as SC

    mods = [("resonaate.scenario.scenario", {"float": fp.fp_float}), ("resonaate.scenario.clock", {}), ("resonaate.data.events.scheduled_impulse", {"round": fp.fp_round, "int": fp.fp_int, "float": fp.fp_float}), ("resonaate.data.events.target_addition", {}),
            ("resonaate.data.events.agent_removal", {}), ("resonaate.data.events.sensor_time_bias", {}), ("resonaate.data.events.target_task_priority", {}),
            ("resonaate.agents.sensing_agent", {}), ("resonaate.agents.agent_base", {}), ("resonaate.parallel.agent_propagation", {}), ("resonaate.physics.maths", {})]
    with time_env(_with_closeness(mods)) as ns:
        jdp = JDProvider(ns)
        n0, sod0, k0 = integer("n0"), integer("sod0"), integer("k0")
        assume(n0.t >= 0, n0.t <= 72683 - 62, sod0.t >= 0, sod0.t <= 86399, k0.t >= 0, k0.t * dt <= (k0_max if k0_max is not None else 30 * 86400))
        if pin:
            assume(n0.t == pin["n0"])
        t0 = SDateTime._of(n0.t, sod0.t)
        events = mk_events(ns, jdp, t0, k0)
        sc, log = build(ns, jdp, t0, dt, k0.t, truth_only, events)
        ray_stub = types.SimpleNamespace(put=lambda x: x)
        es = types.SimpleNamespace(logAndFlushEvents=lambda: None)
        wins = []
        import contextlib

        from resonaate.parallel import agent_propagation as AP
        from resonaate.physics import maths as MA

        extra = contextlib.ExitStack()
        names = dict(ray=ray_stub, EventStack=es, EstPredictRegistration=_Reg, EstUpdateRegistration=lambda *a: None, datetimeToJulianDate=jdp)
        if apply:
            for ag in list(sc.target_agents.values()) + list(sc._sensor_agents.values()):
                ag._time = sc.clock.time
                ag.dt_step = sc.clock.dt_step
            sc._agent_propagator = ContractExecutor(log, MA.fpe_equals)
            extra.enter_context(shadow(AP, ReductionParams=types.SimpleNamespace(build=lambda d: None)))
        else:
            names["PropagateRegistration"] = _Reg
        import resonaate.agents.sensing_agent as SA

        if "datetimeToJulianDate" in SA.__dict__:
            extra.enter_context(shadow(SA, datetimeToJulianDate=jdp))
        with extra, shadow(SC, **names):
            for s in range(nsteps):
                log.step = s
                nq = len(sc.database.queries)
                sc.stepForward()
                for kind, ags in (("target", sc.target_agents), ("estimate", sc._estimate_agents)):
                    for ag in ags.values():
                        if not (apply and kind == "target"):
                            # agents advance with the clock and prune their queues, as PropagateRegistration does
                            ag._time = sc.clock.time
                        log.append(("queue", (kind, ag.simulation_id), s, list(ag.propagate_event_queue)))
                        if not (apply and kind == "target"):
                            ag.prunePropagateEvents()
                for ag in sc._sensor_agents.values():
                    log.append(("tbqueue", ag.simulation_id, s, list(ag.sensor_time_bias_event_queue)))
                wins.append(sc.database.queries[nq:])
        return dict(ns=ns, t0=t0, k0=k0, n0=n0, sod0=sod0, sc=sc, log=log, events=events, js=sc.clock.julian_date_start)


# ------------------------------------------------------------------------------------------------
# event rows
# ------------------------------------------------------------------------------------------------
def _impulse_row(jdp, t0, m, target, planned=False, dvz=1e-3):
    from resonaate.data.events import EventScope, ScheduledImpulseEvent

    e = jdp(t0 + STimeDelta(seconds=m))
    return ScheduledImpulseEvent(scope=EventScope.AGENT_PROPAGATION.value, scope_instance_id=target, start_time_jd=e, end_time_jd=e, event_type="impulse",
                                 thrust_vec_0=0.0, thrust_vec_1=0.0, thrust_vec_2=dvz, thrust_frame="eci", planned=planned)


def _offsets(dt, k0, steps=3, strict_inside=True):
    """Symbolic whole-second offset m (seconds after the start instant) with t_{k0} < m <= t_{k0+steps} (inside the simulated span of the run)."""
    m = integer("m")
    assume(m.t > k0.t * dt, m.t <= (k0.t + steps) * dt)
    return m


def _expected_step(m, k0, dt, s):
    """the step (0-based within the run) whose interval (t_{k0+s}, t_{k0+s+1}] contains m"""
    return z3.And(m.t > (k0.t + s) * dt, m.t <= (k0.t + s + 1) * dt)


def _inputs(dt, extra=()):
    def f(model):
        g = lambda n: mval(model, z3.Int(n))  # noqa: E731
        start = _dt.datetime(1901, 1, 1) + _dt.timedelta(days=g("n0"), seconds=g("sod0"))
        d = {"start": start.isoformat(), "dt": dt, "k0": g("k0"), "m": g("m")}
        for n in extra:
            d[n] = g(n)
        return d
    return f


# ------------------------------------------------------------------------------------------------
# replay: the same three steps on the real classes with concrete values (no shadows except the stubbed environment)
# ------------------------------------------------------------------------------------------------
def _concrete_run(d, kind="impulse", truth_only=True):
    from resonaate.data.events import EventScope, ScheduledImpulseEvent, SensorTimeBiasEvent
    from resonaate.physics.time.stardate import JulianDate, ScenarioTime, datetimeToJulianDate
    from resonaate.scenario import clock as CK
    from resonaate.scenario import scenario as SC

    start = _dt.datetime.fromisoformat(d["start"])
    dt, k0, m = d["dt"], d["k0"], d["m"]
    ns = types.SimpleNamespace(JulianDate=JulianDate, ScenarioTime=ScenarioTime)
    log = _Log()
    js = datetimeToJulianDate(start)
    tgt = d.get("target", TGT_IDS[0])
    e = datetimeToJulianDate(start + _dt.timedelta(seconds=m))
    if kind == "impulse":
        ev = ScheduledImpulseEvent(scope=EventScope.AGENT_PROPAGATION.value, scope_instance_id=tgt, start_time_jd=e, end_time_jd=e, event_type="impulse",
                                   thrust_vec_0=0.0, thrust_vec_1=0.0, thrust_vec_2=1e-3, thrust_frame="eci", planned=bool(d.get("planned", False)))
    else:
        e2 = datetimeToJulianDate(start + _dt.timedelta(seconds=d["m2"]))
        ev = SensorTimeBiasEvent(scope=EventScope.OBSERVATION_GENERATION.value, scope_instance_id=d.get("sensor", SEN_IDS[0]), start_time_jd=e, end_time_jd=e2, event_type="time_bias", applied_bias=0.1)
    clock = object.__new__(CK.ScenarioClock)
    clock.datetime_start, clock.julian_date_start = start, js
    clock.dt_step, clock.time, clock.initial_time = ScenarioTime(dt), ScenarioTime(k0 * dt), ScenarioTime(0)
    sc = object.__new__(SC.Scenario)
    sc.clock = clock
    sc.current_julian_date = clock.julian_date_epoch
    sc.database = StubDB([ev])
    nul = lambda *a, **k: None  # noqa: E731
    sc.logger = types.SimpleNamespace(info=nul, error=nul, debug=nul, warning=nul)
    sc.scenario_config = types.SimpleNamespace(propagation=types.SimpleNamespace(truth_simulation_only=truth_only))
    sc.target_agents = {i: _token_agent(ns, i, js, log, "target") for i in TGT_IDS}
    sc._sensor_agents = {i: _token_agent(ns, i, js, log, "sensor") for i in SEN_IDS}
    sc._estimate_agents = {i: _token_agent(ns, i, js, log, "estimate") for i in TGT_IDS}
    sc._ephem_importer = None
    sc._stepped_epochs = {}  # (attribute the real constructor sets)
    ex = types.SimpleNamespace(enqueueJob=nul, join=nul)
    sc._agent_propagator = sc._estimate_predictor = sc._estimate_updater = ex
    sc._target_store, sc._sensor_store, sc._estimate_store = {}, {}, {}
    sc._tasking_engines = {}
    deliveries = []
    with shadow(SC, ray=types.SimpleNamespace(put=lambda x: x), EventStack=types.SimpleNamespace(logAndFlushEvents=nul), PropagateRegistration=_Reg, EstPredictRegistration=_Reg,
                EstUpdateRegistration=lambda *a: None):
        for s in range(3):
            log.step = s
            before = {i: len(a.propagate_event_queue) for i, a in sc.target_agents.items()}
            sc.stepForward()
            for i, a in sc.target_agents.items():
                for _ in range(len(a.propagate_event_queue) - before[i]):
                    deliveries.append((s, i))
                a._time = sc.clock.time
                a.prunePropagateEvents()
            for x in log:
                if x[0] == "time_bias" and x[3] == s and ("tb", s, x[2]) not in deliveries:
                    deliveries.append(("tb", s, x[2]))
    return deliveries


def replay_impulse(d):
    dl = _concrete_run(d)
    dt, k0, m = d["dt"], d["k0"], d["m"]
    want_step = (m - k0 * dt - 1) // dt  # the step with t_{k0+s} < m <= t_{k0+s+1}
    tgt = d.get("target", TGT_IDS[0])
    ok = dl == [(want_step, tgt)]
    return (not ok), {"deliveries(step, agent)": dl, "expected": [(want_step, tgt)], "event_offset_s": m, "step_interval": [(k0 + want_step) * dt, (k0 + want_step + 1) * dt]}


# ------------------------------------------------------------------------------------------------
# obligations
# ------------------------------------------------------------------------------------------------
def _explore(fn, mode):
    with fp.mode(mode):
        return explore(fn, max_paths=400, max_depth=300, branch_timeout_ms=20000, catch=(Exception,))


def o_impulse(rep, dt, aligned):
    """An impulse row addressed to a symbolic target at a symbolic whole-second time: queued for exactly that target, in exactly the step containing it."""
    def mk(ns, jdp, t0, k0):
        tgt = integer("target")
        assume(z3.Or(*[tgt.t == i for i in TGT_IDS]))
        if aligned:
            j = integer("j")
            assume(j.t >= 1, j.t <= 3)
            m = integer("m")
            assume(m.t == (k0.t + j.t) * dt)
        else:
            m = _offsets(dt, k0)
        return [_impulse_row(jdp, t0, m.t, tgt)]

    def run(pin=None, mode="relaxed"):
        return lambda: run_steps(None, dt, True, mk, pin=pin)

    tag = f"[dt={dt},{'aligned' if aligned else 'any-second'}]"
    res = _explore(run(), "relaxed")
    _decide_deliveries(rep, res, dt, tag, run)


def _deliveries(out):
    """[(step, agent id)] of propagate-queue additions per step, as python ints (control flow decided them) and the queued impulse objects."""
    per = {}
    seen = {}
    for x in out["log"]:
        if x[0] == "queue":
            _q, aid, s, q = x
            prev = seen.get(aid, 0)
            seen[aid] = len(q)
            # the queue is pruned after each step; additions of this step = entries beyond what survived pruning
            per[(s, aid)] = q
    return per


def _decide_deliveries(rep, res, dt, tag, run):
    n = 0
    pending = []  # (label, candidate, constraints, why) of paths whose relaxed query is satisfiable
    for k, r in enumerate(res):
        if r.exc is not None:
            if isinstance(r.exc, (Unsupported, TypeError, AttributeError, NameError)):
                rep.error(f"exception{tag}#{k}", repr(r.exc))
                continue
            m = solve(r.constraints, 30000)
            if m.status == "sat":
                pending.append((f"raises{tag}#{k}", _inputs(dt, ("target",))(m.model), list(r.constraints), f"{type(r.exc).__name__}: {r.exc}"))
            continue
        n += 1
        out = r.out
        k0, mt = out["k0"], z3.Int("m")
        tgt = z3.Int("target")
        # what happened on this path (python-level facts: branches decided them)
        added = []  # (step, agent, impulse)
        carried = {}
        for x in out["log"]:
            if x[0] != "queue":
                continue
            _q, aid, s, q = x
            old = carried.get(aid, [])
            new = [e for e in q if not any(e is o for o in old)]
            for e in new:
                added.append((s, aid, e))
            carried[aid] = q
        goals = []
        # exactly one delivery, to the addressed target (and to its estimate iff planned), in the step containing m
        if not added:
            goals.append(z3.BoolVal(False))
        else:
            s0, (_kind0, a0), imp = added[0]
            # exactly one addition, to the truth agent (the row is not 'planned', so the estimate gets nothing)
            goals.append(z3.BoolVal(len(added) == 1 and _kind0 == "target"))
            goals.append(tgt == a0)
            goals.append(z3.And(mt > (k0.t + s0) * dt, mt <= (k0.t + s0 + 1) * dt))
            # the queued impulse carries the row's time: within 1 ms of the configured second
            tau = imp.time
            goals.append(z3.And(tau.t - z3.ToReal(mt) < rv(Fraction(1, 1000)), z3.ToReal(mt) - tau.t < rv(Fraction(1, 1000))))
        goal = z3.And(*goals)
        v = solve(fp.sliced(r.path, goal) + [z3.Not(goal)], 120000)
        rep._item(f"delivery{tag}#{k}", "prove", v)
        rep.sample({"obligation": f"delivery{tag}", "verdict": v.status, "what": "the impulse row is queued exactly once, for the addressed target, in the step whose interval (t_k, t_k+1] contains its time; queued time = configured time"})
        if v.status == "unsat":
            continue
        if v.status == "unknown":
            rep.undecided(f"delivery{tag}#{k}", v.reason)
            continue
        pending.append((f"delivery{tag}#{k}", _inputs(dt, ("target",))(v.model), fp.sliced(r.path, goal) + [z3.Not(goal)], "relaxed-rounding candidate"))
    if n == 0:
        rep.error(f"reach{tag}", "no path returned normally")
    if pending:
        _ladder(rep, pending, dt)


N_CANDIDATES = 150


def _ladder(rep, pending, dt, replay=None, extra=("target",)):
    """Counterexample candidates of the relaxed (over-approximate) encoding.  The relaxed encoding admits rounding outcomes the
    real doubles do not produce, so a candidate may fail to replay on the real code: further candidates are then drawn from the
    solver (round-robin over the satisfiable paths, earlier start instants blocked, a different start date each time).  A
    violation is reported only for a candidate that reproduces on the real code - one is enough, the search stops there; if
    none of N_CANDIDATES does, the satisfiable paths stay undecided (never passed)."""
    state = [dict(label=lb, cand=c, cons=list(cs), blocked=[], why=why, alive=True) for lb, c, cs, why in pending]
    tried = 0
    while tried < N_CANDIDATES and any(st["alive"] for st in state):
        for st in state:
            if not st["alive"]:
                continue
            tried += 1
            cand = st["cand"]
            reproduced, detail = (replay or replay_impulse)(cand)
            if reproduced:
                rep.note(f"{st['label']}: candidate #{tried} of the relaxed encoding reproduces on the real code")
                rep.concrete_violation(st["label"], cand, detail)
                return
            start = _dt.datetime.fromisoformat(cand["start"])
            delta = start - _dt.datetime(1901, 1, 1)
            st["blocked"].append(z3.Int("n0") != delta.days)
            # partial concretisation to diversify the models (the solver otherwise returns corner values - midnight starts, step 0 -
            # where the real arithmetic happens to be exact): seeded residues for the start second, step index and date
            rnd = random.Random(1000 * tried + len(st["blocked"]))
            div = [z3.Int("sod0") % 997 == rnd.randrange(997), z3.Int("k0") % 101 == rnd.randrange(101), z3.Int("n0") % 89 == rnd.randrange(89), z3.Int("n0") >= 36000]
            v = solve(st["cons"] + st["blocked"] + div, 30000)
            if v.status != "sat":
                v = solve(st["cons"] + st["blocked"], 30000)
            if v.status != "sat":
                st["alive"] = False
                continue
            st["cand"] = _inputs(dt, extra)(v.model)
            if tried >= N_CANDIDATES:
                break
    for st in state:
        rep.undecided(st["label"], f"counterexample candidates of the relaxed encoding ({st['why']}) did not reproduce on the real code ({tried} tried over {len(state)} paths); not decided")


def replay_scopes(d):
    """Real stepForward / getRelevantEvents / handleEvent / SensingAgent time-bias queue with concrete values (agents advance
    through the real PropagateRegistration; the worker only advances time)."""
    from resonaate.data.events import AgentRemovalEvent, EventScope, SensorTimeBiasEvent
    from resonaate.parallel import agent_propagation as AP
    from resonaate.physics.time.stardate import JulianDate, ScenarioTime, datetimeToJulianDate
    from resonaate.scenario import clock as CK
    from resonaate.scenario import scenario as SC

    start = _dt.datetime.fromisoformat(d["start"])
    dt, k0, m = d["dt"], d["k0"], d["m"]
    ns = types.SimpleNamespace(JulianDate=JulianDate, ScenarioTime=ScenarioTime)
    log = _Log()
    js = datetimeToJulianDate(start)
    e = datetimeToJulianDate(start + _dt.timedelta(seconds=m))
    if d.get("kind", 1) == 0:
        ev = AgentRemovalEvent(scope=EventScope.SCENARIO_STEP.value, scope_instance_id=0, start_time_jd=e, end_time_jd=e, event_type="agent_removal", tasking_engine_id=1, agent_id=11, agent_type="target")
    else:
        e2 = datetimeToJulianDate(start + _dt.timedelta(seconds=d["m2"]))
        ev = SensorTimeBiasEvent(scope=EventScope.OBSERVATION_GENERATION.value, scope_instance_id=d["sensor"], start_time_jd=e, end_time_jd=e2, event_type="time_bias", applied_bias=0.1)
        ev.id = 1
    clock = object.__new__(CK.ScenarioClock)
    clock.datetime_start, clock.julian_date_start = start, js
    clock.dt_step, clock.time, clock.initial_time = ScenarioTime(dt), ScenarioTime(k0 * dt), ScenarioTime(0)
    sc = object.__new__(SC.Scenario)
    sc.clock = clock
    sc.current_julian_date = clock.julian_date_epoch
    sc.database = StubDB([ev])
    nul = lambda *a, **k: None  # noqa: E731
    sc.logger = types.SimpleNamespace(info=nul, error=nul, debug=nul, warning=nul)
    sc.scenario_config = types.SimpleNamespace(propagation=types.SimpleNamespace(truth_simulation_only=False))
    sc.target_agents = {i: _token_agent(ns, i, js, log, "target") for i in TGT_IDS}
    sc._sensor_agents = {i: _token_agent(ns, i, js, log, "sensor") for i in SEN_IDS}
    sc._estimate_agents = {i: _token_agent(ns, i, js, log, "estimate") for i in TGT_IDS}
    for ags in (sc.target_agents, sc._sensor_agents, sc._estimate_agents):
        for a in ags.values():
            a._time, a.dt_step, a.datetime_start = ScenarioTime(k0 * dt), ScenarioTime(dt), start
    sc._ephem_importer = None
    sc._stepped_epochs = {}  # (attribute the real constructor sets)

    class Exec:
        def __init__(self):
            self.jobs = []

        def enqueueJob(self, reg):
            self.jobs.append(reg)

        def join(self):
            jobs, self.jobs = self.jobs, []
            for reg in jobs:
                sub = reg.generateSubmission()
                reg.processResults(AP.PropagateResult(agent_id=sub.agent_id, final_time=sub.final_time, prev_state=sub.init_eci, final_eci=sub.init_eci))

    sc._agent_propagator = Exec()
    sc._estimate_predictor = sc._estimate_updater = types.SimpleNamespace(enqueueJob=nul, join=nul)
    sc._target_store, sc._sensor_store, sc._estimate_store, sc._tasking_engines = {}, {}, {}, {}
    removals = []
    sc.removeTarget = lambda *a: removals.append((log.step, a))
    sc.removeSensor = sc.addTarget = sc.addSensor = nul
    active, handed = {}, {}
    with shadow(SC, ray=types.SimpleNamespace(put=lambda x: x), EventStack=types.SimpleNamespace(logAndFlushEvents=nul), EstPredictRegistration=_Reg, EstUpdateRegistration=lambda *a: None), \
            shadow(AP, ReductionParams=types.SimpleNamespace(build=lambda dd: None)):
        for s in range(3):
            log.step = s
            sc.stepForward()
            for sid, a in sc._sensor_agents.items():
                active[(s, sid)] = len(a.sensor_time_bias_event_queue)
    if d.get("kind", 1) == 0:
        want = (m - k0 * dt - 1) // dt
        ok = removals == [(want, (11, 1))]
        return (not ok), {"removeTarget calls (step, args)": removals, "expected_step": want}
    m2, sen = d["m2"], d["sensor"]
    bad = []
    for s in range(3):
        t_epoch = (k0 + s + 1) * dt
        for sid in SEN_IDS:
            want = 1 if (sid == sen and m <= t_epoch <= m2) else 0
            if active[(s, sid)] != want:
                bad.append({"step": s, "epoch_s": t_epoch, "sensor": sid, "bias_events_active": active[(s, sid)], "expected": want})
    return bool(bad), {"mismatches": bad[:4], "bias_interval_s": [m, m2], "addressed_sensor": sen}


# ---- the impulse changes the truth velocity exactly once ------------------------------------------------
DVZ_A, DVZ_B = 1e-3, 3e-3  # out-of-plane delta-v (km/s) of the first / second impulse row: the magnitude identifies the row an impulse was made from
_MU, _R0 = 398600.4418, 7000.0


def _apply_run(d, rows):
    """The whole chain on the real code: real stepForward, real ScheduledImpulseEvent.handleEvent, real PropagateRegistration
    (generateSubmission / processResults), and the worker's real TwoBody.propagate with the real scipy integrator, three steps.
    rows = [(offset_s, target id, dvz, planned)].  Observed per row: the deliveries (agent kind, agent id, step) of its impulse to an
    agent's appendPropagateEvent, the steps in which its getStateChange ran; per target: the final out-of-plane velocity."""
    import numpy as np

    from resonaate.data.events import EventScope, ScheduledImpulseEvent
    from resonaate.dynamics.integration_events import scheduled_impulse as SIE
    from resonaate.dynamics.two_body import TwoBody
    from resonaate.parallel import agent_propagation as AP
    from resonaate.physics.time.stardate import JulianDate, ScenarioTime, datetimeToJulianDate
    from resonaate.scenario import clock as CK
    from resonaate.scenario import scenario as SC

    start = _dt.datetime.fromisoformat(d["start"])
    dt, k0 = d["dt"], d["k0"]
    ns = types.SimpleNamespace(JulianDate=JulianDate, ScenarioTime=ScenarioTime)
    log = _Log()
    js = datetimeToJulianDate(start)
    evs = []
    for m, tgt, dvz, planned in rows:
        e = datetimeToJulianDate(start + _dt.timedelta(seconds=m))
        evs.append(ScheduledImpulseEvent(scope=EventScope.AGENT_PROPAGATION.value, scope_instance_id=tgt, start_time_jd=e, end_time_jd=e, event_type="impulse",
                                         thrust_vec_0=0.0, thrust_vec_1=0.0, thrust_vec_2=dvz, thrust_frame="eci", planned=planned))
    clock = object.__new__(CK.ScenarioClock)
    clock.datetime_start, clock.julian_date_start = start, js
    clock.dt_step, clock.time, clock.initial_time = ScenarioTime(dt), ScenarioTime(k0 * dt), ScenarioTime(0)
    sc = object.__new__(SC.Scenario)
    sc.clock = clock
    sc.current_julian_date = clock.julian_date_epoch
    sc.database = StubDB(evs)
    nul = lambda *a, **k: None  # noqa: E731
    sc.logger = types.SimpleNamespace(info=nul, error=nul, debug=nul, warning=nul)
    sc.scenario_config = types.SimpleNamespace(propagation=types.SimpleNamespace(truth_simulation_only=True))
    sc.target_agents = {i: _token_agent(ns, i, js, log, "target") for i in TGT_IDS}
    sc._sensor_agents, sc._estimate_agents = {}, {i: _token_agent(ns, i, js, log, "estimate") for i in TGT_IDS}
    sc._ephem_importer = None
    sc._stepped_epochs = {}  # (attribute the real constructor sets)
    x0 = np.array([_R0, 0.0, 0.0, 0.0, 7.546, 0.0])
    for a in sc.target_agents.values():
        a._time, a.dt_step, a.eci_state, a.dynamics, a.datetime_start = ScenarioTime(k0 * dt), ScenarioTime(dt), x0.copy(), TwoBody(), start
    calls = []

    class Exec:
        def __init__(self):
            self.jobs = []

        def enqueueJob(self, reg):
            self.jobs.append(reg)

        def join(self):
            jobs, self.jobs = self.jobs, []
            for reg in jobs:
                sub = reg.generateSubmission()
                new = sub.dynamics.propagate(sub.init_time, sub.final_time, sub.init_eci, station_keeping=sub.station_keeping, scheduled_events=sub.scheduled_events)
                reg.processResults(AP.PropagateResult(agent_id=sub.agent_id, final_time=sub.final_time, prev_state=sub.init_eci, final_eci=new))

    sc._agent_propagator = Exec()
    sc._estimate_predictor = sc._estimate_updater = types.SimpleNamespace(enqueueJob=nul, join=nul)
    sc._target_store, sc._sensor_store, sc._estimate_store, sc._tasking_engines = {}, {}, {}, {}
    stack = types.SimpleNamespace(pushEvent=nul, logAndFlushEvents=nul)
    real_change = SIE.ScheduledECIImpulse.getStateChange

    def spy(self, time, state):  # observation only: which impulse object fired, in which step; the real method computes the change
        calls.append((log.step, float(self.thrust[5]), int(self.agent_id)))
        return real_change(self, time, state)

    SIE.ScheduledECIImpulse.getStateChange = spy
    try:
        with shadow(SC, ray=types.SimpleNamespace(put=lambda x: x), EventStack=stack, EstPredictRegistration=_Reg, EstUpdateRegistration=lambda *a: None), \
                shadow(SIE, EventStack=stack), shadow(AP, ReductionParams=types.SimpleNamespace(build=lambda dd: None)):
            for s in range(3):
                log.step = s
                sc.stepForward()
                for a in sc._estimate_agents.values():
                    a._time = sc.clock.time
                    a.prunePropagateEvents()
    finally:
        SIE.ScheduledECIImpulse.getStateChange = real_change
    n = (_MU / _R0 ** 3) ** 0.5
    t_end = (k0 + 3) * dt
    bad, per_row = [], []
    for m, tgt, dvz, planned in rows:
        want = (m - k0 * dt - 1) // dt  # the step with t_{k0+s} < m <= t_{k0+s+1}
        deliv = [(x[1], x[2], x[3]) for x in log if x[0] == "append" and float(x[4].thrust[5]) == dvz]
        expect = [("target", tgt, want)] + ([("estimate", tgt, want)] if planned else [])
        fired = [(c[0], c[2]) for c in calls if c[1] == dvz]
        ok = sorted(deliv) == sorted(expect) and len(fired) == 1 and fired[0][1] == tgt and fired[0][0] in (want, want + 1)
        per_row.append({"offset_s": m, "target": tgt, "dvz": dvz, "planned": planned, "deliveries(kind, agent, step)": deliv, "expected_deliveries": expect,
                        "getStateChange(step, agent)": fired, "expected_once_in_step": [want, want + 1]})
        if not ok:
            bad.append(len(per_row) - 1)
    vz = {}
    for i, a in sc.target_agents.items():
        # out-of-plane motion about the circular reference orbit is harmonic: an impulse dvz at t_i contributes dvz cos(n (t_end - t_i))
        want_vz = sum(dvz * float(np.cos(n * (t_end - m))) for m, tgt, dvz, _p in rows if tgt == i)
        got = float(a.eci_state[5])
        vz[i] = {"vz_km_s": got, "expected": want_vz}
        if abs(got - want_vz) > 2e-4:
            bad.append(f"vz[{i}]")
    return bool(bad), {"rows": per_row, "final_vz": vz, "failing": bad}


def replay_applied(d):
    """One impulse row: its getStateChange must run exactly once (in the step containing it, or at the start of the next) and the
    truth velocity must carry its delta-v once (real TwoBody / scipy integrator)."""
    return _apply_run(d, [(d["m"], d.get("target", TGT_IDS[0]), DVZ_A, False)])


def replay_pair(d):
    """Two impulse rows (the second one planned) addressed to d['target'] / d['target2'] at offsets d['m'] / d['m2']."""
    return _apply_run(d, [(d["m"], d["target"], DVZ_A, False), (d["m2"], d["target2"], DVZ_B, True)])


def o_applied(rep, dt):
    """Through the real PropagateRegistration and the worker's impulse contract: the impulse of a row is applied exactly once."""
    def mk(ns, jdp, t0, k0):
        tgt = integer("target")
        assume(z3.Or(*[tgt.t == i for i in TGT_IDS]))
        m = integer("m")
        assume(m.t > k0.t * dt, m.t <= (k0.t + 2) * dt)
        return [_impulse_row(jdp, t0, m.t, tgt)]

    res = _explore(lambda: run_steps(None, dt, True, mk, apply=True), "relaxed")
    tag = f"[dt={dt}]"
    n = 0
    pending = []
    for k, r in enumerate(res):
        if r.exc is not None:
            rep.error(f"exception{tag}#{k}", repr(r.exc))
            continue
        n += 1
        out = r.out
        k0, mt, tgt = out["k0"], z3.Int("m"), z3.Int("target")
        applied = [x for x in out["log"] if x[0] == "applied"]
        goals = [z3.BoolVal(len(applied) == 1)]
        if applied:
            _a, aid, s, ev = applied[0]
            goals += [tgt == aid, z3.And(mt > (k0.t + s - 1) * dt, mt <= (k0.t + s + 1) * dt),
                      z3.And(ev.time.t - z3.ToReal(mt) < rv(Fraction(1, 1000)), z3.ToReal(mt) - ev.time.t < rv(Fraction(1, 1000)))]
        goal = z3.And(*goals)
        v = solve(fp.sliced(r.path, goal) + [z3.Not(goal)], 120000)
        rep._item(f"applied-once{tag}#{k}", "prove", v)
        rep.sample({"obligation": f"applied-once{tag}", "verdict": v.status, "what": "the impulse is applied to the addressed truth agent exactly once over the steps, at its configured time (real generateSubmission/prune/processResults; worker by its impulse contract)"})
        if v.status == "unknown":
            rep.undecided(f"applied-once{tag}#{k}", v.reason)
        elif v.status == "sat":
            pending.append((f"applied-once{tag}#{k}", _inputs(dt, ("target",))(v.model), fp.sliced(r.path, goal) + [z3.Not(goal)], "relaxed-rounding candidate"))
    if n == 0:
        rep.error(f"reach{tag}", "no path")
    if pending:
        _ladder(rep, pending, dt, replay=replay_applied)


# ---- two impulse rows in one run ------------------------------------------------------------------------
def _row_facts(log, dvz):
    """(deliveries to truth agents, deliveries to estimates, deliveries to anything else, applications) of the impulses made from the row with this delta-v."""
    mine = lambda ev: float(ev.thrust[5]) == dvz  # noqa: E731
    app = [x for x in log if x[0] == "append" and mine(x[4])]
    return ([x for x in app if x[1] == "target"], [x for x in app if x[1] == "estimate"], [x for x in app if x[1] not in ("target", "estimate")],
            [x for x in log if x[0] == "applied" and mine(x[3])])


def o_pair(rep, dt, same, shape, first=TGT_IDS):
    """Two impulse rows A (not planned) and B (planned) with symbolic whole-second times inside the first two of three steps - possibly the
    same step, possibly the same instant - addressed to the same truth agent (`same`) or to two different ones.  Every row is handed
    to appendPropagateEvent of exactly the addressed truth agent exactly once, in the step containing its time (B also to that agent's
    estimate, A to no estimate), and through the real PropagateRegistration + the worker's impulse contract each delta-v is applied
    exactly once.  The agent ids are solver variables whose feasible values are enumerated by forking (so that containers keyed by them
    behave as on ints).  shape: 'a-mid' = A strictly inside a step, B any second; 'b-mid' = B strictly inside, A any second;
    'both' = both any second (thorough; 64 time classes per id pair).  first: the ids row A may be addressed to (row B: the same id, resp. the
    cyclically next one)."""
    def mk(ns, jdp, t0, k0):
        ta, tb = integer("target"), integer("target2")
        assume(z3.Or(*[ta.t == i for i in TGT_IDS]), z3.Or(*[tb.t == i for i in TGT_IDS]))
        assume(z3.Or(*[ta.t == i for i in first]))
        if same:
            assume(tb.t == ta.t)
        else:
            assume(z3.Or(*[z3.And(ta.t == TGT_IDS[i], tb.t == TGT_IDS[(i + 1) % len(TGT_IDS)]) for i in range(len(TGT_IDS))]))
        a, b = ta.concretize(), tb.concretize()
        ma, mb = integer("m"), integer("m2")
        assume(ma.t > k0.t * dt, ma.t <= (k0.t + 2) * dt, mb.t > k0.t * dt, mb.t <= (k0.t + 2) * dt)
        if shape == "a-mid":
            assume(ma.t % dt != 0)
        elif shape == "b-mid":
            assume(mb.t % dt != 0)
        return [_impulse_row(jdp, t0, ma.t, a, planned=False, dvz=DVZ_A), _impulse_row(jdp, t0, mb.t, b, planned=True, dvz=DVZ_B)]

    res = _explore(lambda: run_steps(None, dt, True, mk, apply=True), "relaxed")
    tag = f"[dt={dt},{'same agent' if same else 'two agents'},{shape}]"
    extra = ("target", "target2", "m2")
    n, pending, steps_seen = 0, [], set()
    for k, r in enumerate(res):
        if r.exc is not None:
            if isinstance(r.exc, (Unsupported, TypeError, AttributeError, NameError)):
                rep.error(f"exception{tag}#{k}", repr(r.exc))
                continue
            m = solve(r.constraints, 30000)
            if m.status == "sat":
                pending.append((f"raises{tag}#{k}", _inputs(dt, extra)(m.model), list(r.constraints), f"{type(r.exc).__name__}: {r.exc}"))
            elif m.status == "unknown":
                rep.undecided(f"raises{tag}#{k}", m.reason)
            continue
        n += 1
        out = r.out
        k0, log = out["k0"], out["log"]
        goals, dsteps = [], []
        for row, mt, dvz, planned in ((out["events"][0], z3.Int("m"), DVZ_A, False), (out["events"][1], z3.Int("m2"), DVZ_B, True)):
            aid = row.scope_instance_id  # python int on this path
            truth, est, other, applied = _row_facts(log, dvz)
            goals.append(z3.BoolVal(len(truth) == 1 and not other and len(est) == (1 if planned else 0)))
            if truth:
                _a, _kind, got, s, imp = truth[0]
                dsteps.append(s)
                goals += [z3.BoolVal(got == aid), z3.And(mt > (k0.t + s) * dt, mt <= (k0.t + s + 1) * dt),
                          z3.And(imp.time.t - z3.ToReal(mt) < rv(Fraction(1, 1000)), z3.ToReal(mt) - imp.time.t < rv(Fraction(1, 1000)))]
                if est:
                    goals.append(z3.BoolVal(est[0][2] == aid and est[0][3] == s))
            goals.append(z3.BoolVal(len(applied) == 1))
            if applied:
                _a, got, s, ev = applied[0]
                goals += [z3.BoolVal(got == aid), z3.And(mt > (k0.t + s - 1) * dt, mt <= (k0.t + s + 1) * dt)]
        steps_seen.add(tuple(dsteps))
        goal = z3.And(*goals)
        cons = fp.sliced(r.path, goal) + [z3.Not(goal)]
        v = solve(cons, 120000)
        rep._item(f"pair{tag}#{k}", "prove", v)
        rep.sample({"obligation": f"pair{tag}", "verdict": v.status, "what": "two impulse rows: each is handed exactly once to the addressed truth agent (the planned one also to its estimate) in the step containing its time, and each delta-v is applied exactly once (real generateSubmission/prune/processResults; worker by its impulse contract)"})
        if v.status == "unknown":
            rep.undecided(f"pair{tag}#{k}", v.reason)
        elif v.status == "sat":
            pending.append((f"pair{tag}#{k}", _inputs(dt, extra)(v.model), cons, "relaxed-rounding candidate"))
    if n == 0:
        rep.error(f"reach{tag}", "no path")
    # vacuity guard: the explored classes include both rows in the same step and in different steps
    for want, what in (((0, 0), "both rows in the first step"), ((1, 1), "both rows in the second step"), ((0, 1), "A then B in consecutive steps"), ((1, 0), "B then A in consecutive steps")):
        if pending:
            break
        if want in steps_seen:
            rep.reach.append(f"class{tag}:{what}")
            rep.items.append({"label": f"class{tag}:{what}", "kind": "reach", "verdict": "sat", "secs": 0})
        else:
            rep.error(f"class{tag}:{what}", "vacuous: no explored path delivers the rows this way")
    if pending:
        _ladder(rep, pending, dt, replay=replay_pair, extra=extra)


# ---- the query predicate ---------------------------------------------------------------------------
def replay_query(d):
    """Real in-memory database, real getRelevantEvents."""
    from resonaate.data.events import EventScope, TargetTaskPriority, getRelevantEvents
    from resonaate.data.resonaate_database import ResonaateDatabase
    from resonaate.physics.time.stardate import JulianDate

    db = ResonaateDatabase(None)
    ev = TargetTaskPriority(scope=d["row_scope"], scope_instance_id=d["row_id"], start_time_jd=d["start"], end_time_jd=d["end"], event_type="task_priority", agent_id=11, priority=2.0, is_dynamic=False)
    db.insertData(ev)
    got = getRelevantEvents(db, EventScope(d["scope"]), JulianDate(d["lb"]), JulianDate(d["ub"]), d["id"])
    want = d["row_scope"] == d["scope"] and d["start"] <= d["ub"] and d["end"] > d["lb"] and (d["id"] is None or d["row_id"] == d["id"])
    return (len(got) == 1) != want, {"returned": len(got), "expected": int(want)}


def o_query(rep):
    """The where-clause of the real query <=> scope = S and start <= ub and end > lb and (id given => scope_instance_id = id)."""
    from resonaate.data import events as EV

    scopes = [s for s in EV.EventScope]
    for with_id in (False, True):
        for scope in scopes:
            def run(scope=scope, with_id=with_id):
                with time_env() as ns:
                    lb = ns.JulianDate(fp.fresh_float("lb", 2415020, 2488070, -31))
                    ub = ns.JulianDate(fp.fresh_float("ub", 2415020, 2488070, -31))
                    st, en = fp.fresh_float("st", 2415020, 2488070, -31), fp.fresh_float("en", 2415020, 2488070, -31)
                    rid, qid = integer("rid"), integer("qid")
                    cap = {}

                    class DB:
                        def getData(self, q, multi=True):
                            cap["w"] = q.whereclause
                            return []

                    EV.getRelevantEvents(DB(), scope, lb, ub, qid if with_id else None)
                    outs = {}
                    for rs in scopes:
                        row = {"scope": rs.value, "scope_instance_id": rid, "start_time_jd": st, "end_time_jd": en}
                        v = eval_where(cap["w"], row)
                        outs[rs.value] = v.t if isinstance(v, SBool) else z3.BoolVal(bool(v))
                    return lb, ub, st, en, rid, qid, outs

            with fp.mode("relaxed"):
                res = explore(run, max_paths=8)
            for pi, r in enumerate(res):
                _query_path(rep, r, pi, scope, with_id)


def _query_path(rep, r, pi, scope, with_id):
    from resonaate.data import events as EV

    if True:
        if True:
            if r.exc is not None:
                rep.error(f"query[{scope.value}]", repr(r.exc))
                return
            lb, ub, st, en, rid, qid, outs = r.out
            for rs, got in outs.items():
                want = z3.And(z3.BoolVal(rs == scope.value), st.t <= ub.t, en.t > lb.t, (rid.t == qid.t) if with_id else z3.BoolVal(True))

                def inputs(m, rs=rs, scope=scope, with_id=with_id):
                    f = lambda n: float(mval(m, z3.Real(n)))  # noqa: E731
                    return {"scope": scope.value, "row_scope": rs, "lb": f("lb"), "ub": f("ub"), "start": f("st"), "end": f("en"), "row_id": mval(m, z3.Int("rid")),
                            "id": mval(m, z3.Int("qid")) if with_id else None}
                rep.prove(f"where[{scope.value},row={rs},id={'given' if with_id else 'none'}]#{pi}", got == want, r.constraints, inputs=inputs, replay=replay_query,
                          sample="translated where-clause of the real Query <=> scope matches, start <= ub, end > lb, and scope_instance_id equals the requested id when one is given")


# ---- duration events / other scopes through the real stepForward ----------------------------------------
def o_scopes(rep, dt):
    """Scenario-scope events reach the scenario once (addition/removal), observation-scope duration events reach exactly the addressed sensor in every overlapping step,
    and the tasking engines are handed (previous epoch, new epoch)."""
    from resonaate.data.events import AgentRemovalEvent, EventScope, SensorTimeBiasEvent

    def mk(ns, jdp, t0, k0):
        kind = integer("kind")
        assume(kind.t >= 0, kind.t <= 1)
        m = _offsets(dt, k0)
        if bool(kind == 0):
            e = jdp(t0 + STimeDelta(seconds=m.t))
            return [AgentRemovalEvent(scope=EventScope.SCENARIO_STEP.value, scope_instance_id=0, start_time_jd=e, end_time_jd=e, event_type="agent_removal", tasking_engine_id=1,
                                      agent_id=11, agent_type="target")]
        m2 = integer("m2")
        sen = integer("sensor")
        assume(m2.t >= m.t, m2.t <= (k0.t + 4) * dt, z3.Or(*[sen.t == i for i in SEN_IDS]))
        return [SensorTimeBiasEvent(scope=EventScope.OBSERVATION_GENERATION.value, scope_instance_id=sen, start_time_jd=jdp(t0 + STimeDelta(seconds=m.t)),
                                    end_time_jd=jdp(t0 + STimeDelta(seconds=m2.t)), event_type="time_bias", applied_bias=0.1)]

    res = _explore(lambda: run_steps(None, dt, False, mk, apply=True), "relaxed")
    tag = f"[dt={dt}]"
    n = 0
    pending = []
    for k, r in enumerate(res):
        if r.exc is not None:
            rep.error(f"exception{tag}#{k}", repr(r.exc))
            continue
        n += 1
        out = r.out
        k0, mt, m2 = out["k0"], z3.Int("m"), z3.Int("m2")
        log = out["log"]
        goals = []
        removals = [x for x in log if x[0] == "removeTarget"]
        biases = [x for x in log if x[0] == "time_bias"]
        kind = z3.Int("kind")
        if removals:
            s0 = removals[0][1]
            goals += [kind == 0, z3.BoolVal(len(removals) == 1), z3.BoolVal(removals[0][2] == (11, 1)), mt > (k0.t + s0) * dt, mt <= (k0.t + s0 + 1) * dt, z3.BoolVal(not biases)]
        elif biases:
            steps = sorted(x[3] for x in biases)
            goals += [kind == 1, z3.BoolVal(len(set(steps)) == len(steps)), z3.BoolVal(all(x[1] == "sensor" for x in biases))]
            goals += [z3.Int("sensor") == x[2] for x in biases]
            # active exactly in the steps its interval overlaps: start <= t_{k+1} and end > t_k
            for s in range(3):
                overlaps = z3.And(mt <= (k0.t + s + 1) * dt, m2 > (k0.t + s) * dt)
                goals.append(overlaps == z3.BoolVal(s in steps))
            # the bias is *active* (in the addressed sensor's queue when observations are made) exactly at the step epochs inside [start, end]
            for x in log:
                if x[0] == "tbqueue":
                    _t, sid, s, q = x
                    active = z3.And(mt <= (k0.t + s + 1) * dt, m2 >= (k0.t + s + 1) * dt)
                    goals.append(z3.BoolVal(len(q) <= 1))
                    goals.append(z3.BoolVal(bool(q)) == z3.And(active, z3.Int("sensor") == sid))
        else:
            # nothing delivered in three steps: only legal for a time-bias row whose interval is empty against every window (cannot happen: m is inside the span)
            goals.append(z3.BoolVal(False))
        # engines were handed (previous epoch, new epoch) each step
        t0 = out["t0"]
        for x in log:
            if x[0] == "assess":
                _a, _eid, s, prior, now = x
                goals.append(z3.And(prior.tot == t0.tot + (k0.t + s) * dt, now.tot == t0.tot + (k0.t + s + 1) * dt))
        goals.append(z3.BoolVal(len([x for x in log if x[0] == "assess"]) == 3 * len(ENG_IDS)))
        goal = z3.And(*goals)
        v = solve(fp.sliced(r.path, goal) + [z3.Not(goal)], 120000)
        rep._item(f"scopes{tag}#{k}", "prove", v)
        rep.sample({"obligation": f"scopes{tag}", "verdict": v.status, "what": "scenario-scope event handled once in its step; time-bias row handed to exactly the addressed sensor in exactly the overlapping steps and active exactly at the epochs inside its interval; engines get (previous, new) epoch"})
        if v.status == "unknown":
            rep.undecided(f"scopes{tag}#{k}", v.reason)
        elif v.status == "sat":
            pending.append((f"scopes{tag}#{k}", _inputs(dt, ("m2", "sensor", "kind"))(v.model), fp.sliced(r.path, goal) + [z3.Not(goal)], "relaxed-rounding candidate"))
    if n == 0:
        rep.error(f"reach{tag}", "no path")
    if pending:
        _ladder(rep, pending, dt, replay=replay_scopes, extra=("m2", "sensor", "kind"))


def o_from_config(rep):
    """fromConfig of the event classes stores datetimeToJulianDate(start_time) / (end_time) and the configured scope ids."""
    from resonaate.data.events import scheduled_impulse as SI
    from resonaate.data.events import sensor_time_bias as TB
    from resonaate.data.events import target_task_priority as TP

    tok = {}

    def jd(x):
        tok[id(x)] = ("jd", x)
        return ("jd", x)

    s, e = object(), object()
    cfg = types.SimpleNamespace(scope="agent_propagation", scope_instance_id=12, start_time=s, end_time=e, event_type="impulse", planned=True, thrust_vector=[1, 2, 3], thrust_frame="ntw")
    caught = {}

    class Cap:
        def __init__(self, **kw):
            caught.update(kw)

    with shadow(SI, datetimeToJulianDate=jd):
        SI.ScheduledImpulseEvent.fromConfig.__func__(Cap, cfg)
    ok = caught.get("start_time_jd") == ("jd", s) and caught.get("end_time_jd") == ("jd", e) and caught.get("scope_instance_id") == 12 and caught.get("planned") is True \
        and (caught.get("thrust_vec_0"), caught.get("thrust_vec_1"), caught.get("thrust_vec_2")) == (1, 2, 3) and caught.get("thrust_frame") == "ntw"
    rep.prove("impulse-fromConfig", z3.BoolVal(bool(ok)), [], sample=f"ScheduledImpulseEvent.fromConfig columns: {sorted(caught)}")
    for mod, cls, extra in ((TB, "SensorTimeBiasEvent", dict(applied_bias=0.2)), (TP, "TargetTaskPriority", dict(target_id=11, priority=2.0, is_dynamic=False))):
        caught.clear()
        cfg = types.SimpleNamespace(scope="x", scope_instance_id=22, start_time=s, end_time=e, event_type="t", **extra)
        with shadow(mod, datetimeToJulianDate=jd):
            getattr(mod, cls).fromConfig.__func__(Cap, cfg)
        ok = caught.get("start_time_jd") == ("jd", s) and caught.get("end_time_jd") == ("jd", e) and caught.get("scope_instance_id") == 22
        rep.prove(f"{cls}-fromConfig", z3.BoolVal(bool(ok)), [], sample=f"{cls}.fromConfig columns: {sorted(caught)}")


REPLAYS = {}


def obligations(tier):
    obs = [Ob("query", o_query, "where-clause of getRelevantEvents", 300), Ob("from-config", o_from_config, "event rows carry the Julian dates of their configured instants", 60)]
    REPLAYS["query"] = replay_query
    for dt in ((60, 300, 3080) if tier == "quick" else (1, 7, 45, 60, 300, 3080, 3600)):
        for aligned in (True, False):
            name = f"impulse-dt{dt}-{'aligned' if aligned else 'any'}"
            obs.append(Ob(name, (lambda dt, aligned: lambda rep: o_impulse(rep, dt, aligned))(dt, aligned), f"impulse row delivered exactly once in its step, dt={dt}", 900))
            REPLAYS[name] = replay_impulse
    for dt in ((60, 300) if tier == "quick" else (45, 60, 300, 3080)):
        obs.append(Ob(f"applied-dt{dt}", (lambda dt: lambda rep: o_applied(rep, dt))(dt), f"impulse applied exactly once to the truth agent, dt={dt}", 900))
        REPLAYS[f"applied-dt{dt}"] = replay_applied
    # (dt, same agent?, shape, ids of row A); row B goes to the same id resp. the cyclically next one
    if tier == "quick":
        pairs = [(60, True, "a-mid", TGT_IDS[:1]), (60, True, "b-mid", TGT_IDS[2:]), (60, False, "b-mid", TGT_IDS[:1]), (60, False, "a-mid", TGT_IDS[2:])]
    else:
        pairs = [(dt, same, shape, TGT_IDS) for dt in (60, 300) for same in (True, False) for shape in ("a-mid", "b-mid")]
        pairs += [(3080, True, "b-mid", TGT_IDS), (3080, False, "a-mid", TGT_IDS), (60, True, "both", TGT_IDS[:1]), (300, False, "both", TGT_IDS[:1])]
    for dt, same, shape, first in pairs:
        name = f"pair-{'same' if same else 'two'}-dt{dt}-{shape}"
        obs.append(Ob(name, (lambda dt, same, shape, first: lambda rep: o_pair(rep, dt, same, shape, first))(dt, same, shape, first),
                      f"two impulse rows ({'one agent' if same else 'two agents'}) each delivered and applied exactly once, dt={dt}", 1500 if shape == "both" else 900))
        REPLAYS[name] = replay_pair
    for dt in ((60, 3080) if tier == "quick" else (7, 60, 300, 3080)):
        obs.append(Ob(f"scopes-dt{dt}", (lambda dt: lambda rep: o_scopes(rep, dt))(dt), f"scenario / observation scopes and engine epochs, dt={dt}", 900))
        REPLAYS[f"scopes-dt{dt}"] = replay_scopes
    return obs


obligations("thorough")  # fills REPLAYS (every obligation name of both tiers) at import time, for `runner --replay`
