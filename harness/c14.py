"""C14 - visibility predicates match exact geometry and respect its symmetries."""
from __future__ import annotations

import math

import numpy as np
import z3

from symx.core import (PI_F, TWOPI_F, SBool, SReal, assume, declare_angle, explore, mfloat, real, reals, resume, rv, single_path)
from symx.runner import Ob
from symx.stubs import GramCut, shadow

ID = "C14"
TECHNIQUE = ("symbolic execution of the real visibility predicates on z3 Real proxies (numpy object arrays); Gram-matrix cut "
             "variables for dot/norm proved equal to the code's own terms by ring identities; each obligation is an SMT "
             "query, unsat = holds for every input in the bounds; counterexamples are replayed on the real float code")
FLOAT_SEMANTICS = "Real-ideal (rounding outside the claim); counterexamples are asked with a margin so that they replay in doubles"
ENCODED = [
    "resonaate.physics.sensor_utils:lineOfSight",
    "resonaate.physics.sensor_utils:calculateSunVizFraction",
    "resonaate.physics.sensor_utils:checkSpaceSensorEarthLimbObscuration",
    "resonaate.physics.sensor_utils:getBodyLimbConeAngle",
    "resonaate.sensors.field_of_view:ConicFoV.inFieldOfView",
    "resonaate.sensors.field_of_view:RectangularFoV.inFieldOfView",
    "resonaate.sensors.sensor_base:Sensor.isVisible",
    "resonaate.sensors.sensor_base:Sensor.__init__",
    "resonaate.sensors.sensor_base:Sensor.az_mask",
    "resonaate.sensors.sensor_base:Sensor.el_mask",
    "resonaate.sensors.sensor_base:Sensor._setInitialBoresight",
    "resonaate.sensors.radar:Radar.fromConfig",
    "resonaate.sensors.radar:Radar.__init__",
    "resonaate.sensors.optical:Optical.fromConfig",
    "resonaate.sensors.optical:Optical.__init__",
    "resonaate.physics.measurements:getAzimuth",
    "resonaate.physics.measurements:getElevation",
    "resonaate.physics.maths:subtendedAngle",
    "resonaate.physics.maths:safeArccos",
    "resonaate.physics.maths:wrapAngle2Pi",
]
BOUNDS = {
    "O1": "any two distinct positions with |r| >= R_earth (no upper bound needed)",
    "O2": "any two non-zero directions, cone angle in [0, 2pi]",
    "O3": "azimuths in [0,2pi), elevations in [-pi/2,pi/2], FoV widths in [0, 2pi] x [0, pi], any common azimuth rotation in [0,2pi)",
    "O4": "any azimuth in [0,2pi), elevation, range; masks in their documented ranges, wrapping or not",
    "O4b": ("sensors built by Radar / Optical / AdvRadar.fromConfig; azimuth_range = [m0, m1] degrees, each in [0, 359.999], either order "
            "(m0 > m1 = mask through north); elevation_range = [e0, e1] degrees in [-89.999, 89.999] with e0 <= e1; target azimuth in [0,2pi), "
            "elevation in [-pi/2,pi/2], LoS either way; min/max range None (thorough O4b-range: symbolic, 0 <= rmin <= rmax); claims hold for "
            "directions at least 1e-9 rad away from the mask edges (degree->radian rounding), the edges themselves are O4's subject"),
    "O5": ("any Sun / satellite positions outside the bodies; domain[...] and umbra-axis-zero additionally: |sat| <= 10.5 Earth radii, "
           "|sun| >= 1.35e8 km; umbra-axis-zero: satellite exactly on the Earth-Sun line behind the Earth"),
    "O5c": ("apparent Sun radius a, apparent Earth radius b, apparent separation c as independent solver variables with 0 < a, a + 0.001 <= b < pi/2, "
            "0 <= c <= 1.5 rad (every realistic geometry down to ~20 km altitude; the cap on c keeps counterexamples realisable as positions "
            "that are not on the sunward side); the tolerance variant asks for a deviation > 1e-3 at least 1e-6 rad off the region edges, "
            "the exact variant has no tolerance"),
    "O6": "any sensor distance >= limb radius, any target direction",
}
OUTSIDE = [
    "lower end of the range of the penumbra value (>= 0) as a separate solver verdict: O5c proves the value EQUAL to 1 - overlap/disc area with the "
    "overlap written as two circular segments, and <= 1; that the overlap of two discs is not larger than one of them is geometry the solver is "
    "not asked (it needs the monotonicity of (t - sin t cos t)/sin^2 t, which the angle algebra does not carry)",
    "O5c: that the three angles the formula works on ARE the apparent radii / separation of the given positions is covered only through O5 "
    "(sunward side, anti-Sun axis, domains); a slip in them that keeps those three facts is not seen",
    "deep umbra off the exact anti-Sun axis as a statement over positions (over the angles it is O5c's c < b - a branch)",
    "apparent Sun disc larger than the apparent Earth disc (annular case a > b; never within 10 Earth radii)",
    "elevation_range given as (upper, lower): the configuration calls it order independent, isVisible then admits nothing; not part of C14's text, "
    "O4b assumes e0 <= e1",
    "SensorAdditionEvent / pydantic validation on the way into fromConfig (a duck-typed configuration object is handed to the real fromConfig)",
    "floating-point rounding at exact tangency / exactly on a mask edge",
]
ASSUMPTIONS = [
    "sqrt(x) is the non-negative root; arccos/arcsin/arctan2 are modelled by their (cos,sin) pair and range (angle algebra)",
    "cos is strictly decreasing on [0,pi], sin strictly increasing on [-pi/2,pi/2] (instantiated for the named pairs)",
    "pi is identified with the code's double constant const.PI",
    "O3/O4/O4b: getAzimuth/getElevation/getRange/lineOfSight are replaced by providers of symbolic values in their documented ranges; O3b checks getAzimuth/getElevation themselves",
    "O4b: the configuration object is a namespace with the attributes fromConfig reads; non-mask attributes are fixed numbers; cos/sin of the boresight are opaque angle atoms (not used by isVisible)",
    "O5/O5c: dot/norm of the positions are cut to the Gram entries of (sat, sun) after the solver proved each equal to the code's own term (_DiffCut)",
    "O5c/O5b: arcsin (both calls) and the first arccos call are providers of the angle variables a, b, c in that call order (arcsin in (0,pi/2), arccos in [0,pi]); the later arccos calls are the real ones (angle algebra)",
    "O5c: arccos is a function (equal arguments => equal values; instantiated between the code's applications and the oracle's law-of-cosines angles); lemma chain law of sines -> projection -> identification of the code's angles and half-chord, each lemma proved by the solver before use",
    "O5c at-most-one: sin t <= t for t >= 0, instantiated for the two triangle angles (trusted)",
    "O5 domain[...]: the domain conditions recorded by the engine (sqrt argument >= 0, arcsin/arccos argument in [-1,1], divisor != 0) are proved in program order, each from the path condition up to that point",
]

R2 = None


def _fr(x):
    from fractions import Fraction

    return Fraction(float(x))


def _earth_r2():
    from resonaate.physics.bodies import Earth

    return float(Earth.radius) ** 2


# ------------------------------------------------------------------------------
# O1 line of sight
# ------------------------------------------------------------------------------
def _los_inputs(m):
    a, b, c = (mfloat(m, z3.Real(n)) for n in ("G_r1_r1", "G_r2_r2", "G_r1_r2"))
    r1 = np.array([math.sqrt(a), 0.0, 0.0])
    x = c / math.sqrt(a)
    r2 = np.array([x, math.sqrt(max(b - x * x, 0.0)), 0.0])
    return {"r1": r1, "r2": r2, "gram": [a, b, c]}


def _los_oracle(r1, r2, R):
    # dense, independent evaluation of min |r1 + t (r2-r1)| over [0,1]
    d = r2 - r1
    t = np.clip(-(r1 @ d) / (d @ d), 0.0, 1.0)
    p = r1 + t * d
    return math.sqrt(p @ p)


def replay_los(data):
    from resonaate.physics import sensor_utils as su
    from resonaate.physics.bodies import Earth

    r1, r2 = np.array(data["r1"]), np.array(data["r2"])
    got = bool(su.lineOfSight(r1, r2))
    got_sw = bool(su.lineOfSight(r2, r1))
    dmin = _los_oracle(r1, r2, Earth.radius)
    exp = dmin >= Earth.radius
    bad = (got != exp and abs(dmin - Earth.radius) > 1e-6) or (got != got_sw)
    return bad, {"lineOfSight(r1,r2)": got, "lineOfSight(r2,r1)": got_sw, "min_distance_km": dmin, "earth_radius_km": Earth.radius}


def o1_los(rep):
    from resonaate.physics import sensor_utils as su

    R2v = rv(_earth_r2())
    a, b, c = z3.Real("G_r1_r1"), z3.Real("G_r2_r2"), z3.Real("G_r1_r2")

    def both():
        r1, r2 = reals("r1", 3), reals("r2", 3)
        cut = GramCut({"r1": r1, "r2": r2}, su.dot, su.norm)
        with shadow(su, dot=cut.dot, norm=cut.norm):
            f = su.lineOfSight(r1, r2)
            g = su.lineOfSight(r2, r1)
        return f, g, cut

    res = explore(both, max_paths=64)
    rep.note(f"paths={len(res)}")
    t = z3.Real("t")
    seg = a + 2 * t * (c - a) + t * t * (a + b - 2 * c)
    tstar = (a - c) / (a + b - 2 * c)
    tcl = z3.If(tstar < 0, z3.RealVal(0), z3.If(tstar > 1, z3.RealVal(1), tstar))
    segmin = a + 2 * tcl * (c - a) + tcl * tcl * (a + b - 2 * c)
    margin = rv(1)  # km^2, so that counterexamples replay in doubles
    reached = 0
    for r in res:
        if r.exc is not None:
            rep.error("exception", repr(r.exc))
            continue
        f, g, cut = r.out
        if cut.unmatched:
            rep.note(f"unmatched dot/norm terms: {cut.unmatched}")
        pre = cut.facts() + [a >= R2v, b >= R2v, a + b - 2 * c > 0]
        cons = r.constraints + pre
        ft = f.t if isinstance(f, SBool) else z3.BoolVal(bool(f))
        gt = g.t if isinstance(g, SBool) else z3.BoolVal(bool(g))
        tag = "".join("T" if d else "F" for d in r.path.decisions)
        if rep.feasible(f"path-{tag}", cons) is None:
            continue
        reached += 1
        rep.prove(f"true-implies-clear[{tag}]", z3.Implies(ft, z3.Not(z3.And(t >= 0, t <= 1, seg < R2v - margin))), cons,
                  inputs=_los_inputs, replay=replay_los, sample="lineOfSight True => whole segment outside the sphere")
        rep.prove(f"false-implies-blocked[{tag}]", z3.Implies(z3.Not(ft), segmin <= R2v + margin), cons,
                  inputs=_los_inputs, replay=replay_los, sample="lineOfSight False => closest point of the segment inside the sphere")
        rep.prove(f"symmetric[{tag}]", ft == gt, cons, inputs=_los_inputs, replay=replay_los,
                  sample="lineOfSight(r1,r2) == lineOfSight(r2,r1)")
    if reached < 2:
        rep.error("reach", "fewer than two feasible paths through lineOfSight")


# ------------------------------------------------------------------------------
# O2 conic field of view
# ------------------------------------------------------------------------------
def replay_conic(data):
    from resonaate.sensors.field_of_view import ConicFoV

    v, w, cone = np.array(data["v"] + data.get("vv", [0, 0, 0.0])), np.array(data["w"] + data.get("wv", [0, 0, 0.0])), data["cone"]
    got = bool(ConicFoV(cone).inFieldOfView(v, w))
    cosang = (v[:3] @ w[:3]) / math.sqrt((v[:3] @ v[:3]) * (w[:3] @ w[:3]))
    ang = math.acos(max(-1.0, min(1.0, cosang)))
    exp = ang <= cone / 2
    return (got != exp and abs(ang - cone / 2) > 1e-9), {"inFieldOfView": got, "offset_angle": ang, "half_cone": cone / 2}


def _conic_inputs(m):
    a, b, c = (mfloat(m, z3.Real(n)) for n in ("G_v_v", "G_w_w", "G_v_w"))
    x = c / math.sqrt(a)
    return {"v": [math.sqrt(a), 0.0, 0.0], "w": [x, math.sqrt(max(b - x * x, 0.0)), 0.0], "cone": mfloat(m, z3.Real("cone"))}


def _tb(x):
    return x.t if isinstance(x, SBool) else z3.BoolVal(bool(x))


def o2_conic(rep):
    from resonaate.physics import maths as M
    from resonaate.sensors import field_of_view as fov

    pi = rv(PI_F)

    def run():
        v, w = reals("v", 6), reals("w", 6)
        th = real("theta")
        # the arguments are 6-element SEZ states: the velocity halves are named too, so that a product taken over the whole states is still a sum of cut variables
        cut = GramCut({"v": v[:3], "w": w[:3], "vv": v[3:], "wv": w[3:]}, M.vdot, M.norm, sums=True)
        # half cone as an angle h = arccos(ch): the arccos contract then relates it monotonically to the offset angle
        ch = real("cos_half")
        h = ch.arccos()
        cone = 2 * h
        f = fov.ConicFoV(cone)
        with shadow(M, vdot=cut.dot, norm=cut.norm):
            res = f.inFieldOfView(v, w)
            R = np.zeros((6, 6), dtype=object)
            R3 = M.rot3(th)
            R[:3, :3] = R3
            R[3:, 3:] = R3
            res_rot = f.inFieldOfView(R.dot(v), R.dot(w))
            res_refl = f.inFieldOfView(v, v)
        return res, res_rot, res_refl, cut, cone, ch

    results = explore(run, max_paths=64)
    n_ok = 0
    a, b, c = z3.Real("G_v_v"), z3.Real("G_w_w"), z3.Real("G_v_w")
    a2, b2, c2 = z3.Real("G_vv_vv"), z3.Real("G_wv_wv"), z3.Real("G_vv_wv")
    facts = [a > 0, b > 0, a * b - c * c >= 0, z3.Real("cos_half") >= -1, z3.Real("cos_half") <= 1, a2 >= 0, b2 >= 0, a2 * b2 - c2 * c2 >= 0]
    for r in results:
        tag = "".join("T" if d else "F" for d in r.path.decisions)
        if r.exc is not None:
            if isinstance(r.exc, ValueError):
                rep.prove(f"safeArccos-raise-unreachable[{tag}]", z3.BoolVal(False), r.constraints + facts,
                          sample="the ValueError branch of safeArccos is unreachable for real vectors (Cauchy-Schwarz)")
                continue
            rep.error("exception", repr(r.exc))
            continue
        res, res_rot, res_refl, cut, cone, ch = r.out
        if cut.unmatched:
            rep.note(f"unmatched: {cut.unmatched}")
        cons = r.constraints + facts
        if rep.feasible(f"path-{tag}", cons) is None:
            continue
        n_ok += 1

        def inputs(m, cone=cone):
            d = _conic_inputs_raw(m)
            d["cone"] = mfloat(m, cone.t)
            return d

        rep.prove(f"rotation-invariant[{tag}]", _tb(res) == _tb(res_rot), cons, sample="conic FoV unchanged when both directions are rotated about the vertical")
        rep.prove(f"reflexive[{tag}]", _tb(res_refl), cons, sample="a direction is inside its own conic FoV")
        nv, nw = z3.Real("nrm_v"), z3.Real("nrm_w")
        rep.prove(f"exact[{tag}]", _tb(res) == (c >= ch.t * nv * nw), cons + [nv > 0, nw > 0, nv * nv == a, nw * nw == b],
                  inputs=inputs, replay=replay_conic, sample="conic FoV <=> normalised dot product >= cos(cone/2)")
    if n_ok < 1:
        rep.error("reach", "no feasible path")


def _conic_inputs_raw(m):
    a, b, c = (mfloat(m, z3.Real(n)) for n in ("G_v_v", "G_w_w", "G_v_w"))
    x = c / math.sqrt(a)
    out = {"v": [math.sqrt(a), 0.0, 0.0], "w": [x, math.sqrt(max(b - x * x, 0.0)), 0.0]}
    a2, b2, c2 = (mfloat(m, z3.Real(n)) for n in ("G_vv_vv", "G_wv_wv", "G_vv_wv"))  # velocity halves (zero unless the path refers to them)
    if a2 > 0:
        x2 = c2 / math.sqrt(a2)
        out["vv"], out["wv"] = [math.sqrt(a2), 0.0, 0.0], [x2, math.sqrt(max(b2 - x2 * x2, 0.0)), 0.0]
    elif b2 > 0:
        out["vv"], out["wv"] = [0.0, 0.0, 0.0], [math.sqrt(b2), 0.0, 0.0]
    return out


# ------------------------------------------------------------------------------
# O3 rectangular field of view (providers for az/el)
# ------------------------------------------------------------------------------
class _AzElVec:
    """Stands for a 6x1 SEZ vector whose azimuth/elevation are symbolic primitives."""

    def __init__(self, az, el):
        self.az, self.el = az, el


def replay_rect(data):
    from resonaate.sensors.field_of_view import RectangularFoV

    def sez(az, el):
        return np.array([-math.cos(el) * math.cos(az), math.cos(el) * math.sin(az), math.sin(el), 0, 0, 0.0]) * 1000.0

    f = RectangularFoV(data["w"], data["h"])
    p, b = sez(data["az_p"], data["el_p"]), sez(data["az_b"], data["el_b"])
    th = data.get("theta", 0.0)
    p2, b2 = sez((data["az_p"] + th) % (2 * math.pi), data["el_p"]), sez((data["az_b"] + th) % (2 * math.pi), data["el_b"])
    r0, r1 = bool(f.inFieldOfView(p, b)), bool(f.inFieldOfView(p2, b2))
    refl = bool(f.inFieldOfView(p, p))
    return (r0 != r1) or (not refl), {"unrotated": r0, "rotated_by_theta": r1, "reflexive": refl}


def o3_rect(rep):
    from resonaate.sensors import field_of_view as fov

    twopi = rv(TWOPI_F)
    hp = rv(PI_F / 2)

    def run():
        azp, elp, azb, elb, th = real("az_p"), real("el_p"), real("az_b"), real("el_b"), real("theta")
        w, h = real("w"), real("h")
        assume(*pre)

        def wrap(x):  # exact rotation of an azimuth about the vertical
            return SReal(z3.If(x.t >= twopi, x.t - twopi, x.t))

        P, B = _AzElVec(azp, elp), _AzElVec(azb, elb)
        P2, B2 = _AzElVec(wrap(azp + th), elp), _AzElVec(wrap(azb + th), elb)
        f = fov.RectangularFoV(w, h)
        with shadow(fov, getAzimuth=lambda v: v.az, getElevation=lambda v: v.el):
            r0 = sb(f.inFieldOfView(P, B))
            r1 = sb(f.inFieldOfView(P2, B2))
            rr = sb(f.inFieldOfView(P, P))
        return r0, r1, rr

    def sb(x):
        return x if isinstance(x, SBool) else SBool(z3.BoolVal(bool(x)))

    names = ["az_p", "el_p", "az_b", "el_b", "theta", "w", "h"]
    V = {n: z3.Real(n) for n in names}
    pre = [V["az_p"] >= 0, V["az_p"] < twopi, V["az_b"] >= 0, V["az_b"] < twopi, V["theta"] >= 0, V["theta"] < twopi,
           V["el_p"] >= -hp, V["el_p"] <= hp, V["el_b"] >= -hp, V["el_b"] <= hp, V["w"] >= 0, V["w"] <= twopi, V["h"] >= 0, V["h"] <= 2 * hp]
    results = explore(run, max_paths=512)
    # margin keeps counterexamples away from the float-rounding boundary
    eps = rv(1e-6)
    far = []
    d1 = V["az_p"] - V["az_b"]

    def inputs(m):
        return {n: mfloat(m, V[n]) for n in names}

    rep.note(f"paths={len(results)}")
    # The three calls branch independently; group: for each path the outputs are constants (the path fixed them)
    n = 0
    for r in results:
        if r.exc is not None:
            rep.error("exception", repr(r.exc))
            continue
        r0, r1, rr = r.out
        cons = r.constraints + pre
        tag = "".join("T" if d else "F" for d in r.path.decisions)
        # stay a margin away from the decision boundaries so the replay is robust in doubles
        w2, h2 = V["w"] / 2, V["h"] / 2
        robust = []
        for (pa, pb) in [(V["az_p"], V["az_b"])]:
            for k in (-1, 0, 1):
                dd = pa - pb + k * twopi
                robust += [z3.Or(dd - w2 > eps, w2 - dd > eps), z3.Or(-dd - w2 > eps, w2 + dd > eps)]
        de = V["el_p"] - V["el_b"]
        robust += [z3.Or(de - h2 > eps, h2 - de > eps), z3.Or(-de - h2 > eps, h2 + de > eps),
                   z3.Or(twopi - V["az_p"] - V["theta"] > eps, V["az_p"] + V["theta"] - twopi > eps),
                   z3.Or(twopi - V["az_b"] - V["theta"] > eps, V["az_b"] + V["theta"] - twopi > eps)]
        regions = {"C14-rectfov-seam": z3.Or(d1 > rv(PI_F), d1 < -rv(PI_F), True)}
        ok = rep.prove(f"rotation-invariant[{tag}]", r0.t == r1.t, cons + robust, inputs=inputs, replay=replay_rect, regions=regions,
                       sample="rectangular FoV unchanged when both azimuths are rotated by theta (mod 2pi)")
        rep.prove(f"reflexive[{tag}]", rr.t, cons, inputs=inputs, replay=replay_rect, sample="pointing direction is inside its own rectangular FoV")
        n += 1
    if n == 0:
        rep.error("reach", "no path")
    # reachability twin: a seam-crossing configuration that is inside the FoV must exist
    rep.reachable("seam-config", pre + [V["az_p"] > rv(6), V["az_b"] < rv(Fraction_(1, 4)), V["w"] > 1])


def Fraction_(a, b):
    from fractions import Fraction

    return Fraction(a, b)


# ------------------------------------------------------------------------------
# O3b getAzimuth / getElevation themselves
# ------------------------------------------------------------------------------
def replay_azel(data):
    from resonaate.physics import measurements as ms

    v = np.array(data["sez"], dtype=float)
    az, el = float(ms.getAzimuth(v)), float(ms.getElevation(v))
    rho = math.sqrt(v[:3] @ v[:3])
    e_az = math.atan2(v[1], -v[0]) % (2 * math.pi)
    e_el = math.asin(v[2] / rho)
    bad = abs(el - e_el) > 1e-9 or (min(abs(az - e_az), 2 * math.pi - abs(az - e_az)) > 1e-9 and abs(e_el) < math.pi / 2 - 1e-6) or not (0 <= az < 2 * math.pi)
    return bad, {"azimuth": az, "elevation": el, "expected_az": e_az, "expected_el": e_el}


def o3b_azel(rep):
    from resonaate.physics import measurements as ms

    def run():
        v = reals("s", 6)
        az = ms.getAzimuth(v)
        el = ms.getElevation(v)
        return v, az, el

    results = explore(run, max_paths=64)
    twopi, hp = rv(TWOPI_F), rv(PI_F / 2)
    S = [z3.Real(f"s_{i}") for i in range(6)]
    n = 0
    for r in results:
        if r.exc is not None:
            rep.error("exception", repr(r.exc))
            continue
        v, az, el = r.out
        tag = "".join("T" if d else "F" for d in r.path.decisions)
        pre = [S[0] * S[0] + S[1] * S[1] + S[2] * S[2] > 0]
        cons = r.constraints + pre
        if rep.feasible(f"path-{tag}", cons) is None:
            continue
        n += 1
        inputs = lambda m: {"sez": [mfloat(m, s) for s in S]}  # noqa: E731
        rep.prove(f"az-range[{tag}]", z3.And(az.t >= 0, az.t < twopi), cons, inputs=inputs, replay=replay_azel, sample="azimuth in [0, 2pi)")
        rep.prove(f"el-range[{tag}]", z3.And(el.t >= -hp, el.t <= hp), cons, inputs=inputs, replay=replay_azel, sample="elevation in [-pi/2, pi/2]")
        # (cos az, sin az) proportional to (-x, y) with a positive factor, off the zenith branch; sin el = z/|rho|
        with resume(r.path):
            caz, saz = az.cos().t, az.sin().t
            sel = el.sin().t
        rho = z3.Real("rho")
        cons2 = r.constraints + pre + [rho > 0, rho * rho == S[0] * S[0] + S[1] * S[1] + S[2] * S[2]]
        rep.prove(f"sin-el[{tag}]", sel * rho == S[2], cons2, timeout_ms=20000, inputs=inputs, replay=replay_azel, sample="sin(elevation) = z/|rho|")
        horiz = S[0] * S[0] + S[1] * S[1]
        if not any(d for d in r.path.decisions[:1]):
            # non-zenith branch: az = atan2(y, -x) wrapped
            rep.prove(f"az-direction[{tag}]", z3.Implies(horiz > 0, z3.And(caz * S[1] == saz * (-S[0]), caz * (-S[0]) + saz * S[1] > 0)), cons2,
                      timeout_ms=20000, inputs=inputs, replay=replay_azel, sample="(cos az, sin az) is the direction of (-x, y)")
    if n == 0:
        rep.error("reach", "no path")


# ------------------------------------------------------------------------------
# O4 azimuth / elevation / range masks of Sensor.isVisible
# ------------------------------------------------------------------------------
def replay_mask(data):
    from resonaate.sensors.sensor_base import Sensor

    class Host:
        eci_state = np.array([7000.0, 0, 0, 0, 0, 0])

    class S:
        pass

    s = S()
    s.minimum_range, s.maximum_range = data["rmin"], data["rmax"]
    s.el_mask, s.az_mask = np.array([data["el0"], data["el1"]]), np.array([data["az0"], data["az1"]])
    s.host = Host()
    az, el, rng = data["az"], data["el"], data["rng"]
    sez = np.array([-math.cos(el) * math.cos(az), math.cos(el) * math.sin(az), math.sin(el), 0, 0, 0.0]) * rng
    from resonaate.sensors import sensor_base as sb

    with shadow(sb, lineOfSight=lambda a, b: bool(data["los"])):
        vis, why = Sensor.isVisible(s, np.array([1.0, 0, 0, 0, 0, 0]), 1.0, 0.2, sez)
    exp = _mask_oracle_py(data)
    return bool(vis) != exp, {"isVisible": bool(vis), "explanation": str(why), "oracle": exp}


def _mask_oracle_py(d):
    az_ok = (d["az0"] <= d["az"] <= d["az1"]) if d["az0"] <= d["az1"] else (d["az"] >= d["az0"] or d["az"] <= d["az1"])
    return bool(d["rmin"] <= d["rng"] <= d["rmax"] and d["los"] and d["el0"] <= d["el"] <= d["el1"] and az_ok)


def o4_masks(rep):
    from resonaate.common.labels import Explanation
    from resonaate.sensors import sensor_base as sb

    twopi, hp = rv(TWOPI_F), rv(PI_F / 2)
    names = ["az", "el", "rng", "rmin", "rmax", "el0", "el1", "az0", "az1"]
    V = {n: z3.Real(n) for n in names}
    los = z3.Bool("los")

    class Host:
        eci_state = np.zeros(6)

    def run():
        class S:
            pass

        s = S()
        s.minimum_range, s.maximum_range = real("rmin"), real("rmax")
        s.el_mask = np.array([real("el0"), real("el1")], dtype=object)
        s.az_mask = np.array([real("az0"), real("az1")], dtype=object)
        s.host = Host()
        with shadow(sb, getRange=lambda v: real("rng"), getAzimuth=lambda v: real("az"), getElevation=lambda v: real("el"),
                    lineOfSight=lambda a, b: SBool(los)):
            return sb.Sensor.isVisible(s, np.zeros(6), 1.0, 0.2, np.zeros(6))

    results = explore(run, max_paths=256)
    pre = [V["az"] >= 0, V["az"] < twopi, V["el"] >= -hp, V["el"] <= hp, V["rng"] > 0, V["rmin"] >= 0, V["rmax"] >= V["rmin"],
           V["el0"] >= -hp, V["el1"] <= hp, V["el0"] <= V["el1"], V["az0"] >= 0, V["az0"] <= twopi, V["az1"] >= 0, V["az1"] <= twopi]
    az_ok = z3.If(V["az0"] <= V["az1"], z3.And(V["az0"] <= V["az"], V["az"] <= V["az1"]), z3.Or(V["az"] >= V["az0"], V["az"] <= V["az1"]))
    conj = {
        Explanation.MINIMUM_RANGE: V["rng"] >= V["rmin"], Explanation.MAXIMUM_RANGE: V["rng"] <= V["rmax"], Explanation.LINE_OF_SIGHT: los,
        Explanation.ELEVATION_MASK: z3.And(V["el"] >= V["el0"], V["el"] <= V["el1"]), Explanation.AZIMUTH_MASK: az_ok,
    }
    oracle = z3.And(*conj.values())

    def inputs(m):
        d = {n: mfloat(m, V[n]) for n in names}
        d["los"] = bool(z3.is_true(m.eval(los, model_completion=True)))
        return d

    seen = set()
    for r in results:
        if r.exc is not None:
            rep.error("exception", repr(r.exc))
            continue
        vis, why = r.out
        tag = "".join("T" if d else "F" for d in r.path.decisions)
        cons = r.constraints + pre
        seen.add(str(why))
        visb = bool(vis)
        rep.prove(f"matches-spec[{tag}]", oracle if visb else z3.Not(oracle), cons, inputs=inputs, replay=replay_mask,
                  sample="isVisible <=> range, LoS, elevation and (possibly wrapping) azimuth interval tests")
        if not visb:
            if why not in conj:
                rep.error("explanation", f"unexpected explanation {why}")
                continue
            rep.prove(f"reason-true[{tag}]", z3.Not(conj[why]), cons, inputs=inputs, replay=replay_mask,
                      sample="the stated reason of invisibility is a test that really fails")
    rep.note(f"explanations seen: {sorted(seen)}")
    # reachability twins: wrapping mask admits an azimuth above az0 and one below az1
    rep.reachable("wrap-high", pre + [V["az0"] > V["az1"], V["az"] >= V["az0"], oracle])
    rep.reachable("wrap-low", pre + [V["az0"] > V["az1"], V["az"] <= V["az1"], oracle])
    if len(seen) < 6:
        rep.error("reach", f"only {sorted(seen)} outcomes reached")


# ------------------------------------------------------------------------------
# O4b masks configured through the sensor constructors (degrees) reach isVisible unchanged in meaning
# ------------------------------------------------------------------------------
_O4B_CLASSES = ("Radar", "Optical", "AdvRadar")


def _sensor_cls(name):
    from resonaate.sensors.advanced_radar import AdvRadar
    from resonaate.sensors.optical import Optical
    from resonaate.sensors.radar import Radar

    return {"Radar": Radar, "Optical": Optical, "AdvRadar": AdvRadar}[name]


def _sensor_cfg(cls_name, az_range, el_range, rmin=None, rmax=None):
    """Duck-typed sensor configuration (the attributes `fromConfig` reads); masks in degrees as in the configuration files."""
    from types import SimpleNamespace

    n = 2 if cls_name == "Optical" else 4
    return SimpleNamespace(azimuth_range=az_range, elevation_range=el_range, covariance=np.diag([1e-10] * n).tolist(), aperture_diameter=10.0,
                           efficiency=0.9, slew_rate=3.0, background_observations=False, minimum_range=rmin, maximum_range=rmax,
                           tx_power=1e6, tx_frequency=1e9, min_detectable_power=1e-14, detectable_vismag=25.0)


def _deg_mask_oracle_py(d):
    az, el = math.degrees(d["az"]), math.degrees(d["el"])
    az_ok = (d["az0d"] <= az <= d["az1d"]) if d["az0d"] <= d["az1d"] else (az >= d["az0d"] or az <= d["az1d"])
    rng_ok = d.get("rmin") is None or d["rmin"] <= d["rng"] <= d["rmax"]
    return bool(rng_ok and d["los"] and d["el0d"] <= el <= d["el1d"] and az_ok)


def replay_ctor_mask(data):
    from types import SimpleNamespace

    from resonaate.sensors import sensor_base as sb
    from resonaate.sensors.field_of_view import ConicFoV

    cls = _sensor_cls(data["cls"])
    try:
        s = cls.fromConfig(_sensor_cfg(data["cls"], [data["az0d"], data["az1d"]], [data["el0d"], data["el1d"]], data.get("rmin"), data.get("rmax")), ConicFoV(0.1))
    except ValueError as e:
        return True, {"constructor raised": str(e)}
    s.host = SimpleNamespace(eci_state=np.array([7000.0, 0, 0, 0, 0, 0]), time=0.0)
    az, el = data["az"], data["el"]
    sez = np.array([-math.cos(el) * math.cos(az), math.cos(el) * math.sin(az), math.sin(el), 0, 0, 0.0]) * data.get("rng", 1000.0)
    with shadow(sb, lineOfSight=lambda a, b: bool(data["los"])):
        vis, why = sb.Sensor.isVisible(s, np.array([8000.0, 0, 0, 0, 0, 0]), 1.0, 0.2, sez)
    exp = _deg_mask_oracle_py(data)
    return bool(vis) != exp, {"sensor": data["cls"], "configured azimuth_range (deg)": [data["az0d"], data["az1d"]], "target azimuth (deg)": math.degrees(az),
                              "stored az_mask (deg)": np.degrees(np.asarray(s.az_mask, dtype=float)).tolist(),
                              "isVisible": bool(vis), "explanation": str(why), "oracle": exp}


def o4b_ctor_masks(rep, classes=_O4B_CLASSES, with_range=False):
    """A sensor built by `fromConfig` from azimuth_range = [m0, m1] / elevation_range = [e0, e1] in degrees (order of the azimuth pair is
    the information: m0 > m1 is a mask through north) admits through the generic Sensor.isVisible exactly the directions inside them."""
    from types import SimpleNamespace

    from resonaate.sensors import sensor_base as sb
    from resonaate.sensors.field_of_view import ConicFoV

    twopi, hp = rv(TWOPI_F), rv(PI_F / 2)
    d2r = rv(float(sb.const.DEG2RAD))
    names = ["az0d", "az1d", "el0d", "el1d", "az", "el"] + (["rng", "rmin", "rmax"] if with_range else [])
    V = {n: z3.Real(n) for n in names}
    los = z3.Bool("los")
    top_az, top_el = rv(Fraction_(359999, 1000)), rv(Fraction_(89999, 1000))
    pre = [V["az0d"] >= 0, V["az0d"] <= top_az, V["az1d"] >= 0, V["az1d"] <= top_az, V["el0d"] >= -top_el, V["el1d"] <= top_el, V["el0d"] <= V["el1d"],
           V["az"] >= 0, V["az"] < twopi, V["el"] >= -hp, V["el"] <= hp]
    m0, m1, e0, e1 = d2r * V["az0d"], d2r * V["az1d"], d2r * V["el0d"], d2r * V["el1d"]
    az_ok = z3.If(m0 <= m1, z3.And(m0 <= V["az"], V["az"] <= m1), z3.Or(V["az"] >= m0, V["az"] <= m1))
    oracle = z3.And(los, V["el"] >= e0, V["el"] <= e1, az_ok)
    if with_range:  # thorough: the configured minimum / maximum range (km) as solver variables too
        pre += [V["rng"] >= 1, V["rmin"] >= 0, V["rmax"] >= V["rmin"]]
        oracle = z3.And(oracle, V["rng"] >= V["rmin"], V["rng"] <= V["rmax"])
    # counterexamples keep 1e-9 rad away from the mask edges (degree -> radian conversion rounding)
    eps = rv(1e-9)
    # ... and, so that a counterexample on a changed tree does not sit on an edge of whatever mask that tree stored, also away from the other
    # configured numbers, converted or not
    marks = [m0, m1, e0, e1, -e0, -e1, V["az0d"], V["az1d"], V["el0d"], V["el1d"]]
    robust = [z3.Or(V[x] - m > eps, m - V[x] > eps) for x in ("az", "el") for m in marks]
    if with_range:
        robust += [z3.Or(V["rng"] - x > eps, x - V["rng"] > eps) for x in (V["rmin"], V["rmax"])]

    for cname in classes:
        cls = _sensor_cls(cname)

        def run(cls=cls, cname=cname):
            assume(*pre)
            cfg = _sensor_cfg(cname, [real("az0d"), real("az1d")], [real("el0d"), real("el1d")], *((real("rmin"), real("rmax")) if with_range else ()))
            s = cls.fromConfig(cfg, ConicFoV(0.1))
            s.host = SimpleNamespace(eci_state=np.zeros(6), time=0.0)
            with shadow(sb, getRange=lambda v: real("rng"), getAzimuth=lambda v: real("az"), getElevation=lambda v: real("el"),
                        lineOfSight=lambda a, b: SBool(los)):
                return sb.Sensor.isVisible(s, np.zeros(6), 1.0, 0.2, np.zeros(6))

        results = explore(run, max_paths=1024)
        rep.note(f"{cname}: paths={len(results)}")

        def inputs(m, cname=cname):
            d = {n: mfloat(m, V[n]) for n in names}
            d["los"] = bool(z3.is_true(m.eval(los, model_completion=True)))
            d["cls"] = cname
            return d

        n_vis = 0
        for r in results:
            tag = cname + ":" + "".join("T" if d else "F" for d in r.path.decisions)
            cons = r.constraints + pre
            if r.exc is not None:
                if isinstance(r.exc, ValueError):
                    rep.prove(f"ctor-accepts-documented-masks[{tag}]", z3.BoolVal(False), cons, inputs=inputs, replay=replay_ctor_mask,
                              sample="the constructor does not reject masks inside the documented ranges")
                else:
                    rep.error("exception", f"{tag}: {r.exc!r}")
                continue
            vis, _why = r.out
            visb = bool(vis)
            n_vis += visb
            rep.prove(f"ctor-mask-matches-config[{tag}]", oracle if visb else z3.Not(oracle), cons + robust, inputs=inputs, replay=replay_ctor_mask,
                      sample="sensor built from a configuration: isVisible <=> LoS, elevation inside [e0, e1], azimuth inside the (possibly north-crossing) configured interval")
        if n_vis < 2:
            rep.error("reach", f"{cname}: fewer than two visible paths")
        # reachability twins: a configured mask through north admits an azimuth above its first and one below its second limit
        wrap = pre + robust + [V["az0d"] > V["az1d"] + 1, oracle]
        rep.reachable(f"wrap-high[{cname}]", wrap + [V["az"] >= m0])
        rep.reachable(f"wrap-low[{cname}]", wrap + [V["az"] <= m1])


# ------------------------------------------------------------------------------
# O5 Sun visible fraction: branch structure, domain, deep umbra
# ------------------------------------------------------------------------------
def _lens_area_py(ra, rb, d):
    """Independent float oracle: area common to two discs of radii ra, rb whose centres are d apart (textbook circle-circle
    intersection with the Heron-type kite term)."""
    if d >= ra + rb:
        return 0.0
    if d <= abs(rb - ra):
        return math.pi * min(ra, rb) ** 2
    t1 = ra * ra * math.acos(max(-1.0, min(1.0, (d * d + ra * ra - rb * rb) / (2 * d * ra))))
    t2 = rb * rb * math.acos(max(-1.0, min(1.0, (d * d + rb * rb - ra * ra) / (2 * d * rb))))
    k = (-d + ra + rb) * (d + ra - rb) * (d - ra + rb) * (d + ra + rb)
    return t1 + t2 - 0.5 * math.sqrt(max(k, 0.0))


def _sunfrac_oracle_py(sat, sun):
    """Visible fraction of the Sun's disc by apparent-disc geometry (plus the documented sunward early exit)."""
    from resonaate.physics.bodies import Earth
    from resonaate.physics.bodies.third_body import Sun

    ss = sun - sat
    n_ss, n_sat = math.sqrt(ss @ ss), math.sqrt(sat @ sat)
    a, b = math.asin(min(1.0, Sun.radius / n_ss)), math.asin(min(1.0, Earth.radius / n_sat))
    c = math.atan2(math.sqrt(max((np.cross(-sat, ss) ** 2).sum(), 0.0)), float(-sat @ ss))
    info = {"apparent_sun_radius": a, "apparent_earth_radius": b, "separation": c}
    if math.sqrt(sun @ sun) >= n_ss:
        return 1.0, info, True
    edge = min(abs(c - abs(b - a)), abs(c - (a + b)))
    info["distance_to_region_edge_rad"] = edge
    return 1.0 - _lens_area_py(a, b, c) / (math.pi * a * a), info, edge > 1e-9


def replay_sunfrac(data):
    """Real calculateSunVizFraction on plain floats against the independent disc-overlap oracle."""
    import warnings

    from resonaate.physics import sensor_utils as su

    sat, sun = np.array(data["sat"], dtype=float), np.array(data["sun"], dtype=float)
    exp, info, robust = _sunfrac_oracle_py(sat, sun)
    try:
        with warnings.catch_warnings():
            warnings.simplefilter("ignore")
            with np.errstate(invalid="raise", divide="raise"):  # sqrt / arcsin / arccos outside their domain, division by zero
                got = float(su.calculateSunVizFraction(sat, sun))
    except (FloatingPointError, ZeroDivisionError) as e:
        info.update({"calculateSunVizFraction": f"floating-point exception: {e}", "disc_overlap_oracle": exp})
        return True, info
    bad = (not math.isfinite(got)) or got < -1e-9 or got > 1 + 1e-9 or (robust and abs(got - exp) > 1e-6)
    info.update({"calculateSunVizFraction": got, "disc_overlap_oracle": exp})
    return bool(bad), info


def _sun_inputs_gram(m):
    """Gram entries (|sat|^2, |sun|^2, sat.sun) of a model -> concrete positions."""
    a, b, c = (mfloat(m, z3.Real(n)) for n in ("G_sat_sat", "G_sun_sun", "G_sat_sun"))
    x = c / math.sqrt(a)
    return {"sat": [math.sqrt(a), 0.0, 0.0], "sun": [x, math.sqrt(max(b - x * x, 0.0)), 0.0], "gram": [a, b, c]}


def _positions_from_angles(a, b, c):
    """Satellite / Sun positions whose apparent Sun radius, apparent Earth radius and centre separation are (a, b, c)."""
    from resonaate.physics.bodies import Earth
    from resonaate.physics.bodies.third_body import Sun

    r, dist = Earth.radius / math.sin(b), Sun.radius / math.sin(a)
    sat = np.array([-r, 0.0, 0.0])
    ss = dist * np.array([math.cos(c), math.sin(c), 0.0])
    return sat, sat + ss


def o5_sunfrac(rep):
    from resonaate.physics import sensor_utils as su
    from symx.core import free_vars
    from resonaate.physics.bodies import Earth
    from resonaate.physics.bodies.third_body import Sun

    def run():
        sat, sun = reals("sat", 3), reals("sun", 3)
        d = sun - sat
        cut = GramCut({"sat": sat, "sun": sun}, su.dot, su.norm, prefix="G")
        # norm(sun - sat) and dot(-sat, sun-sat) are matched against polynomials of the Gram entries by the solver
        cut2 = _DiffCut(cut, sat, sun)
        with shadow(su, dot=cut2.dot, norm=cut2.norm, **({"safeArccos": su.arccos} if hasattr(su, "safeArccos") else {})):  # safeArccos == arccos on its domain (clipping only matters for rounding)
            out = su.calculateSunVizFraction(sat, sun)
        return out, cut, cut2

    results = explore(run, max_paths=64, branch_timeout_ms=10000)
    n = 0
    n_axis = 0
    for r in results:
        if r.exc is not None:
            rep.error("exception", repr(r.exc))
            continue
        out, cut, cut2 = r.out
        tag = "".join("T" if d else "F" for d in r.path.decisions)
        a, b, c = cut.G[0][0], cut.G[1][1], cut.G[0][1]  # |sat|^2, |sun|^2, sat.sun

        pre = cut.facts() + [a >= rv(_fr(Earth.radius) ** 2), a + b - 2 * c >= rv(_fr(Sun.radius) ** 2)]  # exact squares of the code's constants
        # the domain conditions met on the way are NOT taken as hypotheses here: they are proved below (domain[...])
        cons = r.constraints + pre
        if cut2.unmatched:
            rep.note(f"unmatched {cut2.unmatched}")
        ot = out.t if isinstance(out, SReal) else rv(out)
        m = rep.reachable(f"path-{tag}", cons, timeout_ms=20000)
        if m is None:
            continue
        n += 1
        # sunward side: |sun| >= |sun - sat|  =>  fraction 1
        rep.prove(f"sunward-full[{tag}]", z3.Implies(b >= a + b - 2 * c, ot == 1), cons, timeout_ms=20000, inputs=_sun_inputs_gram, replay=replay_sunfrac,
                  sample="satellite closer to the Sun than the Earth's centre => fraction 1")
        if z3.is_rational_value(z3.simplify(ot)):
            rep.prove(f"range[{tag}]", z3.And(ot >= 0, ot <= 1), cons, inputs=_sun_inputs_gram, replay=replay_sunfrac, sample="constant branches return 0 or 1")
        # realistic geometry: satellite from the surface to 10.5 Earth radii, Sun at 0.9 AU or farther
        realistic = [a <= rv((10.5 * float(Earth.radius)) ** 2), b >= rv(1.35e8 ** 2)]
        # every sqrt / arcsin / arccos argument and divisor met on this path is inside its domain (the result is a number, not NaN)
        # (conditions over the angle values themselves - the penumbra formula - are O5c's subject: there the angles are solver variables and
        # a counterexample is a faithful geometry, here they are contract-modelled and a model of them would not replay)
        for k, (cond, hyp) in enumerate(r.path.domain_obligations()):
            if any(x.startswith(("asin!", "acos!", "sqrt!")) for x in free_vars(cond)):
                continue
            rep.prove(f"domain[{tag}.{k}]", cond, hyp + pre + realistic, timeout_ms=20000, inputs=_sun_inputs_gram, replay=replay_sunfrac,
                      sample="arguments of sqrt/arcsin/arccos and divisors stay inside their domains for every realistic geometry")
        # deep in the umbra: satellite on the anti-Sun axis behind the Earth => fraction 0
        axis = [c < 0, c * c == a * b]
        if rep.feasible(f"anti-sun-axis-{tag}", cons + realistic + axis) is not None:
            n_axis += 1
        rep.prove(f"umbra-axis-zero[{tag}]", ot == 0, cons + realistic + axis, timeout_ms=30000, inputs=_sun_inputs_gram, replay=replay_sunfrac,
                  sample="satellite on the Earth-Sun line behind the Earth (deep umbra) => fraction 0")
    if n < 3:
        rep.error("reach", f"only {n} feasible branches of calculateSunVizFraction")
    if n_axis < 1:
        rep.error("reach", "no path is compatible with the anti-Sun axis geometry")


def replay_sunfrac_edge(d):
    """Real calculateSunVizFraction at the edge of the umbra: geometry built from the apparent radii (a, b) with c = b - a."""
    import numpy as np

    from resonaate.physics import sensor_utils as su
    from resonaate.physics.bodies import Earth
    from resonaate.physics.bodies.third_body import Sun

    # satellite on the -x axis at distance r from the Earth's centre, Sun in the x-y plane: choose r and the Sun direction so that c = b - a
    r = float(d.get("r", 20000.0))
    sun_dist = 1.495978707e8
    best = None
    b = np.arcsin(Earth.radius / r)
    lo, hi = 0.0, 1.0
    for it in range(201):  # bisection on the Sun's angular offset from the anti-satellite direction; the last evaluation is on the partial side
        th = 0.5 * (lo + hi) if it < 200 else hi
        sat = np.array([-r, 0.0, 0.0])
        sun = sun_dist * np.array([np.cos(th), np.sin(th), 0.0])
        ss = sun - sat
        a = np.arcsin(Sun.radius / np.linalg.norm(ss))
        c = np.arccos(np.dot(-sat, ss) / (np.linalg.norm(sat) * np.linalg.norm(ss)))
        if c < b - a:
            lo = th
        else:
            hi = th
        best = (sat, sun, a, b, c)
    sat, sun, a, b, c = best
    val = float(su.calculateSunVizFraction(sat, sun))
    # just outside the umbra the visible fraction must be (numerically) zero: continuity of the shadow function
    return abs(val) > 1e-3, {"fraction_at_umbra_edge": val, "a": float(a), "b": float(b), "c": float(c), "b_minus_a": float(b - a)}


def o5b_sunfrac_edge(rep):
    """Continuity of the shadow function at the edge of the umbra: with apparent radii a (Sun) <= b (Earth) and separation c = b - a
    the partial-occultation branch returns 0 (and 1 - a^2/b^2-type slips in the normalisation are excluded)."""
    from resonaate.physics import sensor_utils as su

    def run():
        sat, sun = reals("sat", 3), reals("sun", 3)
        angs = []

        def asin_provider(u):
            x = real(f"ang{len(angs)}")
            assume(x.t > 0, x.t < rv(PI_F / 2))
            angs.append(x)
            return x

        state = {"n": 0}
        real_arccos = su.arccos

        def acos_provider(u):
            state["n"] += 1
            if state["n"] == 1:
                x = real("sep")
                assume(x.t >= 0, x.t <= rv(PI_F))
                angs.append(x)
                return x
            return real_arccos(u)

        with shadow(su, arcsin=asin_provider, arccos=acos_provider, **({"safeArccos": acos_provider} if hasattr(su, "safeArccos") else {})):
            out = su.calculateSunVizFraction(sat, sun)
        return out, angs

    results = explore(run, max_paths=64, branch_timeout_ms=10000)
    n = 0
    for r in results:
        if r.exc is not None:
            rep.error("exception", repr(r.exc))
            continue
        out, angs = r.out
        if not isinstance(out, SReal) or z3.is_rational_value(z3.simplify(out.t)):
            continue  # constant branches are O5's subject
        a, b, c = angs[0].t, angs[1].t, angs[2].t
        n += 1
        cons = r.constraints + [b >= a, c == b - a]
        m = rep.reachable("umbra-edge-reachable", cons, timeout_ms=30000)
        if m is None:
            continue
        rep.prove("umbra-edge-zero", out.t == 0, cons, timeout_ms=30000, inputs=lambda mm: {"r": 20000.0}, replay=replay_sunfrac_edge,
                  sample="partial-occultation formula at c = b - a (Sun's disk just fully covered) returns 0: the shadow function is continuous at the umbra edge")
    if n != 1:
        rep.error("reach", f"expected exactly one non-constant branch, got {n}")


# ------------------------------------------------------------------------------
# O5c Sun visible fraction: complete specification over the apparent radii and separation
# ------------------------------------------------------------------------------
def _abc_inputs(m):
    a, b, c = (mfloat(m, z3.Real(n)) for n in ("ang0", "ang1", "sep"))
    sat, sun = _positions_from_angles(a, b, c)
    return {"sat": sat.tolist(), "sun": sun.tolist(), "apparent_sun_radius": a, "apparent_earth_radius": b, "separation": c}


def o5c_sunfrac_exact(rep):
    """With a (apparent Sun radius), b (apparent Earth radius), c (apparent separation of the centres) as solver variables and not on
    the sunward side: result == 0 for c < b - a, == 1 for c >= a + b, and in between == 1 - (area common to the two apparent
    discs)/(area of the Sun's disc), the common area written independently of the code as the sum of the two circular segments
    a^2 (al - sin al cos al) + b^2 (be - sin be cos be) with al, be the triangle angles given by the law of cosines."""
    from resonaate.physics import sensor_utils as su
    from symx.core import free_vars, refute, solve

    hp = rv(PI_F / 2)

    def run():
        sat, sun = reals("sat", 3), reals("sun", 3)
        cut = GramCut({"sat": sat, "sun": sun}, su.dot, su.norm, prefix="G")
        cut2 = _DiffCut(cut, sat, sun)
        angs = []

        def asin_provider(u):
            x = real(f"ang{len(angs)}")
            assume(x.t > 0, x.t < hp)
            angs.append(x)
            return x

        state = {"n": 0}
        real_arccos = su.arccos

        def acos_provider(u):
            state["n"] += 1
            if state["n"] == 1:
                x = real("sep")
                assume(x.t >= 0, x.t <= rv(PI_F))
                angs.append(x)
                return x
            return real_arccos(u)

        with shadow(su, dot=cut2.dot, norm=cut2.norm, arcsin=asin_provider, arccos=acos_provider, **({"safeArccos": acos_provider} if hasattr(su, "safeArccos") else {})):
            out = su.calculateSunVizFraction(sat, sun)
        return out, angs, cut

    results = explore(run, max_paths=64, branch_timeout_ms=10000)
    A, B, C = z3.Real("ang0"), z3.Real("ang1"), z3.Real("sep")
    # apparent Earth disc larger than the apparent Sun disc; c <= 3/2 keeps every counterexample realisable as a non-sunward geometry
    pre = [A > 0, B < hp, B >= A + rv(Fraction_(1, 1000)), C >= 0, C <= rv(Fraction_(3, 2))]
    realistic = [A >= rv(Fraction_(4, 1000)), A <= rv(Fraction_(6, 1000)), B >= rv(Fraction_(9, 100))]
    eps = rv(1e-6)
    robust = [z3.Or(C - (B - A) > eps, (B - A) - C > eps), z3.Or(C - (A + B) > eps, (A + B) - C > eps)]
    n_sun = n_const = n_part = 0
    for r in results:
        if r.exc is not None:
            rep.error("exception", repr(r.exc))
            continue
        out, angs, cut = r.out
        tag = "".join("T" if d else "F" for d in r.path.decisions)
        if len(angs) != 3 or [str(x.t) for x in angs] != ["ang0", "ang1", "sep"]:
            rep.error("shape", f"expected arcsin, arcsin, arccos providers in this order, got {[str(x.t) for x in angs]}")
            continue
        ag, cg = cut.G[0][0], cut.G[0][1]
        ot = out.t if isinstance(out, SReal) else rv(out)
        # the sunward early exit (|sun| >= |sun - sat|  <=>  2 sat.sun >= |sat|^2) is O5's subject
        v = solve(r.constraints + cut.facts() + [2 * cg < ag], 20000)
        if v.status == "unsat":
            n_sun += 1
            continue
        if v.status != "sat":
            rep.undecided(f"non-sunward[{tag}]", "could not decide whether the path is the sunward exit")
            continue

        def untainted(cn):
            return not any(x.startswith(("G_", "nrm_", "sat_", "sun_")) for x in free_vars(cn))

        cons = [cn for cn in r.constraints if untainted(cn)] + pre
        if rep.feasible(f"path-{tag}", cons) is None:
            continue
        if z3.is_rational_value(z3.simplify(ot)):
            n_const += 1
            rep.prove(f"constant-matches-spec[{tag}]", z3.If(C < B - A, ot == 0, z3.If(C >= A + B, ot == 1, False)), cons + robust,
                      inputs=_abc_inputs, replay=replay_sunfrac, sample="a constant 0 is returned only in the umbra (c < b - a), a constant 1 only outside the penumbra (c >= a + b)")
            continue
        n_part += 1
        a, b, c = angs
        code_acos = list(r.path.apps.get("arccos", []))
        code_sqrt = list(r.path.apps.get("sqrt", []))
        rep.prove(f"partial-only-in-penumbra[{tag}]", z3.And(C >= B - A, C < A + B), cons, inputs=_abc_inputs, replay=replay_sunfrac,
                  sample="the lens formula is used only for b - a <= c < a + b")
        # no NaN: every sqrt / arccos argument and divisor of the penumbra formula is inside its domain
        for k, (cond, hyp) in enumerate(r.path.domain_obligations()):
            if not untainted(cond):
                continue
            rep.prove(f"domain[{tag}.{k}]", cond, [h for h in hyp if untainted(h)] + pre, inputs=_abc_inputs, replay=replay_sunfrac,
                      sample="sqrt / arccos arguments and divisors of the penumbra formula are inside their domains")
        # independent oracle on the same path: law-of-cosines angles of the triangle (a, b, c), circular-segment areas
        with resume(r.path):
            ca = (a * a + c * c - b * b) / (2 * a * c)
            cb = (b * b + c * c - a * a) / (2 * b * c)
            al, be = ca.arccos(), cb.arccos()
            sa, sb = al.sin(), be.sin()
            lens = a * a * (al - sa * ca) + b * b * (be - sb * cb)
            oracle = 1 - lens / (SReal(PI_F) * a * a)
        cons = [cn for cn in r.constraints if untainted(cn)] + pre
        # lemma chain (each proved by the solver before it is used): law of sines, projection, and which of the code's own
        # arccos / sqrt values coincide with the oracle's angles / half-chord (arccos is a function: equal arguments, equal values)
        lemmas = [("law-of-sines", a.t * sa.t == b.t * sb.t), ("projection", a.t * ca.t + b.t * cb.t == c.t)]
        for k, (ak, _uk) in enumerate(code_acos):
            lemmas += [(f"code-arccos{k}=alpha", ak == al.t), (f"code-arccos{k}=beta", ak == be.t)]
        for k, (rk, _argk) in enumerate(code_sqrt):
            if untainted(rk == 0):
                lemmas += [(f"code-sqrt{k}=half-chord", rk == a.t * sa.t)]
        # the lemmas are proved once, from the path constraints alone (a weaker hypothesis set than `pre`: faster, and valid a fortiori)
        hyp = [cn for cn in r.constraints if untainted(cn)]
        proven = []
        for nm, lem in lemmas:
            v = refute(lem, hyp, 20000)
            rep._item(f"lemma[{tag}]:{nm}", "lemma", v)
            if v.status == "unsat":
                hyp.append(lem)
                proven.append(lem)
        tol = rv(1e-3)
        near = z3.And(ot - oracle.t <= tol, oracle.t - ot <= tol)
        # first inside the realistic box (Sun's apparent radius ~0.00465 rad, satellite below 11 Earth radii) so that a counterexample
        # is a geometry that occurs in a scenario; then for every 0 < a < b < pi/2
        ok = rep.prove(f"equals-disc-overlap-realistic[{tag}]", near, cons + proven + robust + realistic, timeout_ms=30000, inputs=_abc_inputs, replay=replay_sunfrac,
                       sample="penumbra value == 1 - (area common to the apparent discs of Sun and Earth)/(area of the Sun's disc), realistic radii")
        if ok:
            ok = rep.prove(f"equals-disc-overlap[{tag}]", near, cons + proven + robust, timeout_ms=30000, inputs=_abc_inputs, replay=replay_sunfrac,
                           sample="penumbra value == 1 - (area common to the apparent discs of Sun and Earth)/(area of the Sun's disc)")
        if ok:
            ok = rep.prove(f"equals-disc-overlap-exactly[{tag}]", ot == oracle.t, cons + proven, timeout_ms=30000, inputs=_abc_inputs, replay=replay_sunfrac,
                           sample="the same as an exact identity (no tolerance, no margin to the region edges)")
        if ok:
            # upper end of the range: overlap area >= 0 from  sin t <= t  (t >= 0), instantiated for the two triangle angles
            sin_le = [sa.t <= al.t, sb.t <= be.t]
            rep.prove(f"at-most-one[{tag}]", ot <= 1, cons + proven + sin_le + [ot == oracle.t], timeout_ms=30000,
                      inputs=_abc_inputs, replay=replay_sunfrac, sample="penumbra value <= 1")
        rep.reachable(f"penumbra-interior[{tag}]", cons + robust + [C > B - A, C < A + B], timeout_ms=30000)
    if n_sun < 1 or n_const < 2 or n_part != 1:
        rep.error("reach", f"expected sunward exit, two constant branches and one formula branch; got {n_sun}, {n_const}, {n_part}")


class _DiffCut:
    """dot/norm wrappers that express results over the Gram entries of (sat, sun) also for the difference vector."""

    def __init__(self, cut, sat, sun):
        self.cut = cut
        self.unmatched = []
        a, b, c = cut.G[0][0], cut.G[1][1], cut.G[0][1]
        self.cands = {"sat.sat": a, "sun.sun": b, "sat.sun": c, "|sun-sat|^2": a + b - 2 * c, "-sat.(sun-sat)": a - c, "sat.(sun-sat)": c - a}
        self.poly = {
            "sat.sat": cut.poly[0][0], "sun.sun": cut.poly[1][1], "sat.sun": cut.poly[0][1],
            "|sun-sat|^2": cut.poly[0][0] + cut.poly[1][1] - 2 * cut.poly[0][1], "-sat.(sun-sat)": cut.poly[0][0] - cut.poly[0][1],
            "sat.(sun-sat)": cut.poly[0][1] - cut.poly[0][0],
        }
        self._sq = {}

    def dot(self, x, y, *a, **k):
        from symx.core import cur, refute

        r = self.cut.real_dot(x, y, *a, **k)
        for name, pol in self.poly.items():
            if refute(r.t == pol, cur().assumes, 5000).status == "unsat":
                return SReal(self.cands[name])
        self.unmatched.append(str(r.t)[:60])
        return r

    def norm(self, x, *a, **k):
        from symx.core import cur, refute

        r = self.cut.real_norm(x, *a, **k)
        p = cur()
        for name in ("sat.sat", "sun.sun", "|sun-sat|^2"):
            if refute(r.t * r.t == self.poly[name], p.assumes, 5000).status == "unsat":
                if name not in self._sq:
                    s = z3.Real("nrm_" + name.replace("|", "").replace("^2", "").replace(".", "_").replace("-", "m"))
                    p.assume(z3.And(s > 0, s * s == self.cands[name]))
                    self._sq[name] = s
                return SReal(self._sq[name])
        self.unmatched.append(str(r.t)[:60])
        return r


# ------------------------------------------------------------------------------
# O6 Earth limb
# ------------------------------------------------------------------------------
def replay_limb(data):
    from resonaate.physics import sensor_utils as su
    from resonaate.physics.bodies import Earth

    d, sinel = data["d"], data["sin_el"]
    sensor = np.array([d, 0, 0, 0, 0, 0.0])
    tgt = np.array([math.sqrt(max(0.0, 1 - sinel ** 2)), 0.0, sinel, 0, 0, 0]) * 500.0
    got = bool(su.checkSpaceSensorEarthLimbObscuration(sensor, tgt))
    rl = Earth.radius + Earth.atmosphere
    exp = sinel < -math.sqrt(1 - (rl / d) ** 2)
    return got != exp, {"obscured": got, "tangent_cone_test": exp}


def o6_limb(rep):
    from resonaate.physics import sensor_utils as su
    from resonaate.physics.bodies import Earth

    rl = rv(float(Earth.radius + Earth.atmosphere))
    hp = rv(PI_F / 2)

    def run():
        d = real("d")
        se = real("sin_el")
        el = se.arcsin()  # target elevation as an angle in [-pi/2, pi/2] with sine `sin_el`
        with shadow(su, getElevation=lambda v: el, norm=lambda v: d):
            out = su.checkSpaceSensorEarthLimbObscuration(np.zeros(6), np.zeros(6))
        return out, d, el, se

    results = explore(run, max_paths=8)
    n = 0
    for r in results:
        if r.exc is not None:
            rep.prove("raise-only-below-limb", z3.Real("d") < rl, r.constraints, sample="ValueError only when the observer is below the limb radius")
            continue
        out, d, el, se = r.out
        lams = [a for a, u in r.path.apps.get("arcsin", []) if a.get_id() != el.t.get_id()]
        if len(lams) != 1:
            rep.error("shape", f"expected exactly one arcsin inside the limb test, got {len(lams)}")
            continue
        lam = lams[0]
        with resume(r.path):
            sin_limb = (SReal(lam) - SReal(PI_F / 2)).sin().t  # = -cos(lam) = -sqrt(1-(rl/d)^2) by the angle algebra
        # sin is strictly increasing on [-pi/2, pi/2]: instantiated for the pair (limb elevation, target elevation)
        mono = [((lam - hp) > el.t) == (sin_limb > se.t)]
        cons = r.constraints + mono + [d.t >= rl, se.t >= -1, se.t <= 1]
        if rep.feasible("path", cons) is None:
            continue
        n += 1
        s = z3.Real("sq")
        inputs = lambda m: {"d": mfloat(m, d.t), "sin_el": mfloat(m, se.t)}  # noqa: E731
        rep.prove("tangent-cone", _tb(out) == (se.t < -s), cons + [s >= 0, s * s == 1 - (rl / d.t) * (rl / d.t)], inputs=inputs, replay=replay_limb, perturb=[se.t],
                  sample="obscured <=> sin(el) < -sqrt(1-(R_limb/d)^2)")
    if n == 0:
        rep.error("reach", "no path")


REPLAYS = {"O5b": replay_sunfrac_edge, "O4b": replay_ctor_mask, "O4b-range": replay_ctor_mask, "O5": replay_sunfrac, "O5c": replay_sunfrac, "O1": replay_los, "O2": replay_conic, "O3": replay_rect, "O3b": replay_azel, "O4": replay_mask, "O6": replay_limb}


def obligations(tier):
    extra = []
    if tier == "thorough":
        extra = [Ob("O4b-range", lambda rep: o4b_ctor_masks(rep, with_range=True),
                    "as O4b with the configured minimum/maximum range as solver variables", 600)]
    return extra + [
        Ob("O1", o1_los, "lineOfSight == exact segment-vs-sphere test, symmetric", 120),
        Ob("O2", o2_conic, "conic FoV reflexive, rotation invariant, <=> normalised dot >= cos(cone/2)", 120),
        Ob("O3", o3_rect, "rectangular FoV reflexive and invariant under common azimuth rotation incl. the seam", 180),
        Ob("O3b", o3b_azel, "getAzimuth/getElevation ranges and direction", 180),
        Ob("O4", o4_masks, "az/el/range masks incl. wrapping", 120),
        Ob("O4b", o4b_ctor_masks, "masks given to the sensor constructors (fromConfig, degrees) keep their meaning, incl. masks through north", 180),
        Ob("O5b", o5b_sunfrac_edge, "Sun fraction continuous at the umbra edge", 300),
        Ob("O5", o5_sunfrac, "Sun fraction: sunward side 1, deep umbra 0, constant branches in range, no NaN for realistic geometry", 180),
        Ob("O5c", o5c_sunfrac_exact, "Sun fraction == 1 - disc overlap / Sun disc over (apparent radii, separation): umbra 0, penumbra lens area, outside 1", 240),
        Ob("O6", o6_limb, "Earth limb == tangent cone", 120),
    ]

LEVEL_TEXT = ("Bounded symbolic verification: the real predicates (lineOfSight, conic/rectangular FoV, az/el/range masks, Sun-fraction branch "
              "structure and penumbra value, sensor constructors' mask hand-over, Earth-limb test, getAzimuth/getElevation) are executed on solver variables; for every path z3 proves the geometric "
              "oracle (unsat) for all real-valued inputs in the stated ranges, or returns a model that is replayed on the float code. "
              "Right level because the interesting inputs (seam, tangency, wrapping masks) are measure-thin regions sampling does not hit.")
LEVEL_NOTE = ("Real arithmetic instead of doubles (rounding outside the claim); contracts for sqrt/arccos/arcsin/arctan2 (angle algebra, monotonicity "
              "instances); O3/O4/O4b use providers for az/el/range/LoS primitives (each checked separately in O1/O3b); the penumbra value is proved equal to the "
              "circular-segment form of the disc overlap over the apparent radii/separation (its lower bound 0 then rests on geometry, not on a solver verdict).")


BOUNDS["conic field of view"] = "6-element SEZ states with symbolic velocity halves (their Gram entries are cut variables too): membership must not depend on them"
