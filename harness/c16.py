"""C16 - filter updates invariant to angle representation and observation order."""
from __future__ import annotations

import math

import numpy as np
import z3

import symx.ext_c16 as X
from symx.core import (PI_F, TWOPI_F, SReal, assume, cur, eq_arrays, explore, free_vars, identify_lemma, integer, marray, mfloat, mval, real,
                       reals, refute, resume, rv, slice_for, trig)
from symx.runner import Ob, _jsonable
from symx.stubs import shadow as X_shadow

ID = "C16"
TECHNIQUE = ("symbolic execution of the real wrapping / residual / circular-mean helpers and of the real UnscentedKalmanFilter predict/forecast/update "
             "(calculateMeasurementMatrix, calcMeasurementMean, _calcMeasurementSigmaPoints) on z3 proxies: angles are solver reals, turn counts solver "
             "integers, the measurement function an uninterpreted angle field, wrap-point offsets solver reals; the filter is run on a configuration and on "
             "the same configuration in another representation / observation order / on a filter object that has already served other forecast()/update() calls, and z3 decides equality of innovation, est_x, est_p "
             "(unsat = holds for every angle, turn count, offset, prior and noise within the bounds)")
FLOAT_SEMANTICS = "Real-ideal: pi is the code's double constant; fmod/remainder are exact truncated/floored remainders"
ENCODED = [
    "resonaate.physics.maths:wrapAngle2Pi", "resonaate.physics.maths:wrapAngleNegPiPi", "resonaate.physics.maths:residual",
    "resonaate.physics.maths:residuals", "resonaate.physics.maths:vecWrapAngleNeg", "resonaate.physics.maths:vecWrapAngle2Pi",
    "resonaate.physics.maths:vecResiduals", "resonaate.physics.maths:angularMean",
    "resonaate.estimation.kalman.unscented_kalman_filter:UnscentedKalmanFilter.__init__",
    "resonaate.estimation.kalman.unscented_kalman_filter:UnscentedKalmanFilter.generateSigmaPoints",
    "resonaate.estimation.kalman.unscented_kalman_filter:UnscentedKalmanFilter.predict",
    "resonaate.estimation.kalman.unscented_kalman_filter:UnscentedKalmanFilter._calcMeasurementSigmaPoints",
    "resonaate.estimation.kalman.unscented_kalman_filter:UnscentedKalmanFilter.calcMeasurementMean",
    "resonaate.estimation.kalman.unscented_kalman_filter:UnscentedKalmanFilter.calculateMeasurementMatrix",
    "resonaate.estimation.kalman.unscented_kalman_filter:UnscentedKalmanFilter.forecast",
    "resonaate.estimation.kalman.unscented_kalman_filter:UnscentedKalmanFilter.update",
    "resonaate.estimation.particle.genetic_particle_filter:GeneticParticleFilter.forecast",
    "resonaate.estimation.particle.genetic_particle_filter:GeneticParticleFilter.calculateResidualsFromObservations",
]
BOUNDS = {"angles": "helpers: any real in [-1e7, 1e7] incl. exact multiples of pi; UKF obligations: sigma-point angles, measured angles and wrap-point offsets c any real in [-100, 100]",
          "turns": "|k| <= 1e6, one independent turn count per sigma-point angle and per measured angle",
          "angularMean": "2-3 angles, arbitrary (also negative) weights with non-degenerate resultant",
          "UKF": "state dimension 1-2 (3-5 sigma points), symbolic prior x, P = L L^T, F, Q, noise R = Lr Lr^T (correlated within an observation); tunings (alpha,beta,kappa) = (1,2,2) "
                 "[positive weights] and (0.5,2,1) [negative centre weight]; with and without sigma-point redraw; O5: one observation of 1-2 components (angle valid in [0,2pi) / angle "
                 "valid in [-pi,pi) / linear row / arbitrary non-angular function), the angular measurement function is arbitrary (one free angle per sigma point; in the *-const cases "
                 "one common angle for all sigma points); O6: two (thorough: three, state dimension 1) stacked single-component observations, the listed permutations; "
                 "O7: one filter object, after one predict(): one or two earlier forecast()/update() calls, then the update() that is checked; stacks of 2-3 components with the same total "
                 "dimension but another order / composition of angular and plain components (the listed sequences)"}
OUTSIDE = ["double rounding in fmod/remainder (an angle within 1 ulp of the seam) and in the filter algebra ('up to rounding' in the property is not quantified)",
           "state dimensions above 2; more than three stacked observations (property text: up to four), three stacked observations for state dimension 2 (the 3x3 adjugate identity for est_p did not decide within 25 min); symbolic tuning constants in the update obligations",
           "degenerate weighted resultant sum_j w_j (cos, sin)(theta_j) = 0 (numpy's arctan2(0, 0) = 0 carries no direction; possible with a negative centre weight)",
           "singular innovation covariance",
           "genetic particle filter: forecast() is executed (O8: residual rows, weight exponents, normalised scores, both list orders; 2 particles, state dimension 2, two single-component observations "
           "(a 2-component observation with correlated noise was not decided within budget) with linear measurement rows, exp cut to a positive value per call); its random resampling/crossover, predict() and the innovation/NIS bookkeeping of update() are not",
           "that the rotated configuration's measured angle is congruent to y + c is an input relation, not derived from a sensor model",
           "filter objects reused across several predict() steps (O7 re-uses the object within one step: the posterior of an update is a rational function whose Cholesky factor is not "
           "available symbolically); stale state other than what update() publishes (mean_pred_y, sigma_y_res, innovation, est_x, est_p, is_angular)",
           "the exact-seam behaviour of residual() is established for residual()/residuals() themselves (O2, O2s, O3); the UKF obligations use the contract of residual(), so an "
           "innovation of exactly -pi produced inside update() is excluded by composition, not by a separate UKF-level query"]
ASSUMPTIONS = ["numpy.fmod = truncated remainder, numpy.remainder / % = floored remainder (contract: r = a - m*k, range by sign rule)",
               "arctan2 modelled by its (cos,sin) pair, range (-pi,pi] and quadrant facts; equal (cos,sin) => equal angle mod 2pi (instantiated per pair)",
               "pi identified with const.PI",
               "UKF obligations: arctan2 -> symx.ext_c16.Atan2Cut (fresh angle in (-pi,pi] + fresh unit vector constrained to be the positive direction of (x, y); pure; "
               "atan2(r sin u, r cos u) = u mod 2pi for a single known angle u); its polynomial facts are handed to the solver only in the ring-identity stages",
               "UKF obligations: maths.residual -> its contract (ResidualCut: angular -> r in (-pi,pi], r = a - b - 2 pi n; else a - b); the contract is what O2 proves of the real residual()",
               "UKF obligations: inv -> adjugate formula (m <= 3, exact), cholesky(M) -> the factor M was built from after the solver proved M = L L^T, zeros/ones/full/array -> object arrays",
               "UKF obligations: dynamics.propagate = F X (duck-typed), measurement = arbitrary angle per sigma point (uninterpreted function realised as a memo on the state terms) or linear row",
               "staged proofs: (1) ring identities about the weighted resultant, (2) an abstract 6-variable lemma on unit vectors, (3) linear mixed integer/real reasoning on angles using the "
               "congruence obtained from (1)+(2) and the trusted fact 'equal (cos,sin) => equal mod 2pi', (4) equality of est_x / est_p from the equalities proved in (3); every stage is a solver query",
               "branch feasibility during path exploration of the UKF runs is decided on the linear constraints only (over-approximation: no feasible path is lost)",
               "integer hints N := k - ident - n_B + n_A are definitional extensions (fresh integer defined by an equation)",
               "counterexample selection (O2, O2s, O3, and the pinned searches of the UKF obligations): when a goal is refutable, models of the same query restricted by partial "
               "concretisations (operands inside one turn, one operand 0 or pi, no extra turns; generic rational prior) are tried first and the first one whose replay on doubles reproduces is "
               "reported; the verdict itself is that of the unrestricted query",
               "O7: the earlier forecast()/update() calls and the checked update() see the same predicted state (forecast()/update() do not modify pred_x, pred_p, sigma points; with redraw the "
               "sigma points are regenerated from the same pred_x, pred_p): the memoised stubs (arctan2 cut, residual contract, angle field) then return the same terms for the same arguments"]
LEVEL_TEXT = ("Bounded symbolic verification of the angle helpers and of the UKF measurement update's angle handling: every wrap/residual/circular-mean identity and every "
              "representation/seam/order invariance of the update is an SMT query over real angles, integer turn counts, real wrap-point offsets and a symbolic prior; seam values "
              "and seam-straddling sigma-point sets are ordinary points of the domain, so they are covered, which no sampled test does.")
LEVEL_NOTE = ("Real arithmetic (no rounding); contracts for fmod/remainder/arctan2/residual/inv/cholesky; small state dimensions; arbitrary (uninterpreted) angular measurement function "
              "and duck-typed linear dynamics; composition of staged solver proofs.")

PI, TWOPI = rv(PI_F), rv(TWOPI_F)
BIG = 10 ** 7


def _congruent(path, res, a):
    """res == a (mod 2 pi): witnessed by the turn counts of the fmod/remainder contracts on the path, +-1, +-2."""
    ks = [k for (_r, k, _a, m) in path.apps.get("mod", [])]
    alts = []
    import itertools
    for n in range(0, min(len(ks), 3) + 1):
        for sub in itertools.combinations(ks, n):
            for signs in itertools.product((1, -1), repeat=n):
                base = sum((sg * z3.ToReal(k) for sg, k in zip(signs, sub)), z3.RealVal(0))
                for d in (-2, -1, 0, 1, 2):
                    alts.append(res - a == TWOPI * (base + d))
    return z3.Or(*alts)


def _congruent_first3(path, res, a, n0=3):
    """congruence witnessed by the first n0 fmod/remainder turn counts of the path (those of the first residual call, however many it makes)"""
    import itertools
    ks = [k for (_r, k, _a, m) in path.apps.get("mod", [])][:n0]
    alts = []
    for signs in itertools.product((1, -1), repeat=len(ks)):
        base = sum((sg * z3.ToReal(k) for sg, k in zip(signs, ks)), z3.RealVal(0))
        for d in (-2, -1, 0, 1, 2):
            alts.append(res - a == TWOPI * (base + d))
    return z3.Or(*alts)


# ---------------------------------------------------------------------------------------
def replay_wrap(d):
    from resonaate.physics import maths as M

    a = d["a"]
    w2, wn = float(M.wrapAngle2Pi(a)), float(M.wrapAngleNegPiPi(a))
    tp = 2 * math.pi
    bad = not (0 <= w2 < tp) or not (-math.pi < wn <= math.pi)
    for w in (w2, wn):
        k = round((w - a) / tp)
        bad = bad or abs(w - a - k * tp) > 1e-9 * max(1, abs(a))
    return bad, {"wrapAngle2Pi": w2, "wrapAngleNegPiPi": wn}


def o1_wrap(rep):
    from resonaate.physics import maths as M

    def run():
        a = real("a")
        assume(a.t >= -BIG, a.t <= BIG)
        return a, M.wrapAngle2Pi(a), M.wrapAngleNegPiPi(a)

    res = explore(run, max_paths=32)
    inputs = lambda m: {"a": mfloat(m, z3.Real("a"))}  # noqa: E731
    for r in res:
        if r.exc is not None:
            rep.error("exception", repr(r.exc))
            continue
        a, w2, wn = r.out
        tag = "".join("T" if d else "F" for d in r.path.decisions)
        rep.feasible(f"path-{tag}", r.constraints)
        rep.prove(f"2pi-range[{tag}]", z3.And(w2.t >= 0, w2.t < TWOPI), r.constraints, inputs=inputs, replay=replay_wrap, sample="wrapAngle2Pi(a) in [0, 2pi)")
        rep.prove(f"2pi-congruent[{tag}]", _congruent(r.path, w2.t, a.t), r.constraints, inputs=inputs, replay=replay_wrap,
                  sample="wrapAngle2Pi(a) = a - 2 pi j for an integer j")
        rep.prove(f"negpipi-range[{tag}]", z3.And(wn.t > -PI, wn.t <= PI), r.constraints, inputs=inputs, replay=replay_wrap, sample="wrapAngleNegPiPi(a) in (-pi, pi]")
        rep.prove(f"negpipi-congruent[{tag}]", _congruent(r.path, wn.t, a.t), r.constraints, inputs=inputs, replay=replay_wrap,
                  sample="wrapAngleNegPiPi(a) = a - 2 pi j for an integer j")
    if len(res) < 4:
        rep.error("reach", "expected >= 4 paths")
    # seam points are inside the domain: reachability twins
    rep.reachable("seam-pi", [z3.Real("a") == PI])
    rep.reachable("seam-many-turns", [z3.Real("a") == PI + TWOPI * 1000])


# ---------------------------------------------------------------------------------------
def replay_residual(d):
    from resonaate.physics import maths as M

    a, b, j, k = d["a"], d["b"], d["j"], d["k"]
    tp = 2 * math.pi
    r0 = float(M.residual(a, b, True))
    r1 = float(M.residual(a + tp * j, b + tp * k, True))
    lin = float(M.residual(a, b, False))
    bad = not (-math.pi < r0 <= math.pi) or abs(lin - (a - b)) > 0
    # shifted result may differ by rounding only
    dd = abs(r0 - r1)
    bad = bad or min(dd, abs(dd - tp)) > 1e-6
    return bad, {"residual": r0, "residual_shifted": r1, "linear": lin}


def _seam_pins(a, b, ints=()):
    """partial concretisations tried first when a residual obligation has a counterexample: operands inside one turn with one
    of them on a value that doubles represent exactly, no extra turns - a counterexample exactly on the seam then survives the
    conversion to doubles (wrapAngle2Pi is exact on [0, 2pi), the difference of 0 and pi is exact)"""
    zero = [k == 0 for k in ints]
    inturn = [a >= 0, a < TWOPI, b >= 0, b < TWOPI]
    return [zero + inturn + [a == 0], zero + inturn + [b == 0], zero + inturn + [a == PI], zero + inturn + [b == PI], zero + inturn, zero]


def _prove_pick(rep, label, goal, cons, pinsets, inputs, replay, timeout_ms=30000, sample=None):
    """The verdict is that of `goal` under `cons`.  When it is `sat` the model reported is chosen among the models of
    cons + (one of the partial concretisations `pinsets`): the first one whose replay on the real code (doubles) reproduces.
    Only if none does, the unpinned query is reported through Report.prove (whose replay then decides)."""
    v = refute(goal, cons, timeout_ms)
    if v.status != "sat":
        _record(rep, label, v, sample)
        if v.status == "unknown" and rep.status == "ok":
            rep.status = "undecided"
        return v.status == "unsat"
    for pins in pinsets:
        vp = refute(goal, list(cons) + list(pins), 5000)
        if vp.status != "sat":
            continue
        data = inputs(vp.model)
        try:
            bad, detail = replay(data)
        except Exception as e:  # noqa: BLE001
            bad, detail = False, repr(e)
        if bad:
            return rep.prove(label, goal, list(cons) + list(pins), timeout_ms=timeout_ms, inputs=inputs, replay=replay, sample=sample)
    return rep.prove(label, goal, cons, timeout_ms=timeout_ms, inputs=inputs, replay=replay, sample=sample)


def replay_residual1(d):
    """one call of residuals() / residual() on doubles: the angular component is in (-pi, pi] (exactly: -pi is outside) and
    congruent to the plain difference, the helpers agree with each other, the non-angular component is the plain difference"""
    from resonaate.physics import maths as M

    a, b = d["a"], d["b"]
    tp = 2 * math.pi
    r0 = float(M.residual(a, b, True))
    lin = float(M.residual(a, b, False))
    vec = [float(v) for v in M.residuals(np.array([a, a]), np.array([b, b]), np.array([True, False]))]
    wn = float(M.wrapAngleNegPiPi(a - b))
    bad = not (-math.pi < r0 <= math.pi) or not (-math.pi < vec[0] <= math.pi) or lin != a - b or vec[1] != a - b
    tol = 1e-9 * max(1.0, abs(a), abs(b))
    k = round((r0 - (a - b)) / tp)
    bad = bad or abs(r0 - (a - b) - k * tp) > tol
    # the helpers may differ by rounding only (a turn apart when rounding pushes one of them across the seam)
    for other in (wn, vec[0]):
        dd = abs(r0 - other)
        bad = bad or min(dd, abs(dd - tp)) > tol
    return bad, {"residual": r0, "wrapAngleNegPiPi(a-b)": wn, "residuals": vec, "linear": lin}


def o2s_residual_single(rep):
    """one angular and one plain component through residuals() (which calls the real residual() per component): the angular
    residual is in (-pi, pi] - the closed end is +pi - and congruent to a - b (hence equal to wrapAngleNegPiPi(a - b), whose
    range and congruence O1 proves); the non-angular one is a - b.  Seam values are ordinary points of the domain."""
    from resonaate.physics import maths as M

    def run():
        a, b = real("a"), real("b")
        assume(a.t >= -BIG, a.t <= BIG, b.t >= -BIG, b.t <= BIG)
        vec = M.residuals(np.array([a, a], dtype=object), np.array([b, b], dtype=object), np.array([True, False]))
        lin = M.residual(a, b, False)
        return a, b, vec, lin

    res = explore(run, max_paths=64, branch_timeout_ms=10000)
    rep.note(f"paths={len(res)}")

    def inputs(m):
        return {"a": mfloat(m, z3.Real("a")), "b": mfloat(m, z3.Real("b"))}

    A, B = z3.Real("a"), z3.Real("b")
    pinsets = _seam_pins(A, B)
    for r in res:
        if r.exc is not None:
            rep.error("exception", repr(r.exc))
            continue
        a, b, vec, lin = r.out
        r0 = _real_of(vec[0])
        tag = "".join("T" if d else "F" for d in r.path.decisions)
        kw = dict(inputs=inputs, replay=replay_residual1, timeout_ms=10000)
        _prove_pick(rep, f"range[{tag}]", z3.And(r0 > -PI, r0 <= PI), r.constraints, pinsets, sample="angular residual in (-pi, pi] for all reals, exact seam included", **kw)
        _prove_pick(rep, f"congruent[{tag}]", _congruent_first3(r.path, r0, a.t - b.t, 4), r.constraints, pinsets, sample="angular residual == a - b (mod 2pi)", **kw)
        _prove_pick(rep, f"linear[{tag}]", z3.And(lin.t == a.t - b.t, _real_of(vec[1]) == a.t - b.t), r.constraints, pinsets, sample="non-angular residual is the plain difference", **kw)
    if len(res) < 8:
        rep.error("reach", "too few paths")
    # vacuity: both ends of the seam are inside the domain of some explored path (difference of the wrapped operands exactly -pi / +pi, many turns apart)
    from symx.core import solve

    for nm, c in (("seam-minus-pi", [A == 0, B == PI]), ("seam-plus-pi", [A == PI, B == 0]), ("seam-minus-pi-many-turns", [A == TWOPI * 1000, B == PI - TWOPI * 7])):
        hit = next((r for r in res if r.exc is None and solve(list(r.constraints) + c, 5000).status == "sat"), None)
        if hit is None:
            rep.error(nm, "no explored path contains this seam point")
        else:
            rep.reachable(nm, list(hit.constraints) + c)


def o2_residual(rep):
    from resonaate.physics import maths as M

    def run():
        a, b = real("a"), real("b")
        j, k = integer("j"), integer("k")
        assume(a.t >= -BIG, a.t <= BIG, b.t >= -BIG, b.t <= BIG, j.t >= -10 ** 6, j.t <= 10 ** 6, k.t >= -10 ** 6, k.t <= 10 ** 6)
        r0 = M.residual(a, b, True)
        n0 = len(cur().apps.get("mod", []))  # remainder operations of the first call
        r1 = M.residual(a + TWOPI_F * j, b + TWOPI_F * k, True)
        lin = M.residual(a, b, False)
        return a, b, r0, r1, lin, n0

    res = explore(run, max_paths=400, branch_timeout_ms=10000)
    rep.note(f"paths={len(res)}")

    def inputs(m):
        return {"a": mfloat(m, z3.Real("a")), "b": mfloat(m, z3.Real("b")), "j": mval(m, z3.Int("j")), "k": mval(m, z3.Int("k"))}

    for r in res:
        if r.exc is not None:
            rep.error("exception", repr(r.exc))
            continue
        a, b, r0, r1, lin, n0 = r.out
        tag = "".join("T" if d else "F" for d in r.path.decisions)
        goal = z3.And(r0.t == r1.t, r0.t > -PI, r0.t <= PI, lin.t == a.t - b.t)
        pinsets = _seam_pins(z3.Real("a"), z3.Real("b"), (z3.Int("j"), z3.Int("k")))
        _prove_pick(rep, f"congruent[{tag}]", _congruent_first3(r.path, r0.t, a.t - b.t, n0), r.constraints, pinsets, inputs, replay_residual, timeout_ms=10000,
                    sample="residual(a,b) == a - b (mod 2pi)")
        _prove_pick(rep, f"turn-invariant+range[{tag}]", goal, r.constraints, pinsets, inputs, replay_residual, timeout_ms=10000,
                    sample="residual(a+2pi j, b+2pi k) == residual(a,b) in (-pi,pi], congruent to a-b")
    if len(res) < 8:
        rep.error("reach", "too few paths")


# ---------------------------------------------------------------------------------------
def replay_vec(d):
    from resonaate.physics import maths as M

    x, y = np.array(d["x"]), np.array(d["y"])
    ang = np.array(d["ang"], dtype=bool)
    v = M.vecResiduals(x, y, ang)
    s = M.residuals(x, y, ang)
    tp = 2 * math.pi
    bad = False
    for i in range(len(x)):
        if ang[i]:
            dd = abs(v[i] - s[i])
            if min(dd, abs(dd - tp)) > 1e-9:
                bad = True
            if not (-math.pi < v[i] <= math.pi) or not (-math.pi < s[i] <= math.pi):
                bad = True
        elif v[i] != s[i]:
            bad = True
    return bad, {"vecResiduals": v.tolist(), "residuals": s.tolist()}


def o3_vec(rep):
    from resonaate.physics import maths as M

    def run():
        x, y = reals("x", 2), reals("y", 2)
        for v in list(x) + list(y):
            # vecResiduals is applied to outputs of measurement functions: one turn around the principal range
            assume(v.t >= -TWOPI, v.t <= 2 * TWOPI)
        ang = np.array([True, False])
        v = M.vecResiduals(x, y, ang)
        s = M.residuals(x, y, ang)
        return x, y, v, s

    res = explore(run, max_paths=400)
    rep.note(f"paths={len(res)}")

    def inputs(m):
        return {"x": [mfloat(m, z3.Real(f"x_{i}")) for i in range(2)], "y": [mfloat(m, z3.Real(f"y_{i}")) for i in range(2)], "ang": [True, False]}

    for r in res:
        if r.exc is not None:
            rep.error("exception", repr(r.exc))
            continue
        x, y, v, s = r.out
        tag = "".join("T" if d else "F" for d in r.path.decisions)
        goal = z3.And(v[0].t == s[0].t, v[0].t > -PI, v[0].t <= PI, s[0].t > -PI, s[0].t <= PI, v[1].t == s[1].t, v[1].t == x[1].t - y[1].t)
        _prove_pick(rep, f"vec==scalar+range[{tag}]", goal, r.constraints, _seam_pins(z3.Real("x_0"), z3.Real("y_0")), inputs, replay_vec,
                    sample="vecResiduals == residuals, angular component of both in (-pi, pi]")
    rep.reachable("seam", [z3.Real("x_0") - z3.Real("y_0") == PI])


# ---------------------------------------------------------------------------------------
def replay_mean(d):
    from resonaate.physics import maths as M

    al, w, ks = np.array(d["alpha"]), np.array(d["w"]), np.array(d["k"])
    tp = 2 * math.pi
    m0 = float(M.angularMean(al, w))
    m1 = float(M.angularMean(al + tp * ks, w))
    m2 = float(M.angularMean(al, w, high=math.pi, low=-math.pi))
    bad = not (0 <= m0 < tp) or not (-math.pi <= m2 < math.pi + 1e-12)
    dd = abs(m0 - m1)
    bad = bad or min(dd, abs(dd - tp)) > 1e-6
    dd = abs((m0 - m2) % tp)
    bad = bad or min(dd, abs(dd - tp)) > 1e-6
    return bad, {"mean_0_2pi": m0, "mean_shifted": m1, "mean_negpi_pi": m2}


def o4_mean(rep, n=3):
    from resonaate.physics import maths as M

    def run():
        al = reals("al", n)
        w = reals("w", n)
        ks = np.array([integer(f"k_{i}") for i in range(n)], dtype=object)
        for i in range(n):
            assume(al[i].t >= -BIG, al[i].t <= BIG, ks[i].t >= -10 ** 6, ks[i].t <= 10 ** 6, w[i].t >= -10, w[i].t <= 10)
        assume(z3.Or(*[w[i].t != 0 for i in range(n)]))
        shifted = np.array([al[i] + TWOPI_F * ks[i] for i in range(n)], dtype=object)
        m0 = M.angularMean(al, w)
        m1 = M.angularMean(shifted, w)
        m2 = M.angularMean(al, w, high=math.pi, low=-math.pi)
        return al, w, ks, m0, m1, m2

    res = explore(run, max_paths=200, branch_timeout_ms=10000)
    rep.note(f"paths={len(res)}")

    def inputs(m):
        return {"alpha": [mfloat(m, z3.Real(f"al_{i}")) for i in range(n)], "w": [mfloat(m, z3.Real(f"w_{i}")) for i in range(n)],
                "k": [mval(m, z3.Int(f"k_{i}")) for i in range(n)]}

    ok = 0
    for r in res:
        if r.exc is not None:
            rep.error("exception", repr(r.exc))
            continue
        al, w, ks, m0, m1, m2 = r.out
        tag = "".join("T" if d else "F" for d in r.path.decisions)
        # resultant must not be degenerate (documented: atan2(0,0) carries no direction)
        at = r.path.apps.get("arctan2", [])
        if len(at) < 1:
            # all three calls hit atan2(0,0): degenerate resultant, excluded
            continue
        ok += 1
        cons = list(r.constraints)
        rep.prove(f"turn-invariant[{tag}]", m0.t == m1.t, cons, timeout_ms=60000, inputs=inputs, replay=replay_mean,
                  sample="angularMean(alpha + 2 pi k, w) == angularMean(alpha, w)")
        rep.prove(f"range[{tag}]", z3.And(m0.t >= 0, m0.t < TWOPI), cons, timeout_ms=60000, inputs=inputs, replay=replay_mean,
                  sample="angularMean in [0, 2pi) for the default wrap point")
    if ok == 0:
        rep.error("reach", "no non-degenerate path")


def o4b_mean_wrappoint(rep, n=2):
    """[0,2pi) and (-pi,pi] wrap points give the same mean modulo a turn."""
    from resonaate.physics import maths as M

    def run():
        al = reals("al", n)
        w = reals("w", n)
        for i in range(n):
            assume(al[i].t >= -BIG, al[i].t <= BIG, w[i].t >= -10, w[i].t <= 10)
        m0 = M.angularMean(al, w)
        m2 = M.angularMean(al, w, high=math.pi, low=-math.pi)
        at = cur_apps("arctan2")
        lem = None
        if len(at) == 2:
            # trusted: equal (cos, sin) => equal angle mod 2pi, instantiated for (beta2, beta1 + pi)
            lem = identify_lemma(SReal(at[1][0]), SReal(at[0][0]) + PI_F)
        return al, w, m0, m2, lem

    def cur_apps(kind):
        from symx.core import cur

        return cur().apps.get(kind, [])

    res = explore(run, max_paths=200, branch_timeout_ms=10000)

    def inputs(m):
        return {"alpha": [mfloat(m, z3.Real(f"al_{i}")) for i in range(n)], "w": [mfloat(m, z3.Real(f"w_{i}")) for i in range(n)], "k": [0] * n}

    ok = 0
    for r in res:
        if r.exc is not None:
            rep.error("exception", repr(r.exc))
            continue
        al, w, m0, m2, lem = r.out
        if len(r.path.apps.get("arctan2", [])) != 2:
            continue
        ok += 1
        tag = "".join("T" if d else "F" for d in r.path.decisions)
        d = m0.t - m2.t
        prem, concl = lem
        if not rep.prove(f"lemma-premise[{tag}]", prem, slice_for(prem, r.constraints), timeout_ms=60000,
                         sample="atan2(-S,-C) and atan2(S,C)+pi have equal cosine and sine (ring identity)"):
            continue
        rep.prove(f"wrap-point-agree[{tag}]", z3.Or(d == 0, d == TWOPI, d == -TWOPI), r.constraints + [concl], timeout_ms=60000, inputs=inputs, replay=replay_mean,
                  sample="mean with wrap point 0/2pi == mean with wrap point -pi/pi (mod 2pi)")
        rep.prove(f"range-negpipi[{tag}]", z3.And(m2.t >= -PI, m2.t < PI), r.constraints, timeout_ms=60000, inputs=inputs, replay=replay_mean,
                  sample="angularMean(low=-pi, high=pi) in [-pi, pi)")
    if ok == 0:
        rep.error("reach", "no non-degenerate path")


# =======================================================================================
# UKF measurement update with angular components (O5, O6)
# =======================================================================================
ABND = 100  # |angle| bound of the UKF obligations (about 16 turns either side)
KBND = 10 ** 6
TUNINGS = {"pos": (1.0, 2.0, 2.0),  # all sigma weights positive
           "neg": (0.5, 2.0, 1.0)}  # negative centre weight (n=1: w0 = -1; n=2: w0 = -5/3)


class LinDyn:
    def __init__(self, F):
        self.F = F

    def propagate(self, t0, t1, X, scheduled_events=None):
        return self.F.dot(X)


class MixMeas:
    """duck-typed measurement: components are angle fields (any function of the state, see AngleField) or linear rows"""

    def __init__(self, comps):
        self.comps = comps  # list of (kind, callable(state) -> value)
        self.angular_values = [_isangle(k) for k, _f in comps]

    def calculateMeasurement(self, sen, tgt, utc, noisy=False):
        return {f"m{i}": f(tgt) for i, (_k, f) in enumerate(self.comps)}


class UObs:
    """duck-typed observation with the identifying fields of the real Observation row (simultaneous observations share the epoch; whether they
    also share the sensor is a parameter of the obligation - the filter API takes any list)"""
    julian_date = 2459000.5
    sensor_eci = np.zeros(6)
    target_id = 11
    sensor_type = "AdvRadar"

    def __init__(self, comps, R, y, sensor_id=21):
        self.measurement = MixMeas(comps)
        self.r_matrix = R
        self.measurement_states = y
        self.sensor_id = sensor_id

    def _sensor_of(cfg, i):
        ids = cfg.get("sensor_ids")
        return ids[i] if ids else 21 + i


def _isangle(kind):
    from resonaate.physics.measurements import IsAngle

    return {"a0": IsAngle.ANGLE_0_2PI, "ap": IsAngle.ANGLE_NEG_PI_PI, "lin": IsAngle.NOT_ANGLE, "val": IsAngle.NOT_ANGLE}[kind]


def _ang(kind):
    """component kinds: a0 = angle valid in [0, 2pi), ap = angle valid in [-pi, pi), lin = linear row h.x, val = arbitrary non-angular function of the state"""
    return kind in ("a0", "ap")


def _lowhigh(kind):
    return (0.0, 2 * math.pi) if kind == "a0" else (-math.pi, math.pi)


def _lower(prefix, n):
    L = np.empty((n, n), dtype=object)
    for i in range(n):
        for j in range(n):
            L[i, j] = real(f"{prefix}_{i}_{j}") if j <= i else SReal(0)
        assume(L[i, i].t > 0)
    return L


class UEnv:
    """stubs for the duration of a symbolic UKF run (module-global shadowing; generateSigmaPoints' default sqrt_func)"""

    def __init__(self, sc):
        from resonaate.estimation.kalman import unscented_kalman_filter as U
        from resonaate.physics import maths as M
        from resonaate.physics import statistics as ST
        from symx.stubs import shadow, sym_array, sym_full, sym_ones, sym_zeros

        self.sc = sc
        self.ctx = [shadow(U, cholesky=sc.chol, inv=X.inv_explicit, zeros=sym_zeros, ones=sym_ones, full=sym_full, array=sym_array),
                    shadow(ST, inv=X.inv_explicit), shadow(M, arctan2=sc.at, residual=sc.rc)]

    def __enter__(self):
        from resonaate.estimation.kalman.unscented_kalman_filter import UnscentedKalmanFilter as K

        self.fn = K.generateSigmaPoints
        self.old = self.fn.__defaults__
        self.fn.__defaults__ = (self.sc.chol,)
        for c in self.ctx:
            c.__enter__()

    def __exit__(self, *a):
        self.fn.__defaults__ = self.old
        for c in reversed(self.ctx):
            c.__exit__(*a)


class Scene:
    """symbolic prior (x, P = L L^T, F, Q), tuning, and a list of observations; built inside the explored function"""

    def __init__(self, cfg):
        self.cfg = cfg
        n = self.n = cfg["n"]
        self.chol, self.at, self.rc = X.MemoChol(), X.Atan2Cut(), X.ResidualCut()
        self.x, self.L, self.F = reals("x", n), _lower("L", n), reals("F", n, n)
        self.P = self.L.dot(self.L.T)
        self.chol.register(self.L)
        if cfg["resample"]:
            # Q := L' L'^T - F P F^T so that cholesky(pred_p) is the free factor L' (no polynomial side equations)
            self.Lp = _lower("Lp", n)
            self.chol.register(self.Lp)
            self.Q = self.Lp.dot(self.Lp.T) - self.F.dot(self.P).dot(self.F.T)
        else:
            self.Lp = None
            self.Q = np.empty((n, n), dtype=object)
            for i in range(n):
                for j in range(i + 1):
                    self.Q[i, j] = self.Q[j, i] = real(f"Q_{i}_{j}")
        self.obs = []  # per observation: dict
        for i, kinds in enumerate(cfg["obs"]):
            m = len(kinds)
            o = {"kinds": kinds, "fields": [], "h": [], "y": reals(f"y{i}", m), "Lr": _lower(f"Lr{i}", m), "c": [], "ky": [], "k": []}
            for j, kind in enumerate(kinds):
                assume(o["y"][j].t >= -ABND, o["y"][j].t <= ABND)
                if kind == "lin":
                    o["fields"].append(None)
                    o["h"].append(reals(f"h{i}{j}", n))
                    o["c"].append(None)
                    o["ky"].append(None)
                elif kind == "val":
                    o["fields"].append(X.AngleField(f"v{i}{j}", -ABND, ABND))
                    o["h"].append(None)
                    o["c"].append(None)
                    o["ky"].append(None)
                else:
                    o["fields"].append(X.AngleField(f"th{i}{j}", -ABND, ABND, const=bool(cfg.get("const"))))
                    o["h"].append(None)
                    c = real(f"c{i}{j}")
                    ky = integer(f"ky{i}{j}")
                    assume(c.t >= -ABND, c.t <= ABND, ky.t >= -KBND, ky.t <= KBND)
                    o["c"].append(c)
                    o["ky"].append(ky)
                o["k"].append({})
            o["R"] = o["Lr"].dot(o["Lr"].T)
            self.obs.append(o)

    def new_filter(self):
        from resonaate.estimation.kalman import unscented_kalman_filter as U

        a, b, k = TUNINGS[self.cfg["tun"]]
        return U.UnscentedKalmanFilter(1, 0.0, self.x, self.P, LinDyn(self.F), self.Q, None, False, False, resample=self.cfg["resample"],
                                       alpha=SReal(a), beta=SReal(b), kappa=SReal(k))

    # ---- observations ----------------------------------------------------------------------
    def _kvar(self, i, j, idx):
        d = self.obs[i]["k"][j]
        if idx not in d:
            k = integer(f"k{i}{j}_{idx}")
            assume(k.t >= -KBND, k.t <= KBND)
            d[idx] = k
        return d[idx]

    def observation(self, i, shifted=False, rotate=True):
        """observation i as the filter sees it; shifted: every angular value (sigma-point predictions and the measured
        value) is reported rotated by c (if rotate) plus a solver-chosen whole number of turns per value"""
        o = self.obs[i]
        comps, y = [], []
        for j, kind in enumerate(o["kinds"]):
            if kind == "lin":
                comps.append((kind, (lambda h: lambda s: h.dot(s))(o["h"][j])))
                y.append(o["y"][j])
            elif not shifted or kind == "val":
                comps.append((kind, o["fields"][j]))
                y.append(o["y"][j])
            else:
                def f(s, i=i, j=j, fld=o["fields"][j], c=o["c"][j]):
                    v = fld(s)
                    k = self._kvar(i, j, fld.index_of(s))
                    return (v + c if rotate else v) + TWOPI_F * k

                comps.append((kind, f))
                y.append((o["y"][j] + o["c"][j] if rotate else o["y"][j]) + TWOPI_F * o["ky"][j])
        return UObs(comps, o["R"], np.array(y, dtype=object), UObs._sensor_of(self.cfg, i))

    def rows(self, order=None):
        """stacked rows (obs index, comp index, kind) in the order the filter stacks them"""
        order = range(len(self.obs)) if order is None else order
        return [(i, j, k) for i in order for j, k in enumerate(self.obs[i]["kinds"])]

    def columns(self, f, i, j):
        """per sigma column: (angle variable of field (i, j), turn variable of the shifted run or None)"""
        fld = self.obs[i]["fields"][j]
        out = []
        for col in range(f.sigma_points.shape[1]):
            s = f.sigma_points[:, col]
            v = fld(s)
            out.append((v, self.obs[i]["k"][j].get(fld.index_of(s))))
        return out

    # ---- partial concretisation for counterexample search ----------------------------------------
    def pins(self, f=None, angles=False):
        """generic rational values for the variables that angle-level goals do not depend on (prior, dynamics, noise factors,
        linear rows); angles=True also pins the sigma-point angles of filter f to a generic spread (used where the solver's
        verdict is about (cos, sin) atoms only and therefore says nothing about the angle values)"""
        n = self.n
        out = []

        def pin(v, val):
            if isinstance(v, SReal) and z3.is_const(v.t) and v.t.decl().kind() == z3.Z3_OP_UNINTERPRETED:
                out.append(v.t == rv(val))

        for i in range(n):
            pin(self.x[i], 1 + i)
            for j in range(n):
                pin(self.L[i, j], 1 + 0.25 * i if i == j else 0.5)
                pin(self.F[i, j], (1.0 if i == j else 0.0) + 0.125 * (i + 2 * j + 1))
                if self.Lp is not None:
                    pin(self.Lp[i, j], 2 + 0.25 * i if i == j else 0.5)
                else:
                    pin(self.Q[i, j], 0.5 + 0.125 * i if i == j else 0.0625)
        for oi, o in enumerate(self.obs):
            m = len(o["kinds"])
            for i in range(m):
                for j in range(m):
                    pin(o["Lr"][i, j], 1 + 0.25 * (i + oi) if i == j else 0.5)
                if o["h"][i] is not None:
                    for j in range(n):
                        pin(o["h"][i][j], [1.0, -2.0, 0.5][j % 3])
                if angles and f is not None and o["fields"][i] is not None:
                    for col, (v, _k) in enumerate(self.columns(f, oi, i)):
                        pin(v, 0.3 + 1.1 * col + 0.37 * i + 0.11 * oi)
        return out

    # ---- model -> concrete inputs ------------------------------------------------------------
    def inputs(self, m, f, extra=None):
        d = {"cfg": self.cfg, "x": marray(m, self.x), "L": marray(m, self.L), "F": marray(m, self.F), "Q": marray(m, self.Q), "obs": []}
        for i, o in enumerate(self.obs):
            e = {"kinds": o["kinds"], "y": marray(m, o["y"]), "Lr": marray(m, o["Lr"]), "th": [], "k": [], "h": [], "c": [], "ky": []}
            for j, kind in enumerate(o["kinds"]):
                if kind == "lin":
                    e["h"].append(marray(m, o["h"][j]))
                    e["th"].append(None), e["k"].append(None), e["c"].append(None), e["ky"].append(None)
                else:
                    cols = self.columns(f, i, j)
                    e["h"].append(None)
                    e["th"].append([mfloat(m, v.t) for v, _k in cols])
                    e["k"].append([int(mval(m, k.t)) if k is not None else 0 for _v, k in cols])
                    e["c"].append(mfloat(m, o["c"][j].t) if _ang(kind) else 0.0)
                    e["ky"].append(int(mval(m, o["ky"][j].t)) if _ang(kind) else 0)
            d["obs"].append(e)
        if extra:
            d.update(extra)
        return d


# ---- concrete replay machinery ---------------------------------------------------------------
class _CField:
    """concrete angle field: the angle of the sigma column nearest to the queried state"""

    def __init__(self, holder, th, k, c, rotate):
        self.holder, self.th, self.k, self.c, self.rotate = holder, th, k, c, rotate

    def __call__(self, s):
        cols = self.holder["f"].sigma_points
        j = int(np.argmin(np.abs(cols - np.asarray(s, dtype=float).reshape(-1, 1)).sum(axis=0)))
        v = self.th[j]
        if self.k is not None:
            v = v + (self.c if self.rotate else 0.0) + 2 * math.pi * self.k[j]
        return v


def _concrete_filter(d):
    from resonaate.estimation.kalman.unscented_kalman_filter import UnscentedKalmanFilter

    cfg = d["cfg"]
    a, b, k = TUNINGS[cfg["tun"]]
    x, L, F, Q = np.array(d["x"], dtype=float), np.array(d["L"], dtype=float), np.array(d["F"], dtype=float), np.array(d["Q"], dtype=float)
    f = UnscentedKalmanFilter(1, 0.0, x, L @ L.T, LinDyn(F), Q, None, False, False, resample=cfg["resample"], alpha=a, beta=b, kappa=k)
    f.predict(60.0)
    return f


def _concrete_obs(d, i, holder, shifted=False, rotate=True):
    e = d["obs"][i]
    comps, y = [], []
    for j, kind in enumerate(e["kinds"]):
        if kind == "lin":
            comps.append((kind, (lambda h: lambda s: float(np.dot(h, s)))(np.array(e["h"][j], dtype=float))))
            y.append(e["y"][j])
        elif kind == "val":
            comps.append((kind, _CField(holder, e["th"][j], None, 0.0, rotate)))
            y.append(e["y"][j])
        else:
            comps.append((kind, _CField(holder, e["th"][j], e["k"][j] if shifted else None, e["c"][j], rotate)))
            y.append(e["y"][j] + (((e["c"][j] if rotate else 0.0) + 2 * math.pi * e["ky"][j]) if shifted else 0.0))
    Lr = np.array(e["Lr"], dtype=float)
    return UObs(comps, Lr @ Lr.T, np.array(y, dtype=float), UObs._sensor_of(d["cfg"], i))


def _concrete_update(d, order, shifted=False, rotate=True, history=True):
    holder = {}
    f = holder["f"] = _concrete_filter(d)
    for mode, o in (_steps(d["cfg"])[:-1] if history else []):  # earlier forecast()/update() calls on the same filter object
        getattr(f, mode)([_concrete_obs(d, i, holder, shifted, rotate) for i in o])
    f.update([_concrete_obs(d, i, holder, shifted, rotate) for i in order])
    return f


def _angdiff(a, b):
    dd = abs(a - b) % (2 * math.pi)
    return min(dd, 2 * math.pi - dd)


def _cmp_posterior(fa, fb, perm=None, tol=1e-6):
    """max scaled differences of innovation / est_x / est_p of two concrete filters (perm: row permutation of b wrt a)"""
    ia, ib = np.asarray(fa.innovation, dtype=float), np.asarray(fb.innovation, dtype=float)
    if perm is not None:
        if ia.shape != ib.shape or len(np.atleast_1d(ib)) != len(perm):
            # not one innovation row per listed observation component: the posteriors are judged, the innovation is reported as it is
            errs = {"innovation_rows": [int(np.size(ia)), int(np.size(ib))], "rows_expected": len(perm),
                    "est_x": float(np.abs(fa.est_x - fb.est_x).max()), "est_p": float(np.abs(fa.est_p - fb.est_p).max())}
            return True, errs
        ib = ib[perm]
    sc = max(1.0, np.abs(fa.est_x).max(), np.abs(fa.est_p).max(), np.abs(ia).max())
    errs = {"innovation": float(np.abs(ia - ib).max()), "est_x": float(np.abs(fa.est_x - fb.est_x).max()), "est_p": float(np.abs(fa.est_p - fb.est_p).max())}
    return max(errs.values()) > tol * sc, errs


def replay_shift(d):
    """real filter, floats: the configuration and the same configuration reported rotated / with other turn counts"""
    rotate = d.get("rotate", True)
    order = list(range(len(d["obs"])))
    fa = _concrete_update(d, order)
    fb = _concrete_update(d, order, shifted=True, rotate=rotate)
    bad, errs = _cmp_posterior(fa, fb)
    rows = [(i, j, k) for i in order for j, k in enumerate(d["obs"][i]["kinds"])]
    for r, (i, j, kind) in enumerate(rows):
        if not _ang(kind):
            continue
        for f in (fa, fb):
            if not (-math.pi - 1e-12 < float(f.innovation[r]) <= math.pi + 1e-12):
                bad = True
                errs[f"innovation[{r}] out of (-pi,pi]"] = float(f.innovation[r])
        cexp = d["obs"][i]["c"][j] if rotate else 0.0
        e = _angdiff(float(fb.mean_pred_y[r]), float(fa.mean_pred_y[r]) + cexp)
        errs[f"mean_pred_y[{r}] not rotated with the configuration"] = e
        if e > 1e-6:
            bad = True
        e = float(np.abs(np.asarray(fa.sigma_y_res, dtype=float)[r] - np.asarray(fb.sigma_y_res, dtype=float)[r]).max())
        errs[f"sigma_y_res[{r}]"] = e
        if e > 1e-6:
            bad = True
    return bad, errs


def replay_order(d):
    perm = d["perm"]
    n = len(d["obs"])
    fa = _concrete_update(d, list(range(n)))
    fb = _concrete_update(d, perm)
    rows_a = [(i, j) for i in range(n) for j in range(len(d["obs"][i]["kinds"]))]
    rows_b = [(i, j) for i in perm for j in range(len(d["obs"][i]["kinds"]))]
    rp = [rows_b.index(r) for r in rows_a]
    return _cmp_posterior(fa, fb, perm=rp)


def replay_reuse(d):
    """real filter, floats: update() on a filter object that served the earlier forecast()/update() calls of cfg["steps"] against the
    same update() on a fresh filter object (same prior, same predict)"""
    order = _steps(d["cfg"])[-1][1]
    fa = _concrete_update(d, order, history=False)
    fb = _concrete_update(d, order)
    bad, errs = _cmp_posterior(fa, fb)
    for nm in ("mean_pred_y", "sigma_y_res"):
        e = float(np.abs(np.asarray(getattr(fa, nm), dtype=float) - np.asarray(getattr(fb, nm), dtype=float)).max())
        errs[nm] = e
        bad = bad or e > 1e-6 * max(1.0, float(np.abs(np.asarray(getattr(fa, nm), dtype=float)).max()))
    return bad, errs


def replay_spec(d):
    """real filter, floats: the published mean / residuals / innovation against their definitions"""
    order = _steps(d["cfg"])[-1][1]
    f = _concrete_update(d, order)
    w = np.asarray(f.mean_weight, dtype=float)
    bad, errs = False, {}
    rows = [(i, j, k) for i in order for j, k in enumerate(d["obs"][i]["kinds"])]
    y = np.concatenate([np.array(d["obs"][i]["y"], dtype=float) for i in order])
    for r, (i, j, kind) in enumerate(rows):
        m = float(f.mean_pred_y[r])
        if not _ang(kind):
            if kind == "lin":
                vals = np.array(d["obs"][i]["h"][j], dtype=float) @ f.sigma_points
            else:
                vals = np.array(d["obs"][i]["th"][j], dtype=float)
            e = abs(m - float(vals @ w))
            e = max(e, float(np.abs(np.asarray(f.sigma_y_res, dtype=float)[r] - (vals - m)).max()), abs(float(f.innovation[r]) - (y[r] - m)))
            errs[f"non-angular row {r}"] = e
            bad = bad or e > 1e-6 * max(1.0, np.abs(vals).max(), abs(y[r]))
            if bool(f.is_angular[r]):
                bad, errs[f"is_angular[{r}]"] = True, True
            continue
        th = np.array(d["obs"][i]["th"][j], dtype=float)
        C, S = float(np.cos(th) @ w), float(np.sin(th) @ w)
        lo, hi = _lowhigh(kind)
        if not (lo <= m < hi + 1e-12):
            bad, errs[f"mean_pred_y[{r}] outside [low, high)"] = True, m
        rr = math.hypot(C, S)
        cross, dot = (math.sin(m) * C - math.cos(m) * S) / rr, (math.cos(m) * C + math.sin(m) * S) / rr
        errs[f"mean_pred_y[{r}] direction (cross, dot)"] = [cross, dot]
        if abs(cross) > 1e-6 or dot <= 0:
            bad = True
        res = np.asarray(f.sigma_y_res, dtype=float)[r]
        for col in range(len(th)):
            if not (-math.pi - 1e-12 < res[col] <= math.pi + 1e-12) or _angdiff(res[col], th[col] - m) > 1e-6:
                bad, errs[f"sigma_y_res[{r},{col}]"] = True, [float(res[col]), float(th[col] - m)]
        nu = float(f.innovation[r])
        if not (-math.pi - 1e-12 < nu <= math.pi + 1e-12) or _angdiff(nu, y[r] - m) > 1e-6:
            bad, errs[f"innovation[{r}]"] = True, [nu, float(y[r] - m)]
        if not bool(f.is_angular[r]):
            bad, errs[f"is_angular[{r}]"] = True, False
    return bad, errs


# ---- proof plumbing ------------------------------------------------------------------------------
def _steps(cfg):
    """[(method name, order of the observation indices)]: what is done with ONE filter object after predict().  Default: one
    update() with all observations in index order.  cfg["steps"] lists earlier forecast()/update() calls on the same object
    (the tasking engine calls forecast() with the hypothetical observation of every candidate sensor before the update with
    the real ones) followed by the update() whose published results are checked."""
    st = cfg.get("steps")
    if not st:
        return [("update", list(range(len(cfg["obs"]))))]
    return [(m, list(o)) for m, o in st]


def _tag(path):
    return "".join("T" if d else "F" for d in path.decisions) or "-"


def _distinct_columns(f):
    """the sigma points handed to the measurement function are pairwise different states (needed only to turn a model
    into a concrete measurement *function* for the replay)"""
    cols = f.sigma_points
    out = []
    for a in range(cols.shape[1]):
        for b in range(a + 1, cols.shape[1]):
            out.append(z3.Or(*[cols[i, a].t != cols[i, b].t for i in range(cols.shape[0])]))
    return out


def _record(rep, label, v, sample=None):
    rep._item(label, "prove", v)
    if sample is not None:
        rep.sample({"obligation": f"{rep.ob}:{label}", "verdict": v.status, "what": sample})


def _two_step(rep, label, goal, fast, full, pinned=None, fast_ms=8000, sample=None, **kw):
    """Decide `goal` on the small (sliced) constraint set.  Only when that is not `unsat` a counterexample is searched
    that is a model of the whole run and can be replayed: first with the variables the goal does not depend on (prior, noise
    factors, linear rows) pinned to generic rationals - partial concretisation, the solver still chooses every angle, turn
    count and offset -, then, if that gives nothing, with every constraint of the path and nothing pinned."""
    v = refute(goal, fast, fast_ms)
    if v.status == "unsat":
        _record(rep, label, v, sample)
        return True
    kw.setdefault("timeout_ms", 10000)
    if pinned is not None and refute(goal, pinned, 8000).status == "sat":
        return rep.prove(label, goal, pinned, sample=sample, **kw)
    return rep.prove(label, goal, full, sample=sample, **kw)


_UNIT = None


def _unit_lemma():
    """abstract fact used to compare directions: two unit vectors that are positive multiples of the same vector are equal.
    Returns (variables, hypotheses, conclusion)."""
    u1, v1, u2, v2, Xv, Yv = z3.Reals("ul_u1 ul_v1 ul_u2 ul_v2 ul_X ul_Y")
    hyp = [u1 * u1 + v1 * v1 == 1, u2 * u2 + v2 * v2 == 1, v1 * Xv == u1 * Yv, u1 * Xv + v1 * Yv > 0, v2 * Xv == u2 * Yv, u2 * Xv + v2 * Yv > 0]
    return (u1, v1, u2, v2, Xv, Yv), hyp, z3.And(u1 == u2, v1 == v2)


def _ring(goal, hyps, timeout_ms):
    """polynomial identity under polynomial equality hypotheses: linearisation prover first, then nlsat"""
    from symx.poly import NotPolynomial, prove_linearized_auto

    try:
        v = prove_linearized_auto([goal], hyps, rounds=6, timeout_ms=timeout_ms)
    except NotPolynomial:
        v = None
    if v is None or v.status != "unsat":
        v = refute(goal, hyps, min(timeout_ms, 20000))
    return v


def _call_of(at, mean_term):
    names = free_vars(mean_term)
    hits = [c for c in at.calls if str(c["a"]) in names]
    return hits[0] if len(hits) == 1 else None


def _poly_eqs(cs):
    out = []
    for c in cs:
        if z3.is_and(c):
            out += _poly_eqs(c.children())
        elif z3.is_eq(c) and c.arg(0).sort() != z3.BoolSort() and not X.is_linear(c):
            out.append(c)
    return out


def _rotation_lemma(rep, tag, ri, path, sc, mA, mB, c, lemma_ok, cex_pinned, cex_kw):
    """Stages that establish  mean_B == mean_A + c (mod 2 pi)  for one angular row.  Returns the linear conclusion
    (with its integer turn variable) or None."""
    with resume(path):
        cc, sn = trig(c.t)
        (cb, sb), (ca, sa) = trig(mB.t), trig((mA + c).t)
    ident = z3.Int(f"ident_{ri}")
    prem = z3.And(cb == ca, sb == sa)
    concl = mB.t - (mA.t + c.t) == TWOPI * z3.ToReal(ident)
    A, B = _call_of(sc.at, mA.t), _call_of(sc.at, mB.t)
    if A is None or B is None or A["recognised"] or B["recognised"]:
        # no cut arctan2 behind the mean (or a single-direction one): let the solver try the premise directly
        ok = _two_step(rep, f"mean-rotates[{tag},row{ri}]", prem, path.assumes + sc.at.side_facts(), path.constraints() + sc.at.side_facts(), pinned=cex_pinned, fast_ms=10000,
                       timeout_ms=10000, sample="cos/sin of mean_pred_y(rotated configuration) == cos/sin of (mean_pred_y + c)", **cex_kw)
        return (concl, ident) if ok else None
    (l1, k1, l2, k2, lX, lY), lhyp, lconc = _unit_lemma()
    da = X.DivAbstraction(prefix=f"q{ri}")
    hyps = [da.rewrite(h) for h in _poly_eqs(path.assumes) + _poly_eqs(A["facts"][:2])]
    chosen = None
    # the code may average the angles themselves or their mirror images (low/high handling): the unit vector behind mean_A turns by
    # +c or by -c when the configuration is rotated by c; the premise proved at the end is the same in both cases
    for orient in (1, -1):
        u2, v2 = A["c"] * cc - orient * A["s"] * sn, A["s"] * cc + orient * A["c"] * sn
        sub = [(l1, B["c"]), (k1, B["s"]), (l2, u2), (k2, v2), (lX, B["x"]), (lY, B["y"])]
        inst = [z3.substitute(h, *sub) for h in lhyp]
        g_unit, g_par = inst[1], inst[4]
        g_dot = u2 * B["x"] + v2 * B["y"] == A["c"] * A["x"] + A["s"] * A["y"]
        verdicts = []
        for g in (g_unit, g_par, g_dot):
            v = _ring(da.rewrite(g), hyps, 60000 if orient == 1 else 20000)
            verdicts.append(v)
            if v.status != "unsat":
                break
        if all(v.status == "unsat" for v in verdicts) and len(verdicts) == 3:
            chosen = (orient, sub, inst, g_unit, g_par, g_dot, verdicts)
            break
    if chosen is None:
        ok = _two_step(rep, f"mean-rotates[{tag},row{ri}]", prem, path.assumes + sc.at.side_facts(), path.constraints() + sc.at.side_facts(), pinned=cex_pinned, fast_ms=10000,
                       timeout_ms=10000, sample="cos/sin of mean_pred_y(rotated configuration) == cos/sin of (mean_pred_y + c)", **cex_kw)
        return (concl, ident) if ok else None
    orient, sub, inst, g_unit, g_par, g_dot, verdicts = chosen
    for nm, v, what in (("unit", verdicts[0], "the rotated unit vector of mean_A is a unit vector"),
                        ("parallel", verdicts[1], "the resultant of the rotated configuration is parallel to the rotated unit vector of mean_A"),
                        ("dot", verdicts[2], "... and points the same way (equal inner products)")):
        _record(rep, f"ring-{nm}[{tag},row{ri}]", v, what)
    ok = True
    if not (ok and lemma_ok):
        return None
    # (a) positivity of the inner product, (b) instantiate the abstract lemma (propositional), (c) rewrite into the premise
    a_pos = inst[5]
    ok = rep.prove(f"dot-positive[{tag},row{ri}]", a_pos, [g_dot, A["facts"][2]], timeout_ms=30000, sample="rotated unit vector of mean_A has positive inner product with the rotated resultant")
    ok = rep.prove(f"arctan2-facts[{tag},row{ri}]", z3.And(inst[0], inst[2], inst[3]), B["facts"][:3], timeout_ms=10000,
                   sample="the unit vector of mean_B is the positive direction of the rotated resultant (arctan2 contract)") and ok
    lem = z3.substitute(lconc, *sub)
    bools = {}

    def atom(t):  # opaque propositional abstraction of the instantiated lemma: the step is modus ponens
        return bools.setdefault(t.get_id(), z3.Bool(f"ul_atom_{len(bools)}"))

    ok = rep.prove(f"lemma-instance[{tag},row{ri}]", atom(lem), [z3.Implies(z3.And(*[atom(h) for h in inst]), atom(lem))] + [atom(h) for h in inst], timeout_ms=10000,
                   sample="modus ponens on the instantiated unit-vector lemma (antecedents: side facts of arctan2 and the ring identities above)") and ok
    ok = rep.prove(f"mean-rotates[{tag},row{ri}]", prem, [lem], timeout_ms=30000,
                   sample="cos/sin of mean_pred_y(rotated configuration) == cos/sin of (mean_pred_y + c)  [=> congruent mod 2 pi]") and ok
    return (concl, ident) if ok else None


def _turn_hints(sc, rows, fa, fb, idents, rotate):
    """definitional extensions N := (integer combination) that let z3's integer reasoning see that two residuals in (-pi, pi]
    which differ by 2 pi N are equal (each N is a fresh integer *defined* by the equation: sound)"""
    hints = []

    def hint(name, ta, tb, K, ident):
        ea, eb = sc.rc.by_id.get(ta.get_id()), sc.rc.by_id.get(tb.get_id())
        if ea is None or eb is None or ta.get_id() == tb.get_id():
            return
        N = z3.Int(name)
        hints.append(N == (K if K is not None else 0) - (ident if ident is not None else 0) - eb[1] + ea[1])

    for ri, (i, j, kind) in enumerate(rows):
        if not _ang(kind):
            continue
        ident = idents.get(ri) if rotate else None
        cols = sc.columns(fb, i, j)
        for col, (_v, k) in enumerate(cols):
            ta, tb = _real_of(fa.sigma_y_res[ri, col]), _real_of(fb.sigma_y_res[ri, col])
            hint(f"N_{ri}_{col}", ta, tb, k.t if k is not None else None, ident)
        hint(f"N_{ri}_y", _real_of(fa.innovation[ri]), _real_of(fb.innovation[ri]), sc.obs[i]["ky"][j].t, ident)
    return hints


def _real_of(v):
    return v.t if isinstance(v, SReal) else rv(v)


def _in_range(v, lo_open, hi_closed):
    t = _real_of(v)
    return z3.And(t > lo_open, t <= hi_closed)


# ---- O5: representation / seam invariance of update() ---------------------------------------------------
def o5_shift(rep, cfg, rotate):
    """update() on a configuration and on the same configuration reported in another representation:
    every angular value (sigma-point predictions, measured value) + c (rotate) + 2 pi k (k per value, solver-chosen)"""
    order = list(range(len(cfg["obs"])))

    def run():
        sc = Scene(cfg)
        with UEnv(sc):
            fa = sc.new_filter()
            fa.predict(60.0)
            fa.update([sc.observation(i) for i in order])
            fb = sc.new_filter()
            fb.predict(60.0)
            fb.update([sc.observation(i, shifted=True, rotate=rotate) for i in order])
        return sc, fa, fb

    res = X.explore_lin(run, max_paths=64, branch_timeout_ms=10000)
    rep.note(f"paths={len(res)}")
    lemma_ok = True
    if rotate:
        _vars, lhyp, lconc = _unit_lemma()
        lemma_ok = rep.prove("unit-lemma", lconc, lhyp, timeout_ms=30000, sample="two unit vectors that are positive multiples of one vector are equal (abstract, 6 reals)")
    done = 0
    for r in res:
        if r.exc is not None:
            rep.error("exception", repr(r.exc))
            continue
        sc, fa, fb = r.out
        tag = _tag(r.path)
        rows = sc.rows()
        with resume(r.path):
            for (i, j, kind) in rows:
                if kind != "lin":
                    sc.columns(fb, i, j)
                    sc.columns(fa, i, j)
            distinct = _distinct_columns(fa)
            apins = sc.pins(fa, angles=True)
        cons = r.path.constraints()
        lin = X.linear_part(cons)
        full = cons + sc.at.side_facts() + distinct
        pins = sc.pins()
        extra = {"rotate": rotate}
        kw = dict(inputs=lambda m, sc=sc, fa=fa: sc.inputs(m, fa, extra), replay=replay_shift)
        if rep.feasible(f"path[{tag}]", lin, timeout_ms=10000) is None:
            continue
        done += 1
        if done == 1:  # second half of the vacuity guard: the non-linear constraints of the run (sqrt / cholesky contracts, domain conditions) at a generic prior
            rep.reachable(f"nonlinear-constraints-satisfiable[{tag}]", [c_ for c_ in cons if not X.is_linear(c_)] + pins, timeout_ms=30000)
        lemmas, idents = [], {}
        for ri, (i, j, kind) in enumerate(rows):
            if not _ang(kind):
                continue
            mA, mB = fa.mean_pred_y[ri], fb.mean_pred_y[ri]
            lo, hi = _lowhigh(kind)
            _two_step(rep, f"mean-range[{tag},row{ri}]", z3.And(mB.t >= rv(lo), mB.t < rv(hi), mA.t >= rv(lo), mA.t < rv(hi)), lin, full, pinned=lin + pins,
                      sample="angular mean_pred_y inside the range of its angle type", **kw)
            if rotate:
                got = _rotation_lemma(rep, tag, ri, r.path, sc, mA, mB, sc.obs[i]["c"][j], lemma_ok, lin + apins, kw)
                if got is None:
                    continue
                lemmas.append(got[0])
                idents[ri] = got[1]
            else:
                _two_step(rep, f"mean-equal[{tag},row{ri}]", mA.t == mB.t, lin, full, pinned=lin + pins, sample="mean_pred_y unchanged by whole turns added to sigma-point angles", **kw)
        with resume(r.path):
            hints = _turn_hints(sc, rows, fa, fb, idents, rotate)
        fast = lin + lemmas + hints
        g_res = eq_arrays(fa.sigma_y_res, fb.sigma_y_res)
        g_inn = eq_arrays(fa.innovation, fb.innovation)
        ok1 = _two_step(rep, f"sigma_y_res-equal[{tag}]", g_res, fast, full + lemmas, pinned=fast + pins, sample="measurement sigma-point residuals unchanged by the change of representation", **kw)
        ok2 = _two_step(rep, f"innovation-equal[{tag}]", g_inn, fast, full + lemmas, pinned=fast + pins, sample="innovation unchanged when the measured angle is y + c + 2 pi k", **kw)
        rng = [_in_range(fb.innovation[ri], -PI, PI) for ri, (_i, _j, kind) in enumerate(rows) if _ang(kind)]
        _two_step(rep, f"innovation-range[{tag}]", z3.And(*rng), lin, full, pinned=lin + pins, sample="angular innovation components in (-pi, pi]", **kw)
        if ok1 and ok2:
            hyp2 = [g_res, g_inn]
            _two_step(rep, f"est_x-equal[{tag}]", eq_arrays(fa.est_x, fb.est_x), hyp2, full + lemmas + hyp2, pinned=cons + pins + lemmas + hyp2, sample="posterior mean unchanged", **kw)
            _two_step(rep, f"est_p-equal[{tag}]", eq_arrays(fa.est_p, fb.est_p), hyp2, full + lemmas + hyp2, pinned=cons + pins + lemmas + hyp2, sample="posterior covariance unchanged", **kw)
    if done == 0:
        rep.error("reach", "no feasible path")
    # vacuity guard: a seam-straddling configuration (sigma angles just below 2 pi and just above 0) is inside the domain of some path
    seam = False
    for r in res:
        if r.exc is not None:
            continue
        sc, fa, fb = r.out
        i, j, _k = next(x for x in sc.rows() if _ang(x[2]))
        with resume(r.path):
            cols = sc.columns(fa, i, j)
        if cfg.get("const"):  # common angle exactly on the seam, reported with different turn counts
            c = [cols[0][0].t == 0, sc.obs[i]["y"][j].t == TWOPI * 3] + [k.t == n_ for n_, (_v, k) in enumerate(sc.columns(fb, i, j)) if k is not None]
        else:
            c = [cols[0][0].t > TWOPI - rv(0.1), cols[0][0].t < TWOPI, cols[1][0].t > 0, cols[1][0].t < rv(0.1), sc.obs[i]["y"][j].t == TWOPI * 3]
        if rep.feasible(f"seam-straddle[{_tag(r.path)}]", X.linear_part(r.path.constraints()) + c, timeout_ms=10000) not in (None, True):
            seam = True
            break
    if not seam:
        rep.error("reach-seam", "no path admits sigma angles on both sides of the 0/2pi seam")


# ---- O5-spec: what update() publishes, against the definitions ------------------------------------------
def o5_spec(rep, cfg):
    """one update(): mean_pred_y is the weighted circular mean (direction of the weighted resultant, inside the range of the
    angle type) resp. the weighted mean; sigma_y_res / innovation are the wrapped resp. plain differences; flags are right.
    With cfg["steps"]: the same for the last update() of a filter object that has already served other forecast()/update()
    calls (stacks of the same total dimension but another layout of angular / plain components included)"""
    steps = _steps(cfg)
    order = steps[-1][1]

    def run():
        sc = Scene(cfg)
        with UEnv(sc):
            f = sc.new_filter()
            f.predict(60.0)
            for mode, o in steps[:-1]:
                getattr(f, mode)([sc.observation(i) for i in o])
            f.update([sc.observation(i) for i in order])
        return sc, f

    res = X.explore_lin(run, max_paths=64, branch_timeout_ms=10000)
    rep.note(f"paths={len(res)}")
    done = 0
    for r in res:
        if r.exc is not None:
            rep.error("exception", repr(r.exc))
            continue
        sc, f = r.out
        tag = _tag(r.path)
        rows = sc.rows(order)
        cons = r.path.constraints()
        lin = X.linear_part(cons)
        with resume(r.path):
            colsets = {ri: sc.columns(f, i, j) for ri, (i, j, kind) in enumerate(rows) if kind != "lin"}
            trigs = {ri: [trig(v.t) for v, _k in cs] for ri, cs in colsets.items() if _ang(rows[ri][2])}
            mtrig = {ri: trig(f.mean_pred_y[ri].t) for ri in trigs}
            distinct = _distinct_columns(f)
            apins = sc.pins(f, angles=True)
        full = cons + sc.at.side_facts() + distinct
        pins = sc.pins()
        kw = dict(inputs=lambda m, sc=sc, f=f: sc.inputs(m, f), replay=replay_spec)
        if rep.feasible(f"path[{tag}]", lin, timeout_ms=10000) is None:
            continue
        done += 1
        if done == 1:  # second half of the vacuity guard: the non-linear constraints of the run (sqrt / cholesky contracts, domain conditions) at a generic prior
            rep.reachable(f"nonlinear-constraints-satisfiable[{tag}]", [c_ for c_ in cons if not X.is_linear(c_)] + pins, timeout_ms=30000)
        w = f.mean_weight
        y = np.concatenate([sc.obs[i]["y"] for i in order])
        flags = [bool(b) for b in np.asarray(f.is_angular).tolist()]
        if flags != [_ang(kind) for (_i, _j, kind) in rows]:
            # the flags are concrete (they depend on the enum values only): confirm on the real code with any model of the path
            mdl = rep.feasible(f"flags-model[{tag}]", lin + pins, timeout_ms=10000)
            if mdl is None or mdl is True:
                rep.error(f"is_angular[{tag}]", f"published flags {flags} differ from the components' angle types, but no model of the path was found for the replay")
            else:
                data = _jsonable(sc.inputs(mdl, f))
                bad, detail = replay_spec(data)
                if bad:
                    rep.concrete_violation(f"is_angular[{tag}]", data, detail)
                else:
                    rep.error(f"is_angular[{tag}]", f"published flags {flags} differ symbolically but not in the replay: {detail}")
        for ri, (i, j, kind) in enumerate(rows):
            m = f.mean_pred_y[ri]
            if not _ang(kind):
                vals = sc.obs[i]["h"][j].dot(f.sigma_points) if kind == "lin" else np.array([v for v, _k in colsets[ri]], dtype=object)
                g = z3.And(_real_of(m) == _real_of(vals.dot(w)), eq_arrays(f.sigma_y_res[ri], vals - m), _real_of(f.innovation[ri]) == _real_of(y[ri] - m))
                _two_step(rep, f"plain-row[{tag},row{ri}]", g, [], full, pinned=lin + pins, sample="non-angular component: weighted mean, plain residuals, plain innovation", **kw)
                continue
            lo, hi = _lowhigh(kind)
            _two_step(rep, f"mean-range[{tag},row{ri}]", z3.And(m.t >= rv(lo), m.t < rv(hi)), lin, full, pinned=lin + pins, sample="angular mean_pred_y in [low, high) of its angle type", **kw)
            if cfg.get("const"):
                _two_step(rep, f"mean-is-common-angle[{tag},row{ri}]", z3.IsInt((m.t - colsets[ri][0][0].t) / TWOPI), lin, full, pinned=lin + pins,
                          sample="all sigma points see the same angle phi (any representation): mean_pred_y == phi (mod 2 pi)", **kw)
            C = sum((w[col] * SReal(cs[0]) for col, cs in enumerate(trigs[ri])), SReal(0))
            S = sum((w[col] * SReal(cs[1]) for col, cs in enumerate(trigs[ri])), SReal(0))
            cm, sm = mtrig[ri]
            call = _call_of(sc.at, m.t)
            nondeg = z3.Or(C.t != 0, S.t != 0)
            da = X.DivAbstraction(prefix=f"q{ri}")
            goal = da.rewrite(z3.And(sm * C.t == cm * S.t, cm * C.t + sm * S.t > 0))
            hyps = [da.rewrite(h) for h in (call["facts"][:3] if call else []) + [nondeg]]
            # the normalisation of the weights is a positive factor: q = 1 / ||w||, ||w|| = sqrt(sum w^2) >= 0
            for den, q in da.classes:
                hyps += [q * den == 1] + [h for h in r.path.assumes if free_vars(h) <= free_vars(den)]
            _two_step(rep, f"mean-direction[{tag},row{ri}]", goal, hyps, hyps + cons, pinned=hyps + lin + apins, fast_ms=10000, timeout_ms=10000, sample="mean_pred_y points along sum_j w_j (cos th_j, sin th_j): the weighted circular mean", **kw)
            gs = []
            for col, (v, _k) in enumerate(colsets[ri]):
                rr = _real_of(f.sigma_y_res[ri, col])
                gs += [rr > -PI, rr <= PI, z3.IsInt((rr - (v.t - m.t)) / TWOPI)]
            nu = _real_of(f.innovation[ri])
            gs += [nu > -PI, nu <= PI, z3.IsInt((nu - (_real_of(y[ri]) - m.t)) / TWOPI)]
            _two_step(rep, f"wrapped-residuals[{tag},row{ri}]", z3.And(*gs), lin, full, pinned=lin + pins,
                      sample="sigma_y_res[:, j] and innovation are in (-pi, pi] and congruent to (sigma angle - mean) resp. (measured - mean) mod 2 pi", **kw)
    if done == 0:
        rep.error("reach", "no feasible path")


# ---- O7: one filter object, several forecast()/update() calls -------------------------------------------------------------
def o7_reuse_fresh(rep, cfg):
    """What update() publishes does not depend on what the filter object was used for since the last predict(): the last update() of
    cfg["steps"] on the reused object against the same update() on a fresh object with the same prior."""
    steps = _steps(cfg)
    order = steps[-1][1]

    def run():
        sc = Scene(cfg)
        with UEnv(sc):
            fa = sc.new_filter()
            fa.predict(60.0)
            fa.update([sc.observation(i) for i in order])
            fb = sc.new_filter()
            fb.predict(60.0)
            for mode, o in steps[:-1]:
                getattr(fb, mode)([sc.observation(i) for i in o])
            fb.update([sc.observation(i) for i in order])
        return sc, fa, fb

    res = X.explore_lin(run, max_paths=64, branch_timeout_ms=10000)
    rep.note(f"paths={len(res)}")
    done = 0
    for r in res:
        if r.exc is not None:
            rep.error("exception", repr(r.exc))
            continue
        sc, fa, fb = r.out
        tag = _tag(r.path)
        cons = r.path.constraints()
        lin = X.linear_part(cons)
        with resume(r.path):
            for (i, j, kind) in sc.rows(order):
                if kind != "lin":
                    sc.columns(fa, i, j)
            distinct = _distinct_columns(fa)
        full = cons + sc.at.side_facts() + distinct
        pins = sc.pins()
        if rep.feasible(f"path[{tag}]", lin, timeout_ms=10000) is None:
            continue
        done += 1
        if done == 1:
            rep.reachable(f"nonlinear-constraints-satisfiable[{tag}]", [c_ for c_ in cons if not X.is_linear(c_)] + pins, timeout_ms=30000)
        kw = dict(inputs=lambda m, sc=sc, fa=fa: sc.inputs(m, fa), replay=replay_reuse)
        ok = True
        for nm, what in (("mean_pred_y", "predicted measurement"), ("sigma_y_res", "measurement sigma-point residuals"), ("innovation", "innovation")):
            g = eq_arrays(np.asarray(getattr(fa, nm), dtype=object), np.asarray(getattr(fb, nm), dtype=object))
            ok = bool(_two_step(rep, f"{nm}-as-fresh[{tag}]", g, [], full, pinned=lin + pins, sample=f"{what} of a reused filter object == that of a fresh one", **kw)) and ok
        if not ok:
            rep.note(f"[{tag}] est_x / est_p not compared: they are functions of the quantities that already differ")
            continue
        for nm in ("est_x", "est_p"):
            g = eq_arrays(np.asarray(getattr(fa, nm), dtype=object), np.asarray(getattr(fb, nm), dtype=object))
            _two_step(rep, f"{nm}-as-fresh[{tag}]", g, [], full, pinned=cons + pins, sample=f"{nm} of a reused filter object == that of a fresh one", **kw)
    if done == 0:
        rep.error("reach", "no feasible path")


# ---- O6: order of stacked observations -------------------------------------------------------------------------------
def o6_order(rep, cfg, perms):
    nobs = len(cfg["obs"])
    ident = list(range(nobs))

    def run():
        sc = Scene(cfg)
        fs = []
        with UEnv(sc):
            for perm in [ident] + perms:
                f = sc.new_filter()
                f.predict(60.0)
                f.update([sc.observation(i) for i in perm])
                fs.append(f)
        return sc, fs

    res = X.explore_lin(run, max_paths=64, branch_timeout_ms=10000)
    rep.note(f"paths={len(res)}")
    done = 0
    for r in res:
        if r.exc is not None:
            rep.error("exception", repr(r.exc))
            continue
        sc, fs = r.out
        tag = _tag(r.path)
        cons = r.path.constraints()
        with resume(r.path):
            distinct = _distinct_columns(fs[0])
        full = cons + sc.at.side_facts() + distinct
        pins = sc.pins()
        if rep.feasible(f"path[{tag}]", X.linear_part(cons), timeout_ms=10000) is None:
            continue
        done += 1
        if done == 1:  # second half of the vacuity guard: the non-linear constraints of the run (sqrt / cholesky contracts, domain conditions) at a generic prior
            rep.reachable(f"nonlinear-constraints-satisfiable[{tag}]", [c_ for c_ in cons if not X.is_linear(c_)] + pins, timeout_ms=30000)
        fa = fs[0]
        rows_a = [(i, j) for (i, j, _k) in sc.rows(ident)]
        for perm, fb in zip(perms, fs[1:]):
            ptag = "".join(map(str, perm))
            kw = dict(inputs=lambda m, sc=sc, fa=fa, perm=perm: sc.inputs(m, fa, {"perm": perm}), replay=replay_order)
            rows_b = [(i, j) for (i, j, _k) in sc.rows(perm)]
            rp = [rows_b.index(x) for x in rows_a]
            if len(np.atleast_1d(fa.innovation)) != len(rows_a) or len(np.atleast_1d(fb.innovation)) != len(rows_a):
                # the update did not use one innovation row per listed observation component: refuted at any point of the path
                rep.prove(f"all-rows-used[{tag},{ptag}]", z3.BoolVal(False), cons + pins, timeout_ms=60000,
                          sample="update() stacks one innovation row per component of every listed observation", **kw)
                continue
            g_inn = eq_arrays(fa.innovation, np.asarray(fb.innovation, dtype=object)[rp])
            _two_step(rep, f"innovation-permuted[{tag},{ptag}]", g_inn, [], full, pinned=cons + pins, sample="innovation components follow their observations", **kw)
            for nm in ("est_x", "est_p"):
                A, B = np.asarray(getattr(fa, nm), dtype=object), np.asarray(getattr(fb, nm), dtype=object)
                if sum(len(k) for k in cfg["obs"]) <= 2:
                    _two_step(rep, f"{nm}-equal[{tag},{ptag}]", eq_arrays(A, B), [], full, pinned=cons + pins, fast_ms=60000, timeout_ms=60000,
                              sample=f"{nm} independent of the order of the stacked observations (rational identity)", **kw)
                    continue
                # larger stacks: clear the (provably equal) determinants and decide entry by entry as polynomial identities
                da = X.DivAbstraction(prefix="qd")
                for idx in np.ndindex(*A.shape):
                    g = _real_of(A[idx]) == _real_of(B[idx])
                    lab = f"{nm}{list(idx)}-equal[{tag},{ptag}]"
                    v = refute(da.rewrite(g), [], 300000)
                    if v.status == "unsat":
                        _record(rep, lab, v, f"{nm} entry independent of the order (polynomial identity after clearing the equal determinants)")
                    else:
                        rep.prove(lab, g, full, timeout_ms=120000, **kw)
    if done == 0:
        rep.error("reach", "no feasible path")


# =======================================================================================
REPLAYS = {"O1": replay_wrap, "O2": replay_residual, "O2s": replay_residual1, "O3": replay_vec, "O4": replay_mean, "O4b": replay_mean}


# =======================================================================================
# Genetic particle filter: forecast() over simultaneous observations (O8)
# =======================================================================================
class _NumpyWith:
    """the numpy module with a few names replaced (shadowed as `np` in the particle-filter module)"""

    def __init__(self, **over):
        self.__dict__["_over"] = over

    def __getattr__(self, k):
        over = self.__dict__["_over"]
        return over[k] if k in over else getattr(np, k)


class _ExpCut:
    """numpy.exp cut to a fresh positive value per call; the argument the code passes is recorded"""

    def __init__(self, tag):
        self.tag, self.calls = tag, []

    def __call__(self, a):
        a = a.item() if isinstance(a, np.ndarray) else a
        v = real(f"exp{self.tag}_{len(self.calls)}")
        assume(v.t > 0)
        self.calls.append((a if isinstance(a, SReal) else SReal(a), v))
        return v


GPF_CASES = {"ap|lin": (["ap"], ["lin"]), "lin|a0": (["lin"], ["a0"]), "lin|lin": (["lin"], ["lin"]), "a0|ap": (["a0"], ["ap"])}
# (two-component observations with a correlated 2x2 noise block were tried: the exponent identities stay `unknown` at 30 s per path and a share of
#  the paths takes more than 25 min, so they are not obligations - see OUTSIDE)


def _gpf_obs(tag, kinds, n, N, pop, sensor_id):
    m = len(kinds)
    h, y, Lr = reals(f"h{tag}", m, n), reals(f"y{tag}", m), _lower(f"Lr{tag}", m)
    comps = []
    for j, kind in enumerate(kinds):
        if _ang(kind):
            lo, hi = _lowhigh(kind)
            # an angular measurement function returns values of its principal range
            assume(y[j].t >= rv(lo), y[j].t < rv(hi))
            for i in range(N):
                v = h[j].dot(pop[:, i])
                assume(v.t >= rv(lo), v.t < rv(hi))
        comps.append((kind, (lambda hj: lambda st: hj.dot(st))(h[j])))
    o = UObs(comps, Lr.dot(Lr.T), y)
    o.sensor_id = sensor_id
    o.h, o.kinds = h, kinds
    return o


def _gpf_run(case, n=2, N=2):
    from resonaate.estimation.particle import genetic_particle_filter as G

    kA, kB = GPF_CASES[case]
    pop, s = reals("p", n, N), reals("s", N)
    for i in range(N):
        assume(s[i].t >= 0)
    # the observation listed first carries the larger sensor id (so any sensor-id ordering differs from list order)
    oA, oB = _gpf_obs("A", kA, n, N, pop, 22), _gpf_obs("B", kB, n, N, pop, 21)
    outs = []
    for tag, order in (("f", [oA, oB]), ("r", [oB, oA])):
        f = object.__new__(G.GeneticParticleFilter)
        f.population, f.scores, f.population_size = pop.copy(), s.copy(), N
        cut = _ExpCut(tag)
        with X_shadow(G, np=_NumpyWith(exp=cut)):
            f.forecast(order)
        outs.append({"order": order, "scores": f.scores, "calls": cut.calls, "res": f.particle_residuals, "R": f.r_matrix, "ang": f.is_angular})
    return pop, s, oA, oB, outs


def _gpf_inputs(case, n=2, N=2):
    kA, kB = GPF_CASES[case]

    def inputs(m):
        d = {"case": case, "pop": [[mfloat(m, z3.Real(f"p_{i}_{j}")) for j in range(N)] for i in range(n)], "s": [mfloat(m, z3.Real(f"s_{i}")) for i in range(N)], "obs": []}
        for tag, kinds in (("A", kA), ("B", kB)):
            mm = len(kinds)
            d["obs"].append({"kinds": kinds, "h": [[mfloat(m, z3.Real(f"h{tag}_{j}_{i}")) for i in range(n)] for j in range(mm)],
                             "y": [mfloat(m, z3.Real(f"y{tag}_{j}")) for j in range(mm)],
                             "Lr": [[mfloat(m, z3.Real(f"Lr{tag}_{i}_{j}")) if j <= i else 0.0 for j in range(mm)] for i in range(mm)]})
        return d

    return inputs


def replay_gpf(d):
    """real GeneticParticleFilter.forecast on doubles, both list orders, against the directly computed weights
    w_i ~ [s_i > 1e-12] exp(-1/2 sum_o r_oi^T R_o r_oi), r = measured - predicted difference wrapped into (-pi, pi] for angular rows"""
    from resonaate.estimation.particle import genetic_particle_filter as G

    pop, s = np.array(d["pop"], dtype=float), np.array(d["s"], dtype=float)
    obs = []
    for k, e in enumerate(d["obs"]):
        h, Lr = np.array(e["h"], dtype=float), np.array(e["Lr"], dtype=float)
        o = UObs([(kind, (lambda hj: lambda st: float(hj.dot(st)))(h[j])) for j, kind in enumerate(e["kinds"])], Lr.dot(Lr.T), np.array(e["y"], dtype=float))
        o.sensor_id = 22 - k
        obs.append((o, h, e))
    quad = np.zeros(pop.shape[1])
    for o, h, e in obs:
        for i in range(pop.shape[1]):
            r = h.dot(pop[:, i]) - np.array(e["y"], dtype=float)
            for j, kind in enumerate(e["kinds"]):
                if _ang(kind):
                    r[j] = math.pi - (math.pi - r[j]) % (2 * math.pi)
            quad[i] += r.dot(o.r_matrix).dot(r)
    w = np.exp(-0.5 * quad) * (s > 1e-12)
    w = w / w.sum() if w.sum() != 0.0 else np.ones_like(w) / len(w)
    got, rows_bad = [], []
    tol = 1e-7
    for order in ([obs[0], obs[1]], [obs[1], obs[0]]):
        f = object.__new__(G.GeneticParticleFilter)
        f.population, f.scores, f.population_size = pop.copy(), s.copy(), pop.shape[1]
        f.forecast([o for o, _h, _e in order])
        got.append(np.array(f.scores, dtype=float))
        # residual rows in list order (angular rows compared modulo a whole turn, and required in (-pi, pi])
        k = 0
        for o, h, e in order:
            for j, kind in enumerate(e["kinds"]):
                for i in range(pop.shape[1]):
                    want = h[j].dot(pop[:, i]) - e["y"][j]
                    have = float(f.particle_residuals[k, i])
                    if _ang(kind):
                        dd = abs(have - want)
                        if min(dd, abs(dd - 2 * math.pi)) > tol or not (-math.pi - 1e-12 < have <= math.pi + 1e-12):
                            rows_bad.append((k, i, have, want))
                    elif abs(have - want) > tol:
                        rows_bad.append((k, i, have, want))
                k += 1
    bad = bool(rows_bad or np.max(np.abs(got[0] - got[1])) > tol or np.max(np.abs(got[0] - w)) > tol or np.max(np.abs(got[1] - w)) > tol)
    return bad, {"scores_listed_order": got[0].tolist(), "scores_reversed_order": got[1].tolist(), "direct_formula": w.tolist(), "residual_rows_off (row, particle, stored, expected)": rows_bad[:6]}


def _sr(v):
    return v if isinstance(v, SReal) else SReal(v)


def o8_gpf(rep, case, part=0, parts=1):
    n, N = 2, 2
    res = explore(lambda: _gpf_run(case, n, N), max_paths=5000, max_depth=200)
    rep.note(f"paths={len(res)}")
    inputs = _gpf_inputs(case, n, N)
    done = 0
    for idx, r in enumerate(res):
        if r.exc is not None:
            rep.error("exception", repr(r.exc))
            continue
        if idx % parts != part:
            continue
        done += 1
        pop, s, oA, oB, outs = r.out
        tag = f"p{idx}"
        cons = r.constraints
        goals_rows, goals_arg, goals_w = [], [], []
        for out in outs:
            rows = [(o, j) for o in out["order"] for j in range(len(o.kinds))]
            Rspec = np.zeros((len(rows), len(rows)), dtype=object)
            k0 = 0
            for o in out["order"]:
                mm = len(o.kinds)
                Rspec[k0:k0 + mm, k0:k0 + mm] = o.r_matrix
                k0 += mm
            for i in range(N):
                rvec = []
                for k, (o, j) in enumerate(rows):
                    code = out["res"][k, i]
                    code = code if isinstance(code, SReal) else SReal(code)
                    diff = o.h[j].dot(pop[:, i]) - o.measurement_states[j]
                    if _ang(o.kinds[j]):
                        dd = code.t - diff.t
                        goals_rows.append(z3.And(code.t > -PI, code.t <= PI, z3.Or(dd == 0, dd == TWOPI, dd == -TWOPI)))
                    else:
                        goals_rows.append(code.t == diff.t)
                    rvec.append(code)
                q = SReal(0)
                for a in range(len(rows)):
                    for b in range(len(rows)):
                        Rab = Rspec[a, b]
                        if isinstance(Rab, SReal):
                            q = q + rvec[a] * Rab * rvec[b]
                goals_arg.append(out["calls"][i][0].t == (SReal(rv(-0.5)) * q).t)
            ev = [out["calls"][i][1] for i in range(N)]
            mask = [z3.If(s[i].t > rv(1e-12), z3.RealVal(1), z3.RealVal(0)) for i in range(N)]
            tot = sum(ev[i].t * mask[i] for i in range(N))
            for i in range(N):
                sc = _sr(out["scores"][i])
                goals_w.append(z3.If(tot == 0, sc.t == rv(1) / N, sc.t * tot == ev[i].t * mask[i]))
        rep.prove(f"rows[{tag}]", z3.And(*goals_rows), cons, timeout_ms=30000, inputs=inputs, replay=replay_gpf,
                  sample="particle_residuals row k, particle i = residual of the k-th listed observation component: angular rows wrapped into (-pi, pi] and congruent to predicted - measured, plain rows the plain difference")
        rep.prove(f"exponent[{tag}]", z3.And(*goals_arg), cons, timeout_ms=30000, inputs=inputs, replay=replay_gpf,
                  sample="argument of exp for particle i = -1/2 sum over the listed observations of r_oi^T R_o r_oi (each observation's residual meets its own noise block)")
        gw = z3.And(*goals_w)
        rep.prove(f"weights[{tag}]", gw, slice_for(gw, cons), timeout_ms=30000, inputs=inputs, replay=replay_gpf,
                  sample="scores after forecast() = exp value times the old-score mask, normalised (uniform when all vanish)")
        same = z3.And(*[outs[0]["calls"][i][0].t == outs[1]["calls"][i][0].t for i in range(N)])
        if rep.prove(f"order-exponent[{tag}]", same, cons, timeout_ms=30000, inputs=inputs, replay=replay_gpf,
                     sample="the exponent of every particle is the same for both list orders of the observations"):
            link = [outs[0]["calls"][i][1].t == outs[1]["calls"][i][1].t for i in range(N)]
            eq = z3.And(*[_sr(outs[0]["scores"][i]).t == _sr(outs[1]["scores"][i]).t for i in range(N)])
            rep.prove(f"order-scores[{tag}]", eq, slice_for(eq, list(cons) + link), timeout_ms=30000, inputs=inputs, replay=replay_gpf,
                      sample="scores after forecast() are the same for both list orders (exp values identified, justified by order-exponent)")
    if done == 0 and parts <= len(res):
        rep.error("reach", "no path in this share")
    if part == 0 and res and res[0].exc is None:
        rep.reachable("gpf-path", res[0].constraints)



def _cfg(n, tun, resample, obs, const=False):
    return {"n": n, "tun": tun, "resample": resample, "obs": obs, "const": const}


def _ukf_cases(tier):
    """(suffix, cfg) for the single-observation obligations O5*; `const`: the angular measurement does not depend on the state (every sigma
    point sees the same angle): there the mean is known exactly (mod 2pi), so range/seam violations have exact counterexamples"""
    cases = [("n1-pos-a0", _cfg(1, "pos", False, [["a0"]])),
             ("n1-neg-ap-lin-redraw", _cfg(1, "neg", True, [["ap", "lin"]])),
             ("n2-neg-val-a0", _cfg(2, "neg", False, [["val", "a0"]])),
             ("n1-pos-lin-ap-const", _cfg(1, "pos", False, [["lin", "ap"]], const=True))]
    if tier == "thorough":
        cases += [("n1-neg-a0-redraw", _cfg(1, "neg", True, [["a0"]])),
                  ("n1-pos-a0-ap", _cfg(1, "pos", False, [["a0", "ap"]])),
                  ("n2-pos-ap-redraw", _cfg(2, "pos", True, [["ap"]])),
                  ("n2-pos-lin-a0-redraw", _cfg(2, "pos", True, [["lin", "a0"]])),
                  ("n2-neg-a0-ap", _cfg(2, "neg", False, [["a0", "ap"]])),
                  ("n2-neg-a0-val-const-redraw", _cfg(2, "neg", True, [["a0", "val"]], const=True))]
    return cases


def _reuse_cases(tier):
    """(suffix, cfg): ONE filter object serves several forecast()/update() calls after a predict(); the stacks have the same total
    dimension but another layout of angular / plain components (another order of the same observations, or other observations)"""
    cases = [("n1-pos-a0+lin-reordered", dict(_cfg(1, "pos", False, [["a0"], ["lin"]]), steps=[("forecast", [0, 1]), ("update", [1, 0])])),
             ("n1-neg-ap.lin-then-lin.a0-redraw", dict(_cfg(1, "neg", True, [["ap", "lin"], ["lin", "a0"]]), steps=[("update", [0]), ("update", [1])]))]
    if tier == "thorough":
        cases += [("n2-neg-val+ap-reordered", dict(_cfg(2, "neg", False, [["val"], ["ap"]]), steps=[("forecast", [0, 1]), ("forecast", [1, 0]), ("update", [0, 1])])),
                  ("n1-pos-a0.lin.ap-then-lin+ap+a0", dict(_cfg(1, "pos", False, [["a0", "lin", "ap"], ["lin"], ["ap"], ["a0"]]), steps=[("forecast", [0]), ("update", [1, 2, 3])])),
                  ("n2-pos-lin.a0-then-a0+lin-redraw", dict(_cfg(2, "pos", True, [["lin", "a0"], ["a0"], ["lin"]]), steps=[("update", [0]), ("update", [1, 2])]))]
    return cases


def _same_sensor(cfg):
    """the same case with every observation taken by one sensor (same sensor id, same epoch, different content)"""
    return dict(cfg, sensor_ids=[21] * len(cfg["obs"]))


def _order_cases(tier):
    cases = [("n1-pos-a0+lin", _cfg(1, "pos", False, [["a0"], ["lin"]]), [[1, 0]]),
             ("n2-neg-a0+ap-redraw", _cfg(2, "neg", True, [["a0"], ["ap"]]), [[1, 0]]),
             ("n1-pos-a0+lin-samesensor", _same_sensor(_cfg(1, "pos", False, [["a0"], ["lin"]])), [[1, 0]]),
             ("n1-pos-lin+lin-samesensor", _same_sensor(_cfg(1, "pos", True, [["lin"], ["lin"]])), [[1, 0]])]
    if tier == "thorough":
        cases += [("n2-pos-ap+lin", _cfg(2, "pos", False, [["ap"], ["lin"]]), [[1, 0]]),
                  ("n1-neg-a0+ap+lin", _cfg(1, "neg", False, [["a0"], ["ap"], ["lin"]]), [[2, 1, 0], [1, 2, 0]]),
                  ("n1-pos-lin+a0+ap-redraw", _cfg(1, "pos", True, [["lin"], ["a0"], ["ap"]]), [[1, 0, 2], [2, 0, 1]])]
    return cases


def obligations(tier):
    obs = [
        Ob("O1", o1_wrap, "wrapAngle2Pi / wrapAngleNegPiPi ranges and congruence", 120),
        Ob("O2", o2_residual, "residual invariant under whole turns, range (-pi,pi]", 300),
        Ob("O2s", o2s_residual_single, "residuals()/residual(), one angular and one plain component: range (-pi,pi] at the exact seam, congruence mod 2pi, plain difference", 300),
        Ob("O3", o3_vec, "vecResiduals == residuals, range (-pi,pi]", 300),
        Ob("O4", lambda rep: o4_mean(rep, 2 if tier == "quick" else 3), "angularMean invariant under whole turns", 600),
        Ob("O4b", o4b_mean_wrappoint, "angularMean wrap points agree mod 2pi", 600),
    ]
    big = 900 if tier == "thorough" else 300
    for sfx, cfg in _ukf_cases(tier):
        obs.append(Ob(f"O5-spec-{sfx}", (lambda c: lambda rep: o5_spec(rep, c))(cfg),
                      "update(): mean_pred_y is the weighted circular mean in range, residuals/innovation wrapped into (-pi,pi] and congruent to the differences", big))
        obs.append(Ob(f"O5-turns-{sfx}", (lambda c: lambda rep: o5_shift(rep, c, False))(cfg),
                      "update(): adding whole turns to the measured angle and (independently) to every sigma-point angle leaves innovation, est_x, est_p unchanged", big))
        REPLAYS[f"O5-spec-{sfx}"] = replay_spec
        REPLAYS[f"O5-turns-{sfx}"] = replay_shift
        if cfg["const"]:
            continue  # a rotated constant field is covered by the general (state-dependent) fields
        obs.append(Ob(f"O5-seam-{sfx}", (lambda c: lambda rep: o5_shift(rep, c, True))(cfg),
                      "update(): rotating the configuration by any offset c (moving it onto / across / away from the wrap point) and re-wrapping every value independently "
                      "leaves sigma_y_res, innovation, est_x, est_p unchanged; mean_pred_y moves by c mod 2pi", big))
        REPLAYS[f"O5-seam-{sfx}"] = replay_shift
    for sfx, cfg in _reuse_cases(tier):
        obs.append(Ob(f"O7-reuse-spec-{sfx}", (lambda c: lambda rep: o5_spec(rep, c))(cfg),
                      "update() on a filter object that has already served forecast()/update() calls with another stack layout of the same dimension: flags, mean_pred_y, "
                      "sigma_y_res, innovation of THIS stack (angular rows wrapped into (-pi,pi], plain rows plain)", big))
        REPLAYS[f"O7-reuse-spec-{sfx}"] = replay_spec
        obs.append(Ob(f"O7-reuse-fresh-{sfx}", (lambda c: lambda rep: o7_reuse_fresh(rep, c))(cfg),
                      "the same update() on that reused filter object and on a fresh one: equal mean_pred_y, sigma_y_res, innovation, est_x, est_p", big))
        REPLAYS[f"O7-reuse-fresh-{sfx}"] = replay_reuse
    for sfx, cfg, perms in _order_cases(tier):
        obs.append(Ob(f"O6-order-{sfx}", (lambda c, p: lambda rep: o6_order(rep, c, p))(cfg, perms),
                      "update(): stacked observations in another order give the same est_x, est_p (innovation permuted)", 1500 if tier == "thorough" else 300))
        REPLAYS[f"O6-order-{sfx}"] = replay_order
    gpf = ["ap|lin", "lin|a0"] if tier == "quick" else list(GPF_CASES)
    for case in gpf:
        heavy = "+" in case
        parts = 8 if heavy else 2
        for part in range(parts):
            name = f"O8-gpf-{case}" + (f"#{part}" if parts > 1 else "")
            obs.append(Ob(name, (lambda c, a, b: lambda rep: o8_gpf(rep, c, a, b))(case, part, parts),
                          "GeneticParticleFilter.forecast() over two simultaneous observations in both list orders: residual rows, exponent of every particle's weight, "
                          "normalised scores against the direct formula; both orders give the same scores", 1500 if tier == "thorough" else 300, tiers=("quick", "thorough")))
            REPLAYS[name] = replay_gpf
    return obs


for _tier in ("quick", "thorough"):  # REPLAYS must be complete at import time (./check C16 --replay <file>)
    obligations(_tier)
