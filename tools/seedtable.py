#!/venv/bin/python
"""Regenerates section 12 of DESIGN.md (seeded changes and which checks catch them) from seeded/*/meta.json."""
import json, os, re
ROOT = "/verif/seeded"
rows = []
for name in sorted(os.listdir(ROOT)):
    p = os.path.join(ROOT, name, "meta.json")
    if not os.path.exists(p):
        continue
    m = json.load(open(p))
    det = m.get("detection", {})
    caught = "; ".join(f"{c}: {', '.join(v['first_obligations'][:4])}" for c, v in det.items() if v["violations"]) or "-"
    notes = open(os.path.join(ROOT, name, "notes.md")).read()
    what = " ".join(notes.split())
    what = re.sub(r"^#+\s*", "", what)[:230]
    files = ", ".join(os.path.basename(f) for f in m["files_touched"])
    rows.append((name, files, what.replace("|", "/"), "yes" if m.get("detected") else ("**no**" if "detected" in m else "n/a"), caught, m.get("first_run", "?").replace("|", "/")))
out = ["", "---", "", "## 12. Seeded changes: which check catches which",
       "",
       "Each change below was written by a fresh sub-agent that was given only the text of one property and its own scratch worktree",
       "of /repo (nothing from /verif), with the brief to break the property while keeping the test suite green and to need something",
       "specific to manifest. Each was confirmed before being kept (demo exits 0 on the unchanged tree and 1 with the patch; the full",
       "suite shows only the four baseline non-passing items), is stored as `seeded/<name>/` (`patch.diff`, `demo.py`, `notes.md`,",
       "`meta.json`), and was run through the quick check of its property with `tools/seedall.py` (scratch worktree with the patch",
       "applied, removed afterwards; nothing is ever committed to /repo). Patches whose context was changed by a later `fix:` commit were",
       "re-based by hand onto the new HEAD (C01b, C11b, C19b) and re-confirmed. Column *first run* says what the check did the first time",
       "it met the change, before anything was strengthened: only those `caught` entries are independent evidence; everything else was",
       "caught after the check had been extended with knowledge of the change.",
       "",
       "| seed | file(s) | change (from its notes) | caught now | by check: obligations | first run |", "|---|---|---|---|---|---|"]
for r in rows:
    out.append("| " + " | ".join(r) + " |")
n = len(rows); c = sum(1 for r in rows if r[3] == "yes"); blind = sum(1 for r in rows if r[5].startswith("caught"))
out += ["", f"Totals: {n} seeded changes, {c} reported as VIOLATION with a replay on the patched real code ({blind} of them at the first run, by checks that had no knowledge of the change).", ""]
s = open("/verif/DESIGN.md").read()
if "\n---\n\n## 12. Seeded changes" in s:
    a = s.index("\n---\n\n## 12. Seeded changes")
    b = s.find("\n---\n\n## 13.", a)
    s = s[:a] + "\n".join(out) + (s[b:] if b > 0 else "")
else:
    s = s + "\n".join(out)
open("/verif/DESIGN.md", "w").write(s)
print(n, c, blind)
