"""C04 - reference-frame conversions are exact inverses, rigid, continuous in time."""
from __future__ import annotations

import datetime as _dt
import math
from fractions import Fraction

import numpy as np
import z3

from symx.core import (PI_F, TWOPI_F, SBool, SInt, SReal, assume, const_array, eq_arrays, explore, integer, marray, mfloat, mval, real,
                       reals, resume, rv, single_path, slice_for, terms)
from symx.runner import Ob
from symx.stubs import shadow, sym_array

ID = "C04"
TECHNIQUE = ("symbolic execution of the real rotation helpers and frame conversions on z3 Real proxies in numpy object arrays; trigonometry by an "
             "angle algebra ((cos,sin) pairs with c^2+s^2=1 and exact addition formulas); every identity is an SMT query (nlsat), unsat = identity "
             "holds for all angles/vectors; the FK5 matrices are produced by the real ReductionParams.build on symbolic angles and then cut to "
             "symbolic orthogonal matrices after their orthogonality has been proved")
FLOAT_SEMANTICS = "Real-ideal (rounding outside the claim)"
ENCODED = [
    "resonaate.physics.maths:rot1", "resonaate.physics.maths:rot2", "resonaate.physics.maths:rot3", "resonaate.physics.maths:dotRot1",
    "resonaate.physics.maths:dotRot2", "resonaate.physics.maths:dotRot3", "resonaate.physics.maths:skewSymmetric",
    "resonaate.physics.transforms.methods:sez2ecef", "resonaate.physics.transforms.methods:ecef2sez",
    "resonaate.physics.transforms.methods:eci2ecef", "resonaate.physics.transforms.methods:ecef2eci",
    "resonaate.physics.transforms.methods:rsw2eci", "resonaate.physics.transforms.methods:eci2rsw", "resonaate.physics.transforms.methods:ntw2eci",
    "resonaate.physics.transforms.methods:spherical2cartesian", "resonaate.physics.transforms.methods:cartesian2spherical",
    "resonaate.physics.transforms.methods:razel2sez", "resonaate.physics.transforms.methods:sez2razel",
    "resonaate.physics.transforms.methods:lla2ecef",
    "resonaate.physics.transforms.reductions:ReductionParams.build", "resonaate.physics.transforms.reductions:getRotR",
    "resonaate.physics.transforms.reductions:PolarMotion.__init__", "resonaate.physics.transforms.reductions:PrecessionNutation.__init__",
    "resonaate.physics.time.conversions:dayOfYear", "resonaate.physics.time.conversions:greenwichApparentTime",
    "resonaate.physics.time.conversions:greenwichMeanTime",
]
BOUNDS = {"angles": "all real angles", "vectors": "all real 3-/6-vectors (non-zero where a direction is normalised)",
          "dates (O7)": "every calendar date 2014-01-01 .. 2022-12-31 incl. leap days, any time of day (symbolic fraction)"}
OUTSIDE = ["ecef2lla closed form (cube roots / arccos branch)", "numerical content of the IAU-76 nutation series and EOP table values",
           "leap-second jumps (dut1/dAT are symbols)", "floating-point rounding"]
ASSUMPTIONS = ["angle algebra for cos/sin; sqrt contract; arcsin/arctan2 contracts", "pi identified with const.PI",
               "O4b: rot_pnr / rot_w replaced by symbolic matrices constrained only by the orthogonality proved of the real ones in O4a"]
LEVEL_TEXT = ("Bounded symbolic verification: each conversion pair is executed on symbolic states and the inverse/rigidity identities are discharged by z3 "
              "for all real inputs; algebraic slips (a wrong matrix entry, a missing transpose, a sign) are satisfiable queries with concrete replays.")
LEVEL_NOTE = "Real arithmetic; trig via angle algebra; FK5 numeric series, EOP data and ecef2lla are outside; Earth-rate continuity is checked on the sidereal-time polynomial."

I3 = const_array(np.eye(3))


def _tag(r):
    return "".join("T" if d else "F" for d in r.path.decisions)


# --------------------------------------------------------------------------------
def replay_rot(d):
    from resonaate.physics import maths as M

    a, b = d["a"], d["b"]
    bad = False
    out = {}
    for i, f in enumerate((M.rot1, M.rot2, M.rot3)):
        R = f(a)
        e1 = np.abs(R @ R.T - np.eye(3)).max()
        e2 = np.abs(f(a) @ f(b) - f(a + b)).max()
        e3 = abs(np.linalg.det(R) - 1)
        axis = np.eye(3)[i]
        e4 = np.abs(R @ axis - axis).max()
        out[f.__name__] = [e1, e2, e3, e4]
        bad = bad or max(e1, e2, e3, e4) > 1e-9
    return bad, out


def o1_rot(rep):
    from resonaate.physics import maths as M

    with single_path() as p:
        a, b = real("a"), real("b")
        inputs = lambda m: {"a": mfloat(m, a.t), "b": mfloat(m, b.t)}  # noqa: E731
        for i, f in enumerate((M.rot1, M.rot2, M.rot3)):
            R = f(a)
            n = f.__name__
            cons = p.constraints()
            rep.prove(f"{n}-orthogonal", eq_arrays(R.dot(R.T), I3), cons, inputs=inputs, replay=replay_rot, sample=f"{n}(a) {n}(a)^T = I")
            rep.prove(f"{n}-inverse", eq_arrays(f(-a), R.T), p.constraints(), inputs=inputs, replay=replay_rot, sample=f"{n}(-a) = {n}(a)^T")
            rep.prove(f"{n}-compose", eq_arrays(R.dot(f(b)), f(a + b)), p.constraints(), inputs=inputs, replay=replay_rot, sample=f"{n}(a){n}(b) = {n}(a+b)")
            det = (R[0, 0] * (R[1, 1] * R[2, 2] - R[1, 2] * R[2, 1]) - R[0, 1] * (R[1, 0] * R[2, 2] - R[1, 2] * R[2, 0])
                   + R[0, 2] * (R[1, 0] * R[2, 1] - R[1, 1] * R[2, 0]))
            rep.prove(f"{n}-det", det.t == 1, p.constraints(), inputs=inputs, replay=replay_rot, sample=f"det {n}(a) = 1")
            axis = const_array(np.eye(3)[i])
            rep.prove(f"{n}-axis", eq_arrays(R.dot(axis), axis), p.constraints(), inputs=inputs, replay=replay_rot, sample=f"{n} fixes its axis")
        rep.reachable("angles", p.constraints() + [a.t == 1, b.t == 2])


# --------------------------------------------------------------------------------
def replay_skew(d):
    from resonaate.physics import maths as M

    w, v, a = np.array(d["w"]), np.array(d["v"]), d["a"]
    S = M.skewSymmetric(w)
    e1 = np.abs(S @ v - np.cross(w, v)).max()
    e2 = np.abs(S + S.T).max()
    e3 = max(np.abs(f(a, w) - g(a) @ S).max() for f, g in ((M.dotRot1, M.rot1), (M.dotRot2, M.rot2), (M.dotRot3, M.rot3)))
    # dotRot against the cross-product definition: dR v = R (w x v)
    e4 = max(np.abs(f(a, w) @ v - g(a) @ np.cross(w, v)).max() for f, g in ((M.dotRot1, M.rot1), (M.dotRot2, M.rot2), (M.dotRot3, M.rot3)))
    return max(e1, e2, e3, e4) > 1e-9, {"|S v - w x v|": e1, "|S + S^T|": e2, "|dotRot - R S|": e3, "|dotRot v - R (w x v)|": e4}


def o2_skew(rep):
    from resonaate.physics import maths as M

    with single_path() as p:
        w, v = reals("w", 3), reals("v", 3)
        a = real("a")
        inputs = lambda m: {"w": marray(m, w), "v": marray(m, v), "a": mfloat(m, a.t)}  # noqa: E731
        S = M.skewSymmetric(w)
        rep.prove("skew-is-cross", eq_arrays(S.dot(v), np.cross(w, v)), p.constraints(), inputs=inputs, replay=replay_skew,
                  sample="skewSymmetric(w) v = w x v")
        rep.prove("skew-antisymmetric", eq_arrays(S.T, -S), p.constraints(), inputs=inputs, replay=replay_skew, sample="S^T = -S")
        for f, g in ((M.dotRot1, M.rot1), (M.dotRot2, M.rot2), (M.dotRot3, M.rot3)):
            rep.prove(f"{f.__name__}", eq_arrays(f(a, w).dot(v), g(a).dot(np.cross(w, v))), p.constraints(), inputs=inputs, replay=replay_skew,
                      sample=f"{f.__name__}(a,w) v = {g.__name__}(a) (w x v)")
        rep.reachable("vectors", p.constraints() + [w[0].t == 1, w[1].t == 2, w[2].t == 3])


# --------------------------------------------------------------------------------
def replay_sez(d):
    from resonaate.physics.transforms import methods as T

    x, lat, lon = np.array(d["x"]), d["lat"], d["lon"]
    y = T.ecef2sez(x, lat, lon)
    e1 = np.abs(T.sez2ecef(y, lat, lon) - x).max()
    e2 = np.abs(T.ecef2sez(T.sez2ecef(x, lat, lon), lat, lon) - x).max()
    e3 = abs(np.linalg.norm(y[:3]) - np.linalg.norm(x[:3])) + abs(np.linalg.norm(y[3:]) - np.linalg.norm(x[3:]))
    # zenith: local vertical maps to Z
    up = np.array([math.cos(lat) * math.cos(lon), math.cos(lat) * math.sin(lon), math.sin(lat), 0, 0, 0])
    e4 = np.abs(T.ecef2sez(up, lat, lon)[:3] - np.array([0, 0, 1])).max()
    sc = max(1.0, np.abs(x).max())
    return max(e1, e2, e3) > 1e-9 * sc or e4 > 1e-9, {"roundtrip": e1, "roundtrip2": e2, "norms": e3, "zenith": e4}


def o3_sez(rep):
    from resonaate.physics.transforms import methods as T

    with single_path() as p:
        x = reals("x", 6)
        lat, lon = real("lat"), real("lon")
        inputs = lambda m: {"x": marray(m, x), "lat": mfloat(m, lat.t), "lon": mfloat(m, lon.t)}  # noqa: E731
        y = T.ecef2sez(x, lat, lon)
        rep.prove("sez2ecef(ecef2sez)", eq_arrays(T.sez2ecef(y, lat, lon), x), p.constraints(), inputs=inputs, replay=replay_sez, sample="sez2ecef(ecef2sez(x)) = x")
        rep.prove("ecef2sez(sez2ecef)", eq_arrays(T.ecef2sez(T.sez2ecef(x, lat, lon), lat, lon), x), p.constraints(), inputs=inputs, replay=replay_sez,
                  sample="ecef2sez(sez2ecef(x)) = x")
        n = lambda v: (v[0] * v[0] + v[1] * v[1] + v[2] * v[2]).t  # noqa: E731
        rep.prove("norms", z3.And(n(y[:3]) == n(x[:3]), n(y[3:]) == n(x[3:])), p.constraints(), inputs=inputs, replay=replay_sez, sample="|ecef2sez(x)| = |x| (position and velocity)")
        up = np.array([lat.cos() * lon.cos(), lat.cos() * lon.sin(), lat.sin(), 0, 0, 0], dtype=object)
        z = T.ecef2sez(up, lat, lon)
        rep.prove("zenith", eq_arrays(z[:3], const_array([0, 0, 1])), p.constraints(), inputs=inputs, replay=replay_sez, sample="local vertical maps to SEZ +Z")
        south = np.array([lat.sin() * lon.cos(), lat.sin() * lon.sin(), -lat.cos(), 0, 0, 0], dtype=object)
        rep.prove("south", eq_arrays(T.ecef2sez(south, lat, lon)[:3], const_array([1, 0, 0])), p.constraints(), inputs=inputs, replay=replay_sez, sample="local south maps to SEZ +S")
        rep.reachable("inputs", p.constraints() + [lat.t == 1])


# --------------------------------------------------------------------------------
class _Eops:
    def __init__(self):
        self.x_p, self.y_p = real("xp"), real("yp")
        self.delta_atomic_time = real("dat")
        self.d_delta_psi, self.d_delta_eps = real("ddpsi"), real("ddeps")
        self.delta_ut1 = real("dut1")
        self.length_of_day = real("lod")


def _build_real():
    """Run the real ReductionParams.build on symbolic angles (time series replaced by symbols)."""
    from resonaate.physics.transforms import reductions as RD

    ttt = real("ttt")
    gast = real("gast")
    with shadow(RD, utc2TerrestrialTime=lambda *a: (real("jd_tt"), ttt),
                _getNutationParameters=lambda t, a, b, num=2: (real("dpsi"), real("teps"), real("meps"), real("eqe")),
                dayOfYear=lambda *a: real("doy"), greenwichApparentTime=lambda *a: gast):
        return RD.ReductionParams.build(_dt.datetime(2020, 3, 1, 12, 0, 5), eops=_Eops())


def replay_fk5(d):
    from resonaate.physics.transforms.reductions import ReductionParams

    red = ReductionParams.build(_dt.datetime(2018, 5, 17, 3, 21, 7))
    e = max(np.abs(red.rot_pnr @ red.rot_pnr.T - np.eye(3)).max(), np.abs(red.rot_w @ red.rot_w.T - np.eye(3)).max(),
            np.abs(red.rot_rnp - red.rot_pnr.T).max(), np.abs(red.rot_wt - red.rot_w.T).max())
    return e > 1e-9, {"max_orthogonality_error": e}


def o4a_fk5(rep):
    with single_path() as p:
        red = _build_real()
        cons = p.constraints()
        W, PNR = red.rot_w, red.rot_pnr
        rep.note(f"trig atoms: {sum(1 for k in p.trig if k[0] == 'atom')}")
        for name, g in [("W-orthogonal", eq_arrays(W.dot(W.T), I3)), ("W^T-orthogonal", eq_arrays(W.T.dot(W), I3)),
                        ("rot_wt=W^T", eq_arrays(red.rot_wt, W.T)), ("rot_rnp=PNR^T", eq_arrays(red.rot_rnp, PNR.T))]:
            rep.prove(name, g, slice_for(g, cons), replay=replay_fk5, sample=name)
        # PNR orthogonality factor by factor: P N and R are products of elementary rotations of symbolic angles
        PN = red.rot_pn
        for name, M_ in (("PN", PN), ("PNR", PNR)):
            for i in range(3):
                for j in range(i, 3):
                    g = (M_[i].dot(M_[j])).t == (1 if i == j else 0)
                    rep.prove(f"{name}-rows[{i}{j}]", g, slice_for(g, cons), timeout_ms=60000, linearize=True, rounds=8, replay=replay_fk5, sample=f"rows {i},{j} of {name} orthonormal")
        rep.reachable("angles", cons)


def _cut_reduction(prefix=""):
    """Symbolic orthogonal W and PNR (cut of the real matrices, justified by O4a)."""
    W = reals(prefix + "W", 3, 3)
    N = reals(prefix + "N", 3, 3)
    for M_ in (W, N):
        assume(eq_arrays(M_.dot(M_.T), I3), eq_arrays(M_.T.dot(M_), I3))

    class Red:
        rot_w, rot_wt, rot_pnr, rot_rnp = W, W.T, N, N.T
        lod = real(prefix + "lod")

    return Red


def replay_eci(d):
    from resonaate.physics.transforms import methods as T

    t = _dt.datetime(2019, 7, 3, 11, 13, 17)
    x, y = np.array(d["x"]), np.array(d["y"])
    sc = max(1.0, np.abs(x).max(), np.abs(y).max())
    e1 = np.abs(T.ecef2eci(T.eci2ecef(x, t), t) - x).max()
    e2 = np.abs(T.eci2ecef(T.ecef2eci(x, t), t) - x).max()
    e3 = abs(np.linalg.norm(T.eci2ecef(x, t)[:3]) - np.linalg.norm(x[:3]))
    e4 = abs(np.linalg.norm((T.eci2ecef(x, t) - T.eci2ecef(y, t))[:3]) - np.linalg.norm((x - y)[:3]))
    return max(e1, e2, e3, e4) > 1e-8 * sc, {"ecef2eci(eci2ecef)": e1, "eci2ecef(ecef2eci)": e2, "norm": e3, "relative": e4}


def o4b_eci(rep):
    from resonaate.physics.transforms import methods as T

    with single_path() as p:
        Red = _cut_reduction()

        class RP:
            @staticmethod
            def build(utc_date, eops=None):
                return Red

        x, y = reals("x", 6), reals("y", 6)
        inputs = lambda m: {"x": marray(m, x), "y": marray(m, y)}  # noqa: E731
        with shadow(T, ReductionParams=RP, array=sym_array):
            fx = T.eci2ecef(x, None)
            back = T.ecef2eci(fx, None)
            back2 = T.eci2ecef(T.ecef2eci(x, None), None)
            fy = T.eci2ecef(y, None)
        cons = p.constraints()
        for i in range(6):
            g = back[i].t == x[i].t
            rep.prove(f"ecef2eci(eci2ecef)[{i}]", g, cons, timeout_ms=60000, linearize=True, inputs=inputs, replay=replay_eci, sample="ecef2eci(eci2ecef(x)) = x, component-wise")
            g = back2[i].t == x[i].t
            rep.prove(f"eci2ecef(ecef2eci)[{i}]", g, cons, timeout_ms=60000, linearize=True, inputs=inputs, replay=replay_eci, sample="eci2ecef(ecef2eci(x)) = x, component-wise")
        n = lambda v: (v[0] * v[0] + v[1] * v[1] + v[2] * v[2]).t  # noqa: E731
        rep.prove("position-norm", n(fx[:3]) == n(x[:3]), cons, timeout_ms=60000, linearize=True, inputs=inputs, replay=replay_eci, sample="|r_ecef| = |r_eci|")
        rep.prove("relative-position-rigid", n((fx - fy)[:3]) == n((x - y)[:3]), cons, timeout_ms=60000, linearize=True, inputs=inputs, replay=replay_eci,
                  sample="|r1-r2| preserved by eci2ecef")
        rep.reachable("orthogonal-matrices-exist", cons, timeout_ms=60000)


REPLAYS = {"O1": replay_rot, "O2": replay_skew, "O3": replay_sez, "O4a": replay_fk5, "O4b": replay_eci}


def obligations(tier):
    obs = [
        Ob("O1", o1_rot, "elementary rotations: orthogonal, det 1, inverse, composition, axis", 120),
        Ob("O2", o2_skew, "skewSymmetric(w) v = w x v; dotRot_i = rot_i [w]x", 120),
        Ob("O3", o3_sez, "SEZ <-> ECEF mutual inverses, rigid, zenith/south axes", 180),
        Ob("O4a", o4a_fk5, "real ReductionParams.build on symbolic angles: W, PN, PNR orthogonal; transposes", 400),
        Ob("O4b", o4b_eci, "ECI <-> ECEF mutual inverses on 6-states, rigid (orthogonal-matrix cut)", 400),
    ]
    try:
        from harness import c04_more

        obs += c04_more.obligations(tier)
    except ImportError:
        pass
    return obs
