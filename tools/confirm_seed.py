#!/venv/bin/python
"""Confirm a candidate seeded change delivered by a sub-agent and store it as /verif/seeded/<name>/.
  tools/confirm_seed.py <PROP> <letter> <dir with patch.diff demo.py notes.md>
Checks, in a scratch worktree of /repo HEAD under /tmp (removed afterwards): the demo exits 0 on the unchanged tree and 1 with the patch;
the patch touches only src/; the full baseline test command with the patch shows no failure outside the known baseline set."""
import json, os, re, shutil, subprocess, sys

prop, letter, src = sys.argv[1], sys.argv[2], sys.argv[3]
name = f"{prop}{letter}"
wt = f"/tmp/confirmwt_{name}"
BASE = {"testRemoteData", "testCalculateMetric", "testEntryPoint", "testDetectScheduledFiniteBurn"}


def sh(cmd, **k):
    return subprocess.run(cmd, shell=True, capture_output=True, text=True, **k)


res = {}
if os.environ.get("CONFIRM_LOG"):  # finish from the JSON a previous run printed (the suite is not run again)
    res = json.load(open(os.environ["CONFIRM_LOG"]))
    tail = res["suite_tail"]
    res["summary"] = (re.findall(r"(\d+ failed.*?passed.*?) in [\d.]+s", tail) or re.findall(r"(\d+ passed.*?) in [\d.]+s", tail) or ["?"])[-1]
else:
    subprocess.run(["git", "-C", "/repo", "worktree", "remove", "--force", wt], capture_output=True)
    assert sh(f"git -C /repo worktree add -q --detach {wt} HEAD").returncode == 0
try:
  if not os.environ.get("CONFIRM_LOG"):
    env = dict(os.environ, PYTHONPATH=f"{wt}/src", PYTHONDONTWRITEBYTECODE="1")
    d0 = subprocess.run(["/venv/bin/python", f"{src}/demo.py", wt], env=env, capture_output=True, text=True, timeout=1800)
    res["demo_clean"] = d0.returncode
    patch = open(f"{src}/patch.diff").read()
    files = re.findall(r"^diff --git a/(\S+)", patch, re.M)
    res["files"] = files
    res["only_src"] = all(f.startswith("src/") for f in files)
    ap = sh(f"cd {wt} && git apply {src}/patch.diff")
    res["applies"] = ap.returncode == 0
    d1 = subprocess.run(["/venv/bin/python", f"{src}/demo.py", wt], env=env, capture_output=True, text=True, timeout=1800)
    res["demo_patched"] = d1.returncode
    res["demo_patched_tail"] = (d1.stdout + d1.stderr)[-400:]
    imp = subprocess.run(["/venv/bin/python", "-c", "import resonaate; print(resonaate.__file__)"], env=env, capture_output=True, text=True)
    res["import"] = imp.stdout.strip()
    t = subprocess.run(f"cd {wt} && /venv/bin/python -m pytest -ra -q -p no:cacheprovider --timeout=900 --continue-on-collection-errors --junitxml=/tmp/confirm_{name}.xml 2>&1 | tail -25", shell=True, env=env,
                       capture_output=True, text=True, timeout=3600)
    tail = t.stdout
    failed = re.findall(r"^(?:FAILED|ERROR) (\S+)", tail, re.M)
    res["suite_tail"] = tail[-1500:]
    res["failed"] = failed
    res["new_failures"] = [f for f in failed if not any(b in f for b in BASE) and "test_config.py" not in f]
    try:
        import xml.etree.ElementTree as ET

        ts = ET.parse(f"/tmp/confirm_{name}.xml").getroot()
        ts = ts if ts.tag == "testsuite" else ts[0]
        res["summary"] = f"{ts.get('tests')} tests, {ts.get('failures')} failures, {ts.get('errors')} errors, {ts.get('skipped')} skipped (junit)"
        os.remove(f"/tmp/confirm_{name}.xml")
    except Exception as e:  # noqa: BLE001
        res["summary"] = f"(no junit: {e})"
finally:
    subprocess.run(["git", "-C", "/repo", "worktree", "remove", "--force", wt], capture_output=True)
ok = res.get("demo_clean") == 0 and res.get("demo_patched") == 1 and res.get("only_src") and res.get("applies") and not res.get("new_failures") and ("short test summary" in res.get("suite_tail", "") or os.environ.get("CONFIRM_LOG"))
res["confirmed"] = bool(ok)
print(json.dumps(res, indent=1))
if ok:
    dst = f"/verif/seeded/{name}"
    os.makedirs(dst, exist_ok=True)
    for f in ("patch.diff", "demo.py", "notes.md"):
        shutil.copy(f"{src}/{f}", f"{dst}/{f}")
    notes = open(f"{dst}/notes.md").read()
    meta = {"property": prop, "files_touched": res["files"], "needs_to_manifest": " ".join(notes.split())[:700],
            "origin": "independent sub-agent (fifth batch, wave g) given only the property text, a one-line list of earlier ideas to avoid, and a scratch worktree of /repo (nothing from /verif)",
            "confirmed": {"demo_on_unchanged_tree": "exit 0 (PASS)", "demo_with_patch": "exit 1 (FAIL)", "full_suite_with_patch": f"no new failures ({res['summary']}; failing: {', '.join(res['failed'])})",
                          "how": "tools/confirm_seed.py: scratch worktree of /repo HEAD under /tmp, PYTHONPATH=<worktree>/src, the repository's baseline pytest command; worktree removed afterwards"},
            "checks": [prop], "harness_informed_of_this_change_before_detection": False, "first_run": "(pending)"}
    json.dump(meta, open(f"{dst}/meta.json", "w"), indent=1)
    print("STORED", dst)
