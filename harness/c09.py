"""C09 - the output database is complete, duplicate-free and referentially consistent.

What is executed (real code, never a model of it): ScenarioClock.__init__ (epoch pre-insertion), Scenario.__init__ /
propagateTo / stepForward / saveDatabaseOutput, the real agent constructors and their getCurrentEphemeris / getDetectedManeuvers /
getFilterSteps / _update / _finalizeUpdate / _handleManeuverDetection / _saveFilterStep, the real registrations and remote
function bodies of the four executors, the real CentralizedTaskingEngine (assess, transient lists, getCurrentTasking), the real
Sensor.collectObservations / attemptObservation and the Observation / MissedObservation / TruthEphemeris / EstimateEphemeris /
Task / DetectedManeuver / SequentialFilterStep constructors, DataInterface._getSessionScope / insertData / bulkSave.

The start instant, the step index at which the run starts, the pre-inserted span, the requested durations, the environment's
outcomes (slew / field of view / visibility / maneuver detected / session failures: the mix of row types in the list, the failing row, the
failing commit) and all state vectors are solver variables.
Everything the scenario hands to the database crosses a recording stub; the oracle is stated over those calls only.
"""
from __future__ import annotations

import contextlib
import copy
import datetime as _dt
import itertools
import random
import types
from fractions import Fraction

import numpy as np
import z3

from symx import fp
from symx.core import SBool, SInt, SReal, Unsupported, assume, boolean, cur, explore, free_vars, integer, mval, real, resume, rv, slice_for, solve
from symx.dtmodel import IsoToken, SDateTime, STimeDelta
from symx.runner import Ob
from symx.stubs import shadow
from symx.timeenv import time_env

from harness.c01 import JDProvider, eval_where

ID = "C09"
TECHNIQUE = ("the real ScenarioClock.__init__, Scenario.__init__/propagateTo/stepForward/saveDatabaseOutput, the agents' getCurrentEphemeris and maneuver/filter-step bookkeeping, the "
             "registrations and remote-function bodies of the propagate/predict/update/task-execution executors, CentralizedTaskingEngine.assess and its transient lists, "
             "Sensor.collectObservations/attemptObservation and the row constructors are executed on symbolic IEEE doubles (symx.fp) with a symbolic calendar start instant, start "
             "step index, pre-inserted span, requested durations and solver-chosen environment outcomes; every object handed to the database is captured by a recording stub whose "
             "Epoch lookup evaluates the where-clause of the real Query; z3 decides on every path that the epochs are unique/increasing, that every row written at step k carries "
             "the same double as the Epoch row of step k, that each output holds exactly one row per agent/estimate/task pair and every transient row exactly once, and that a "
             "step is handed over in one bulkSave; DataInterface.insertData/bulkSave/_getSessionScope are explored on a list whose row types (a mix of up to three tables), failing row, "
             "failure kind and failing commit are solver variables: after the call a store behind the session factory holds all rows of the list or none")
FLOAT_SEMANTICS = ("IEEE-754 double: relaxed encoding (sound over-approximation) for proofs; candidates are replayed bit-for-bit on the real classes and re-drawn when the relaxed "
                   "rounding does not occur on real doubles; exact round-to-nearest-even encoding for the imported-state round trip")
ENCODED = ["resonaate.scenario.clock:ScenarioClock.__init__", "resonaate.scenario.clock:ScenarioClock.ticToc", "resonaate.scenario.clock:ScenarioClock.julian_date_epoch",
           "resonaate.scenario.clock:ScenarioClock.datetime_epoch", "resonaate.scenario.scenario:Scenario.__init__", "resonaate.scenario.scenario:Scenario.propagateTo",
           "resonaate.scenario.scenario:Scenario.stepForward", "resonaate.scenario.scenario:Scenario.saveDatabaseOutput",
           "resonaate.scenario.scenario_builder:ScenarioBuilder._loadAgentsIntoDatabase",
           "resonaate.agents.agent_base:Agent.__init__", "resonaate.agents.agent_base:Agent.julian_date_epoch", "resonaate.agents.target_agent:TargetAgent.getCurrentEphemeris",
           "resonaate.agents.target_agent:TargetAgent.importState", "resonaate.agents.sensing_agent:SensingAgent.getCurrentEphemeris",
           "resonaate.agents.estimate_agent:EstimateAgent.getCurrentEphemeris", "resonaate.agents.estimate_agent:EstimateAgent.getDetectedManeuvers",
           "resonaate.agents.estimate_agent:EstimateAgent.getFilterSteps", "resonaate.agents.estimate_agent:EstimateAgent._update",
           "resonaate.agents.estimate_agent:EstimateAgent._finalizeUpdate", "resonaate.agents.estimate_agent:EstimateAgent._handleManeuverDetection",
           "resonaate.agents.estimate_agent:EstimateAgent._saveFilterStep",
           "resonaate.parallel:JobExecutor.enqueueJob", "resonaate.parallel:JobExecutor.join",
           "resonaate.parallel.agent_propagation:PropagateRegistration.generateSubmission", "resonaate.parallel.agent_propagation:PropagateRegistration.processResults",
           "resonaate.parallel.estimate_prediction:EstPredictRegistration.generateSubmission", "resonaate.parallel.estimate_prediction:EstPredictRegistration.processResults",
           "resonaate.parallel.estimate_update:EstUpdateRegistration.processResults", "resonaate.parallel.tasking_execution:TaskExecutionRegistration.processResults",
           "resonaate.tasking.engine.engine_base:TaskingEngine.saveObservations", "resonaate.tasking.engine.engine_base:TaskingEngine.getCurrentObservations",
           "resonaate.tasking.engine.engine_base:TaskingEngine.saveMissedObservations", "resonaate.tasking.engine.engine_base:TaskingEngine.getCurrentMissedObservations",
           "resonaate.tasking.engine.centralized_engine:CentralizedTaskingEngine.assess", "resonaate.tasking.engine.centralized_engine:CentralizedTaskingEngine.getCurrentTasking",
           "resonaate.sensors.sensor_base:Sensor.collectObservations", "resonaate.sensors.sensor_base:Sensor.attemptObservation",
           "resonaate.data.observation:Observation", "resonaate.data.observation:MissedObservation",
           "resonaate.data.ephemeris:TruthEphemeris.fromECIVector", "resonaate.data.ephemeris:EstimateEphemeris.fromCovarianceMatrix",
           "resonaate.data.filter_step:SequentialFilterStep.recordFilterStep",
           "resonaate.data.data_interface:DataInterface._getSessionScope", "resonaate.data.data_interface:DataInterface.insertData", "resonaate.data.data_interface:DataInterface.bulkSave",
           "resonaate.physics.time.stardate:ScenarioTime.convertToJulianDate", "resonaate.physics.time.stardate:JulianDate.convertToScenarioTime"]

JD_1901 = Fraction(4830771, 2)
HORIZON = 30 * 86400  # scenario seconds covered
TGT_IDS, SEN_IDS, ENG_ID = (11, 12), (21, 22), 1


# ------------------------------------------------------------------------------------------------------------------
# two-mode predicates: z3 terms in a symbolic run, python values in a replay
# ------------------------------------------------------------------------------------------------------------------
def _term(x):
    if isinstance(x, (fp.SFloat, SReal)):
        return x.t
    if isinstance(x, SInt):
        return z3.ToReal(x.t)
    if isinstance(x, (bool, np.bool_)):
        return None
    if isinstance(x, (int, float, np.integer, np.floating)):
        return rv(x)
    return None


def _sym(x):
    return isinstance(x, (fp.SFloat, SReal, SInt, SBool, IsoToken, z3.ExprRef))


def EQ(a, b):
    """a == b: python bool when both are concrete, z3 Bool otherwise."""
    if isinstance(a, IsoToken) or isinstance(b, IsoToken):
        if not (isinstance(a, IsoToken) and isinstance(b, IsoToken)):
            return False
        return z3.And(a.n == b.n, a.sod == b.sod)
    if not _sym(a) and not _sym(b):
        try:
            r = a == b
            return bool(r.all()) if isinstance(r, np.ndarray) else bool(r)
        except Exception:  # noqa: BLE001
            return False
    ta, tb = _term(a), _term(b)
    if ta is None or tb is None:
        return False
    return ta == tb


def LT(a, b):
    if not _sym(a) and not _sym(b):
        return bool(a < b)
    return _term(a) < _term(b)


def _zb(x):
    if isinstance(x, SBool):
        return x.t
    if isinstance(x, z3.ExprRef):
        return x
    return z3.BoolVal(bool(x))


def ALL(xs):
    xs = list(xs)
    if all(isinstance(x, (bool, np.bool_)) for x in xs):
        return all(xs)
    return z3.And(*[_zb(x) for x in xs]) if xs else True


def ANY(xs):
    xs = list(xs)
    if all(isinstance(x, (bool, np.bool_)) for x in xs):
        return any(xs)
    return z3.Or(*[_zb(x) for x in xs]) if xs else False


def MATCH(rows, expected, same, row_key=None, exp_key=None):
    """rows is a permutation of expected under the pairwise predicate `same`.  Rows and expectations are first grouped by a concrete key
    (the target id, a python int); inside a group all permutations are enumerated (bounded: <= 4 elements per group)."""
    if len(rows) != len(expected):
        return False
    if row_key is not None:
        keys = sorted({row_key(r) for r in rows} | {exp_key(e) for e in expected})
        return ALL(MATCH([r for r in rows if row_key(r) == k], [e for e in expected if exp_key(e) == k], same) for k in keys)
    if len(rows) > 4:
        raise Unsupported("multiset match over more than 4 rows of one target")
    return ANY(ALL(same(r, e) for r, e in zip(rows, perm)) for perm in itertools.permutations(expected))


def EQV(a, b):
    """element-wise equality of two vectors / matrices"""
    a, b = np.asarray(a, dtype=object).ravel(), np.asarray(b, dtype=object).ravel()
    if a.shape != b.shape:
        return False
    return ALL(EQ(x, y) for x, y in zip(a, b))


# ------------------------------------------------------------------------------------------------------------------
# environment: symbolic (proxies, solver-chosen outcomes) or concrete (real float classes, outcomes from a dict)
# ------------------------------------------------------------------------------------------------------------------
POLICIES = {
    # environment outcomes that are fixed (everything else is chosen by the solver); names: slew|fov|vis_<step>_<sensor>_<n-th tasking of the step>, man_<step>_<target>
    "free": [],
    # step 0: first tasking may fail to slew / fall outside the field of view / be observed with a detected maneuver; step 1: it may be invisible or observed, maneuver free;
    # every other tasking is observed without a maneuver
    "quick": [(r"vis_0_.*", True), (r"man_0_11", True), (r"(slew|fov)_[1-9]\d*_.*", True), (r"(slew|fov|vis)_\d+_\d+_[2-9]", True), (r"man_\d+_12", False)],
    # both steps fully free for the first tasking of each sensor (slew / field of view / visibility / maneuver); every other tasking is observed without a maneuver
    "thorough": [(r"(slew|fov|vis)_\d+_\d+_[2-9]", True), (r"man_\d+_12", False)],
}


class Env:
    def __init__(self, ns, sym, choices=None, policy="free"):
        self.ns, self.sym, self.choices = ns, sym, dict(choices or {})
        self.asked, self.nstate = [], 0
        self.policy = policy

    def choose(self, name):
        import re

        for pat, val in POLICIES[self.policy]:
            if re.fullmatch(pat, name):
                return val
        self.asked.append(name)
        if self.sym:
            return bool(boolean("ch_" + name))
        return bool(self.choices.get(name, False))

    def state(self, tag, n=6):
        """a fresh state vector: solver variables, or distinct numbers in a replay (they never influence control flow)"""
        self.nstate += 1
        if self.sym:
            return np.array([real(f"x{self.nstate}_{tag}_{i}") for i in range(n)], dtype=object)
        return np.array([1000.0 * self.nstate + i + 0.25 for i in range(n)])

    def seconds(self, x):
        """ScenarioTime of a whole number of seconds"""
        if self.sym and not isinstance(x, (int, float)):
            return self.ns.ScenarioTime(fp.from_int(x, 0, HORIZON + 86400))
        return self.ns.ScenarioTime(x)


NUL = lambda *a, **k: None  # noqa: E731
LOGGER = types.SimpleNamespace(info=NUL, error=NUL, debug=NUL, warning=NUL)


def _config(dt, out, truth_only, save_filter_steps):
    ns = types.SimpleNamespace
    return ns(noise=ns(init_position_std_km=1e-3, init_velocity_std_km_p_sec=1e-6, random_seed=1),
              propagation=ns(target_realtime_propagation=True, sensor_realtime_propagation=True, propagation_model="two_body", integration_method="RK45",
                             truth_simulation_only=truth_only),
              observation=ns(realtime_observation=True), geopotential=ns(model="egm96.txt", degree=2, order=0),
              perturbations=ns(third_bodies=[], solar_radiation_pressure=False, general_relativity=False),
              estimation=ns(sequential_filter=ns(dynamics_model="two_body", save_filter_steps=save_filter_steps)),
              time=ns(physics_step_sec=dt, output_step_sec=out))


# ---- ray: put stores a copy (what pickling does), wait returns the first pending job, get returns the job's result ---------------
def _snapshot(x):
    c = copy.copy(x)
    d = getattr(c, "__dict__", {})
    for name in ("_detected_maneuvers", "_filter_info", "propagate_event_queue", "sensor_time_bias_event_queue"):
        if name in d:
            d[name] = list(d[name])
    if "_filter" in d:
        d["_filter"] = copy.copy(d["_filter"])
    if "_sensors" in d:
        s = copy.copy(d["_sensors"])
        s._host = c  # noqa: SLF001
        d["_sensors"] = s
    return c


class RayStub:
    def __init__(self):
        self.results = {}

    def put(self, x):
        return _snapshot(x)

    def wait(self, refs, **kw):
        refs = list(refs)
        return [refs[0]], refs[1:]

    def get(self, ref):
        if isinstance(ref, list):
            return [self.get(r) for r in ref]
        if isinstance(ref, str) and ref in self.results:
            return self.results[ref]
        return ref


class Remote:
    def __init__(self, rayst, fn, name):
        self.rayst, self.fn, self.name, self.n = rayst, fn, name, 0

    def remote(self, submission):
        self.n += 1
        ref = f"{self.name}-job{self.n}"
        self.rayst.results[ref] = self.fn(submission)
        return ref


# ------------------------------------------------------------------------------------------------------------------
# the recording database
# ------------------------------------------------------------------------------------------------------------------
class Call:
    def __init__(self, kind, rows, world):
        self.kind, self.rows = kind, list(rows)
        self.step = world.nsteps
        self.time, self.jd, self.iso, self.rd = world.reading()
        self.found = None
        self.states = {}


def _qe(f):
    """quantifier elimination (linear integer arithmetic): the lookup condition as a quantifier-free formula; the quantified formula itself when z3 cannot eliminate"""
    try:
        g = z3.Goal()
        g.add(f)
        r = z3.Then("qe", "simplify")(g).as_expr()
        return r
    except z3.Z3Exception:
        return f


class RecDB:
    """Stands for the output database.  Content before the run: the epochs the clock pre-inserted (index 0..N) and the epochs of
    earlier outputs beyond the span (index N < q <= k0 on the output grid).  getData evaluates the where-clause of the real Query."""

    def __init__(self, world, pre=None):
        self.world, self.calls, self.inserted = world, [], []
        self.pre = pre  # explicit list of Epoch rows (when the real clock constructor filled the table), else the symbolic span
        self.nq = 0

    def _pre_existing(self, clause):
        W = self.world
        if self.pre is not None:
            hits = [bool(eval_where(clause, {"timestampISO": r.timestampISO, "julian_date": r.julian_date})) for r in self.pre]
            return any(hits)
        if W.env.sym:
            self.nq += 1
            q = z3.Int(f"q!{self.nq}")
            c = eval_where(clause, {"timestampISO": IsoToken(z3.simplify(W.t0.tot + q * W.dt), z3.IntVal(0))})
            inside = z3.And(q >= 0, z3.Or(q <= W.N.t, z3.And(q <= W.k0.t, (q * W.dt) % W.out == 0)))
            return bool(SBool(_qe(z3.Exists([q], z3.And(inside, _zb(c))))))
        for q in W.pre_indices():
            if bool(eval_where(clause, {"timestampISO": (W.t0 + _dt.timedelta(seconds=q * W.dt)).isoformat(timespec="microseconds")})):
                return True
        return False

    def getData(self, query, multi=True):
        from resonaate.data.epoch import Epoch

        ents = [d["entity"] for d in query.column_descriptions]
        if ents != [Epoch]:
            raise Unsupported(f"recording database: query over {ents}")
        clause = query.whereclause
        found = [r for r in self.inserted if bool(eval_where(clause, {"timestampISO": r.timestampISO, "julian_date": r.julian_date}))]
        if self._pre_existing(clause):
            found.append(types.SimpleNamespace(pre=True))
        c = Call("get", [], self.world)
        c.found = bool(found)
        self.calls.append(c)
        return found if multi else (found[0] if found else None)

    def insertData(self, *rows):
        from resonaate.data.epoch import Epoch

        if not rows:
            raise ValueError("Cannot call `DataInterface.insertData()` without arguments.")
        # the column values are read at the time of the call (a real session expires the instances it committed)
        vals = [types.SimpleNamespace(is_epoch=isinstance(r, Epoch), timestampISO=getattr(r, "timestampISO", None), julian_date=getattr(r, "julian_date", None)) for r in rows]
        self.calls.append(Call("insert", vals, self.world))
        self.inserted.extend(v for v in vals if v.is_epoch)

    def bulkSave(self, data):
        c = Call("bulk", data, self.world)
        W = self.world
        for a in list(W.targets.values()) + list(W.sensors.values()):
            c.states[("truth", a.simulation_id)] = a.eci_state
        for a in W.estimates.values():
            c.states[("est", a.simulation_id)] = (a.eci_state, a.error_covariance, a.nominal_filter.source)
        for e in W.engines.values():
            c.states[("eng", e.unique_id)] = (dict(e.target_indices), dict(e.sensor_indices), np.array(e.visibility_matrix), np.array(e.reward_matrix), np.array(e.decision_matrix))
        self.calls.append(c)
        return len(c.rows)


# ------------------------------------------------------------------------------------------------------------------
# the world: real clock, real agents, real engine, real executors; numerics and geometry are environment
# ------------------------------------------------------------------------------------------------------------------
class World:
    def __init__(self, env, t0, js, dt, out, k0, N, n_targets=1, n_sensors=0, truth_only=True, save_filter_steps=False, with_engine=False, jdp=None, idle_estimates=False):
        self.env, self.t0, self.js, self.dt, self.out, self.k0, self.N = env, t0, js, dt, out, k0, N
        self.cfg = dict(n_targets=n_targets, n_sensors=n_sensors, truth_only=truth_only, save_filter_steps=save_filter_steps, with_engine=with_engine, idle_estimates=idle_estimates)
        self.jdp = jdp
        self.nsteps = 0
        self.steps = []  # per executed step: dict(time, jd, obs, missed, man, fs)
        self.man_events, self.fs_events = [], []
        self.targets, self.sensors, self.estimates, self.engines = {}, {}, {}, {}
        self.rayst = RayStub()
        self.clock = None
        self.db = None
        self.sc = None
        self.stack = contextlib.ExitStack()

    def reading(self):
        """(scenario time, Julian date, ISO timestamp) the clock shows now - its public API, read once per distinct clock time; `readings` keeps them in order of appearance"""
        d = self.__dict__.setdefault("readings", {})
        tm = self.clock.time
        key = z3.simplify(tm.t).sexpr() if self.env.sym else float(tm)
        if key not in d:
            clock = self.clock
            d[key] = (tm, clock.julian_date_epoch, clock.datetime_epoch.isoformat(timespec="microseconds"), len(d))
        return d[key]

    # -- what the table held before the run (replay) --
    def pre_indices(self):
        idx = list(range(0, self.N + 1))
        idx += [q for q in range(self.N + 1, self.k0 + 1) if (q * self.dt) % self.out == 0]
        return idx

    # -- shadows: everything that is environment (ray, geometry, numerics), installed in both modes --
    def install(self):
        import resonaate.parallel as P
        from resonaate.agents import estimate_agent as EA
        from resonaate.agents import sensing_agent as SA
        from resonaate.agents import target_agent as TA
        from resonaate.data import observation as OB
        from resonaate.parallel import agent_propagation as AP
        from resonaate.parallel import estimate_prediction as EP
        from resonaate.parallel import estimate_update as EU
        from resonaate.parallel import tasking_execution as TE
        from resonaate.parallel import tasking_reward_generation as TR
        from resonaate.scenario import scenario as SC
        from resonaate.sensors import sensor_base as SB
        from resonaate.tasking.engine import centralized_engine as CE

        st, r = self.stack, self.rayst
        ident = lambda x, *a, **k: x  # noqa: E731
        lla = lambda x, *a, **k: x[:3]  # noqa: E731
        for mod in (TA, SA, EA):
            st.enter_context(shadow(mod, eci2ecef=ident, ecef2lla=lla))
        st.enter_context(shadow(P, ray=r))
        ray_sc = types.SimpleNamespace(put=r.put, get=r.get, wait=r.wait)
        es = types.SimpleNamespace(logAndFlushEvents=NUL)
        behav = types.SimpleNamespace(getConfig=lambda: types.SimpleNamespace(debugging=types.SimpleNamespace(ThreeSigmaObs=False)))
        sc_names = dict(ray=ray_sc, EventStack=es, BehavioralConfig=behav, handleRelevantEvents=NUL, getRelevantEvents=lambda *a, **k: [], seterr=NUL)
        if self.jdp is not None:
            sc_names["datetimeToJulianDate"] = self.jdp
        st.enter_context(shadow(SC, **sc_names))
        st.enter_context(shadow(TE, ray=r, asyncExecuteTasking=Remote(r, TE.asyncExecuteTasking._function, "exec")))  # noqa: SLF001
        st.enter_context(shadow(EU, ray=r, asyncUpdateEstimate=Remote(r, EU.asyncUpdateEstimate._function, "update")))  # noqa: SLF001
        st.enter_context(shadow(EP, asyncPredict=Remote(r, EP.asyncPredict._function, "predict")))  # noqa: SLF001
        st.enter_context(shadow(AP, asyncPropagate=Remote(r, AP.asyncPropagate._function, "prop"), ReductionParams=types.SimpleNamespace(build=lambda *a, **k: None)))  # noqa: SLF001
        st.enter_context(shadow(TR, asyncCalculateReward=Remote(r, self._reward, "reward")))
        ce_names = dict(ray=r, handleRelevantEvents=NUL)
        if self.jdp is not None:
            ce_names["datetimeToJulianDate"] = self.jdp
        st.enter_context(shadow(CE, **ce_names))
        st.enter_context(shadow(SB, getSlantRangeVector=lambda a, b, utc: np.array([1.0, 2.0, 2.0, 0.0, 0.0, 0.0])))
        st.enter_context(shadow(OB, julianDateToDatetime=lambda jd: None))
        return self

    def close(self):
        self.stack.close()

    def _reward(self, sub):
        from resonaate.parallel import tasking_reward_generation as TR

        tid = sub.estimate_handle.simulation_id
        nS = len(sub.sensor_handle_list)
        K = self.engines[ENG_ID].num_metrics
        met = np.array([[1.0 + 0.1 * k + 0.01 * si for k in range(K)] for si in range(nS)])
        return TR.RewardCalcResult(estimate_id=tid, visibility=np.ones(nS, dtype=bool), metric_matrix=met)

    # -- construction --
    def bare_clock(self):
        from resonaate.scenario import clock as CK

        env = self.env
        clock = object.__new__(CK.ScenarioClock)
        clock.datetime_start, clock.julian_date_start = self.t0, self.js
        clock.dt_step = env.ns.ScenarioTime(self.dt)
        clock.time = env.seconds(self.k0.t * self.dt if env.sym else self.k0 * self.dt)
        clock.initial_time = env.ns.ScenarioTime(0)
        clock.logger = None
        self.clock = clock
        return clock

    def _dynamics(self):
        from resonaate.dynamics.two_body import TwoBody

        world = self

        class EnvDynamics(TwoBody):
            def propagate(self, initial_time, final_time, initial_state, **kw):
                return world.env.state("prop")

        return EnvDynamics()

    def _filter(self, tid, x0, p0, dyn):
        from resonaate.estimation.kalman.unscented_kalman_filter import UnscentedKalmanFilter

        world = self

        class EnvFilter(UnscentedKalmanFilter):
            def predict(self, final_time, scheduled_events=None):
                self.time = final_time
                self.pred_x, self.pred_p = world.env.state("predx"), world.env.state("predp", 36).reshape(6, 6)
                self.source = "Propagation"

            def getPredictionResult(self):
                from resonaate.estimation.sequential_filter import SequentialFilter

                return SequentialFilter.getPredictionResult(self)

            def update(self, observations):
                s = world.nsteps  # index of the step being executed (0-based)
                if observations:
                    self.est_x, self.est_p = world.env.state("estx"), world.env.state("estp", 36).reshape(6, 6)
                    self.source = "Observation"
                    self.innovation = np.array([0.1, 0.2, 0.3, 0.4])
                    self.nis = np.array(1.5)
                    self.maneuver_detected = world.env.choose(f"man_{s}_{tid}")
                    world.fs_events.append((s, tid))
                    if self.maneuver_detected:
                        world.man_events.append((s, tid))
                else:
                    self.est_x, self.est_p = self.pred_x, self.pred_p
                    self.maneuver_detected = False

        f = object.__new__(EnvFilter)
        f.dynamics, f.target_id, f.time = dyn, tid, self.clock.time
        f.est_x, f.est_p, f.pred_x, f.pred_p = x0, p0, x0, p0
        f.source = "Initialization"
        f.maneuver_detected, f.maneuver_metric = False, 3.0
        f.maneuver_detection = types.SimpleNamespace(threshold=0.5)
        f.nis, f.innovation = np.array(0.0), np.array([0.0, 0.0, 0.0, 0.0])
        f.q_matrix, f.cross_cvr, f.innov_cvr, f.kalman_gain = np.eye(6), np.zeros((6, 4)), np.eye(4), np.zeros((6, 4))
        return f

    def _sensor(self, sid):
        from resonaate.common.labels import Explanation
        from resonaate.physics.measurements import Measurement
        from resonaate.sensors.radar import Radar

        world = self

        class EnvMeasurement(Measurement):
            def calculateMeasurement(self, sensor_eci, tgt_eci, utc, noisy=False):
                return {"azimuth_rad": 0.1, "elevation_rad": 0.2, "range_km": 1000.0, "range_rate_km_p_sec": 0.5}

        class EnvFoV:
            def inFieldOfView(self, pointing, slant):
                return world.env.choose(f"fov_{world.nsteps}_{sid}_{world._ncall(('fov', sid))}")

        class EnvRadar(Radar):
            def canSlew(self, slant_range_sez):
                return world.env.choose(f"slew_{world.nsteps}_{sid}_{world._ncall(('slew', sid))}")

            def isVisible(self, tgt_eci_state, viz_cross_section, reflectivity, slant_range_sez):
                if world.env.choose(f"vis_{world.nsteps}_{sid}_{world._ncall(('vis', sid))}"):
                    return True, Explanation.VISIBLE
                return False, Explanation.LINE_OF_SIGHT

        s = EnvRadar(az_mask=np.array([0.0, 359.0]), el_mask=np.array([0.0, 90.0]), r_matrix=np.diag([1e-8, 1e-8, 1e-6, 1e-8]), diameter=10.0, efficiency=0.9, tx_power=1e6,
                     tx_frequency=1e9, min_detectable_power=1e-14, slew_rate=1.0, field_of_view=EnvFoV(), background_observations=False, minimum_range=0.0, maximum_range=1e6)
        m = object.__new__(EnvMeasurement)
        m.__dict__.update(s._measurement.__dict__)  # noqa: SLF001
        s._measurement = m  # noqa: SLF001
        return s

    def _ncall(self, key):
        d = self.__dict__.setdefault("_counts", {})
        k = (self.nsteps, key)
        d[k] = d.get(k, 0) + 1
        return d[k]

    def populate(self):
        """Real agent constructors on the current clock."""
        from resonaate.agents.estimate_agent import EstimateAgent
        from resonaate.agents.sensing_agent import SensingAgent
        from resonaate.agents.target_agent import TargetAgent

        c = self.cfg
        for tid in TGT_IDS[:c["n_targets"]]:
            self.targets[tid] = TargetAgent(tid, f"T{tid}", "Spacecraft", self.env.state("t0"), self.clock, self._dynamics(), True, 10.0, 100.0, 0.2)
            if not c["truth_only"] or c.get("idle_estimates"):  # a truth-only run of a built scenario still carries its (idle) estimate agents
                x0, p0 = self.env.state("e0"), self.env.state("p0", 36).reshape(6, 6)
                dyn = self._dynamics()
                self.estimates[tid] = EstimateAgent(tid, f"T{tid}", "Spacecraft", self.clock, x0, p0, self._filter(tid, x0, p0, dyn), None, None, 10.0, 100.0, 0.2)
        for sid in SEN_IDS[:c["n_sensors"]]:
            self.sensors[sid] = SensingAgent(sid, f"S{sid}", "GroundFacility", self.env.state("s0"), self.clock, self._sensor(sid), self._dynamics(), True, 10.0, 100.0, 0.2)
        if c["with_engine"]:
            from harness.c08 import _engine

            self.engines[ENG_ID] = _engine(sorted(self.targets), sorted(self.sensors), "allvisible")
        return self

    def scenario(self, real_init):
        """The Scenario: through its real constructor (initial output included) or bare at a later step."""
        from resonaate.scenario import scenario as SC

        c = self.cfg
        config = _config(self.dt, self.out, c["truth_only"], c["save_filter_steps"])
        db = self.db
        if real_init:
            with shadow(SC, getDBConnection=lambda: db):
                sc = SC.Scenario(config, self.clock, self.targets, self.estimates, self.sensors, self.engines, None, LOGGER)
        else:
            # a run in progress: the object is still built by the real constructor (whatever private state it sets up is there); the output the constructor
            # makes of the present state stands for the output that happened when the run got here and goes to a throw-away database
            class Earlier:
                def getData(self, query, multi=True):
                    return [object()] if multi else object()

                def insertData(self, *rows):
                    pass

                def bulkSave(self, data):
                    return len(data)

            with shadow(SC, getDBConnection=Earlier):
                sc = SC.Scenario(config, self.clock, self.targets, self.estimates, self.sensors, self.engines, None, LOGGER)
            sc.database = db
        real_step = sc.stepForward
        world = self

        def step():
            before = {e: len(eng.missed_observations) for e, eng in world.engines.items()}
            real_step()
            tm, jd, _iso, _i = world.reading()
            rec = dict(index=world.nsteps, time=tm, jd=jd, obs=[], missed=[])
            for e, eng in world.engines.items():
                rec["obs"] += list(eng.observations)
                rec["missed"] += list(eng.missed_observations[before[e]:])
            world.steps.append(rec)
            world.nsteps += 1

        sc.stepForward = step
        self.sc = sc
        self.reading()
        return sc


# ------------------------------------------------------------------------------------------------------------------
# the oracle over the recorded calls (one function for both modes)
# ------------------------------------------------------------------------------------------------------------------
def audit(W, first_output_is_initial=False):
    """{category: condition}; conditions are z3 Bools (symbolic run) or python bools (replay)."""
    from resonaate.data.detected_maneuver import DetectedManeuver
    from resonaate.data.ephemeris import EstimateEphemeris, TruthEphemeris
    from resonaate.data.epoch import Epoch
    from resonaate.data.filter_step import FilterStep
    from resonaate.data.observation import MissedObservation, Observation
    from resonaate.data.task import Task

    c = W.cfg
    calls = W.db.calls
    g = {k: [] for k in ("cadence", "atomic", "epoch", "epoch-order", "truth", "estimate", "observation", "missed", "task", "maneuver", "filter-step", "reference", "reference-intermediate")}
    outputs = [{"bulk": cl} for cl in calls if cl.kind == "bulk"]
    # ---- cadence: exactly one bulkSave after each step whose time is a multiple of the output step (plus the initial one), none after the others ----
    by_step = {}
    for o in outputs:
        by_step.setdefault(o["bulk"].step, []).append(o)
    n_initial = 1 if first_output_is_initial else 0
    g["cadence"].append(len(by_step.get(0, [])) == n_initial)
    for s, rec in enumerate(W.steps):
        due = _due(W, rec["time"])
        n_here = len(by_step.get(s + 1, []))
        g["cadence"].append(ALL([_implies(due, n_here == 1), _implies(_not(due), n_here == 0)]))
    g["cadence"].append(all(s <= len(W.steps) for s in by_step))
    # ---- epochs: only Epoch rows are inserted one by one; each denotes an instant the clock has shown (same double, same timestamp); never one the table already holds ----
    readings = sorted(W.readings.values(), key=lambda rd: rd[3])
    seen_epochs = []  # (iso, jd) of the epochs inserted during the run
    for cl in calls:
        if cl.kind != "insert":
            continue
        g["atomic"].append(all(r.is_epoch for r in cl.rows))
        for e in cl.rows:
            shown = [rd for rd in readings if rd[3] <= cl.rd]
            g["epoch"].append(ANY(ALL([EQ(e.julian_date, rd[1]), EQ(e.timestampISO, rd[2])]) for rd in shown))
            present_before = ANY([_pre_has_iso(W, e.timestampISO)] + [EQ(iso, e.timestampISO) for iso, _jd in seen_epochs])
            g["epoch"].append(_not(present_before))
            seen_epochs.append((e.timestampISO, e.julian_date))
    # strictly increasing: the Julian dates the clock shows at consecutive steps
    for r1, r2 in zip(readings, readings[1:]):
        g["epoch-order"].append(ALL([LT(r1[1], r2[1]), LT(r1[0], r2[0])]))
    # ---- rows of each output ----
    prev_step = 0
    for o in outputs:
        b = o["bulk"]
        rows = list(b.rows)
        used = set()

        def take(pred):
            out = [r for r in rows if pred(r)]
            used.update(id(r) for r in out)
            return out

        # truth ephemerides: exactly one per target and per sensor, this epoch, the agent's state
        truth = take(lambda r: isinstance(r, TruthEphemeris))
        ids = sorted(list(W.targets) + list(W.sensors))
        g["truth"].append(len(truth) == len(ids))
        for aid in ids:
            mine = [r for r in truth if EQ(r.agent_id, aid) is True]
            g["truth"].append(len(mine) == 1)
            for r in mine:
                g["truth"].append(ALL([EQ(r.julian_date, b.jd), EQV(r.eci, b.states[("truth", aid)])]))
        est = take(lambda r: isinstance(r, EstimateEphemeris))
        eids = [] if c["truth_only"] else sorted(W.estimates)
        g["estimate"].append(len(est) == len(eids))
        for aid in eids:
            mine = [r for r in est if EQ(r.agent_id, aid) is True]
            g["estimate"].append(len(mine) == 1)
            for r in mine:
                x, p, src = b.states[("est", aid)]
                g["estimate"].append(ALL([EQ(r.julian_date, b.jd), EQV(r.eci, x), EQV(r.covariance, p), r.source == src]))
        # transient rows: everything produced in the steps since the previous output, exactly once, with the epoch of its step
        window = [rec for rec in W.steps if prev_step <= rec["index"] < b.step] if not c["truth_only"] else []
        for cat, cls, key in (("observation", Observation, "obs"), ("missed", MissedObservation, "missed")):
            got = take(lambda r, cls=cls: type(r) is cls)
            want = [(x, rec) for rec in window for x in rec[key]]
            g[cat].append(len(got) == len(want) and all(sum(1 for r in got if r is x) == 1 for x, _ in want))
            for x, rec in want:
                g[cat].append(EQ(x.julian_date, rec["jd"]))
                g["reference-intermediate" if rec["index"] + 1 != b.step else "reference"].append(_epoch_exists(W, rec, seen_epochs))
        man = take(lambda r: isinstance(r, DetectedManeuver))
        want = [(tid, W.steps[s]) for s, tid in W.man_events if prev_step <= s < b.step] if not c["truth_only"] else []
        g["maneuver"].append(MATCH(man, want, lambda r, e: ALL([EQ(r.target_id, e[0]), EQ(r.julian_date, e[1]["jd"])]), lambda r: r.target_id, lambda e: e[0]))
        for _tid, rec in want:
            g["reference-intermediate" if rec["index"] + 1 != b.step else "reference"].append(_epoch_exists(W, rec, seen_epochs))
        fs = take(lambda r: isinstance(r, FilterStep))
        want = [(tid, W.steps[s]) for s, tid in W.fs_events if prev_step <= s < b.step] if c["save_filter_steps"] else []
        g["filter-step"].append(MATCH(fs, want, lambda r, e: ALL([EQ(r.target_id, e[0]), EQ(r.julian_date, e[1]["jd"])]), lambda r: r.target_id, lambda e: e[0]))
        for _tid, rec in want:
            g["reference-intermediate" if rec["index"] + 1 != b.step else "reference"].append(_epoch_exists(W, rec, seen_epochs))
        tasks = take(lambda r: isinstance(r, Task))
        n_want = 0
        if not c["truth_only"]:
            for eid in W.engines:
                tix, six, vis, rew, dec = b.states[("eng", eid)]
                for tid, ti in tix.items():
                    for sid, si in six.items():
                        n_want += 1
                        mine = [r for r in tasks if r.target_id == tid and r.sensor_id == sid]
                        g["task"].append(len(mine) == 1)
                        for r in mine:
                            g["task"].append(ALL([EQ(r.julian_date, b.jd), bool(r.visibility == vis[ti, si]), bool(r.reward == rew[ti, si]), bool(r.decision == dec[ti, si])]))
        g["task"].append(len(tasks) == n_want)
        g["atomic"].append(len(used) == len(rows))  # nothing else was handed over
        # the epoch every row of this output refers to is in the table at the end of the run
        g["reference"].append(_epoch_exists(W, {"jd": b.jd, "time": b.time, "iso": b.iso}, seen_epochs))
        prev_step = b.step
    return {k: ALL(v) for k, v in g.items()}


def _implies(a, b):
    if isinstance(a, (bool, np.bool_)):
        return b if a else True
    return z3.Implies(_zb(a), _zb(b))


def _not(a):
    if isinstance(a, (bool, np.bool_)):
        return not a
    return z3.Not(_zb(a))


def _due(W, t):
    """t is a multiple of the output step (t: ScenarioTime of a whole number of seconds)"""
    if W.env.sym:
        return (z3.ToInt(t.t) % W.out) == 0
    return float(t) % W.out == 0


def _index(W, t):
    """step index of the scenario time t (whole multiples of dt)"""
    if W.env.sym:
        return z3.ToInt(t.t) / W.dt
    return int(round(float(t))) // W.dt


def _pre_has_iso(W, iso):
    """the table held an epoch with this timestamp before the run started (pre-inserted by the clock, or an earlier output beyond the span)"""
    if W.db.pre is not None:
        return ANY(EQ(r.timestampISO, iso) for r in W.db.pre)
    if W.env.sym:
        off = iso.n - W.t0.tot  # seconds after the start instant
        k = off / W.dt
        return z3.And(off % W.dt == 0, k >= 0, z3.Or(k <= W.N.t, z3.And(k <= W.k0.t, (k * W.dt) % W.out == 0)))
    return iso in {(W.t0 + _dt.timedelta(seconds=q * W.dt)).isoformat(timespec="microseconds") for q in W.pre_indices()}


def _epoch_exists(W, rec, inserted):
    """an Epoch row with the Julian date of the step `rec` is in the table at the end of the run (held before the run, or inserted during it)"""
    conds = [EQ(jd, rec["jd"]) for _iso, jd in inserted]
    if W.db.pre is not None:
        conds.append(ANY(EQ(r.julian_date, rec["jd"]) for r in W.db.pre))
    else:
        k = _index(W, rec["time"])
        if W.env.sym:
            conds.append(z3.Or(k <= W.N.t, z3.And(k <= W.k0.t, (k * W.dt) % W.out == 0)))
        else:
            conds.append(k in set(W.pre_indices()))
    return ANY(conds)


# ------------------------------------------------------------------------------------------------------------------
# running the world: symbolically (all inputs solver variables) and concretely (replay on the real float classes)
# ------------------------------------------------------------------------------------------------------------------
MODS = ["resonaate.scenario.scenario", "resonaate.scenario.clock", "resonaate.agents.agent_base", "resonaate.agents.target_agent", "resonaate.agents.sensing_agent",
        "resonaate.agents.estimate_agent", "resonaate.data.observation", "resonaate.sensors.sensor_base", "resonaate.tasking.engine.centralized_engine",
        "resonaate.tasking.engine.engine_base", "resonaate.parallel.agent_propagation", "resonaate.parallel.estimate_prediction", "resonaate.parallel.estimate_update"]
JD_LO, JD_HI = Fraction(4830041, 2), Fraction(4976899 + 64, 2)


PRELOAD = MODS + ["resonaate.parallel", "resonaate.parallel.tasking_execution", "resonaate.parallel.tasking_reward_generation", "resonaate.scenario.scenario_builder",
                  "resonaate.sensors.radar", "resonaate.physics.measurements", "resonaate.dynamics.two_body", "resonaate.estimation.kalman.unscented_kalman_filter",
                  "resonaate.data.resonaate_database", "resonaate.data.epoch", "resonaate.data.ephemeris", "resonaate.data.task", "resonaate.data.filter_step",
                  "resonaate.data.detected_maneuver", "resonaate.data.agent", "resonaate.tasking.decisions.decisions", "resonaate.tasking.rewards.rewards", "harness.c08", "harness.c07"]


def _preload():
    """Every module the run touches is imported before any name is shadowed: a module imported for the first time inside time_env would bind the
    re-based JulianDate/ScenarioTime as its own globals for good."""
    import importlib

    for name in PRELOAD:
        importlib.import_module(name)


class _Env:
    """time_env + a JDProvider installed under the name datetimeToJulianDate in every analysed module that has it."""

    def __enter__(self):
        import importlib

        _preload()
        self.st = contextlib.ExitStack()
        extra = []
        for name in MODS:
            kw = {}
            if name.endswith("scenario.scenario"):
                kw = {"around": fp.fp_around, "int": fp.fp_int, "float": fp.fp_float, "range": _sym_range}
            if name.endswith("data.observation"):
                kw = {"float": fp.fp_float}
            extra.append((name, kw))
        ns = self.st.enter_context(time_env(extra))
        jdp = JDProvider(ns)
        for name in MODS + ["resonaate.physics.time.stardate"]:
            mod = importlib.import_module(name)
            if "datetimeToJulianDate" in mod.__dict__:
                self.st.enter_context(shadow(mod, datetimeToJulianDate=jdp))
        return ns, jdp

    def __exit__(self, *a):
        self.st.close()
        return False


class _SDT(SDateTime):
    """The calendar model without its per-operation range fork (the model is valid 1901..2099): the start instant is at most 2099-10-30 and every shift stays below
    62 days, so the instant stays inside the model's range - proved once in the obligation `enclosure` instead of by a solver call at every addition."""

    def _shift(self, secs):
        return _SDT._of_total(self.tot + secs)  # noqa: SLF001


MAX_SHIFT = HORIZON + 2 * 86400  # seconds: 30 days of run + the steps of the calls (<= 8 * 3600 s) + margin


def _start_instant():
    n0, sod0 = integer("n0"), integer("sod0")
    assume(n0.t >= 0, n0.t <= 72683 - 62, sod0.t >= 0, sod0.t <= 86399)
    return _SDT._of(n0.t, sod0.t)  # noqa: SLF001


def _sym_value(n):
    if isinstance(n, fp.SFloat):
        for v in range(0, 11):
            if bool(n == v):
                return v
        raise Unsupported("more than 10 steps in one call")
    return n


def _sym_range(*args):
    """range() for the scenario module: forks over the (bounded) feasible values of a symbolic step count"""
    return range(*[_sym_value(a) for a in args])


def _target_date(ns, W, c, lo_steps, hi_steps):
    """A symbolic target instant T (whole scenario seconds, lo_steps..hi_steps steps ahead, any remainder) and a Julian date accurate to 2^-30 d for it (C05)."""
    T = integer(f"T{c}")
    tm = z3.simplify(z3.ToInt(W.clock.time.t))
    assume(T.t >= tm + lo_steps * W.dt, T.t < tm + (hi_steps + 1) * W.dt)
    jt = ns.JulianDate(fp.fresh_float(f"jt{c}", JD_LO, JD_HI, -31))
    eps = rv(Fraction(1, 2 ** 30))
    assume(jt.t - W.js.t - z3.ToReal(T.t) / 86400 <= eps, z3.ToReal(T.t) / 86400 - (jt.t - W.js.t) <= eps)
    fp.declare_enclosure(jt.t - W.js.t, -Fraction(1, 2 ** 30), 32)
    return T, jt


def sym_run(dt, out, cfg, calls, policy):
    """Bare scenario at step k0 (symbolic), table pre-filled for a span of N steps (symbolic); `calls` = [(min steps, max steps)] per propagateTo call."""
    with _Env() as (ns, jdp):
        env = Env(ns, True, policy=policy)
        t0 = _start_instant()
        k0, N = integer("k0"), integer("N")
        assume(k0.t >= 0, k0.t * dt <= HORIZON, N.t >= 0, N.t * dt <= HORIZON)
        js = jdp(t0)
        W = World(env, t0, js, dt, out, k0, N, jdp=jdp, **cfg).install()
        try:
            W.bare_clock()
            W.db = RecDB(W)
            W.populate()
            sc = W.scenario(False)
            W.T = []
            for c, (lo, hi) in enumerate(calls):
                T, jt = _target_date(ns, W, c, lo, hi)
                W.T.append(T)
                sc.propagateTo(jt)
        finally:
            W.close()
        return W


def sym_inputs(W, dt, out, cfg, policy, kind="run"):
    def f(m):
        g = lambda n: mval(m, z3.Int(n))  # noqa: E731
        start = _dt.datetime(1901, 1, 1) + _dt.timedelta(days=g("n0"), seconds=g("sod0"))
        d = {"kind": kind, "start": start.isoformat(), "dt": dt, "out": out, "cfg": dict(cfg), "policy": policy,
             "choices": {n: bool(mval(m, z3.Bool("ch_" + n))) for n in dict.fromkeys(W.env.asked)}}
        if kind == "run":
            d.update(k0=g("k0"), N=g("N"), targets=[mval(m, T.t) for T in W.T])
        else:
            d.update(span=g("span"), targets=[mval(m, T.t) for T in W.T])
        return d
    return f


class SqlMirror:
    """A real in-memory ResonaateDatabase that receives the same calls during a replay (the audit of the produced SQLite content)."""

    TABLES = ("truth_ephemerides", "estimate_ephemerides", "observations", "missed_observations", "tasks", "detected_maneuvers", "filterstep")

    def __init__(self, W, pre_rows):
        from resonaate.data.agent import AgentModel
        from resonaate.data.resonaate_database import ResonaateDatabase

        self.db = ResonaateDatabase("sqlite://", logger=LOGGER)
        self.errors = []
        self.db.bulkSave([AgentModel(unique_id=i, name=str(i)) for i in sorted(list(W.targets) + list(W.sensors))])
        if pre_rows:
            self.db.bulkSave(pre_rows)

    def call(self, name, *a):
        try:
            return getattr(self.db, name)(*a)
        except Exception as e:  # noqa: BLE001
            self.errors.append(f"{name}: {type(e).__name__}: {str(e)[:200]}")
            return None

    def audit(self):
        from sqlalchemy import text

        out = {"errors": self.errors, "dangling": {}, "agents": {}}
        with self.db.engine.connect() as con:
            for t in self.TABLES:
                n = con.execute(text(f"select count(*) from {t} where julian_date not in (select julian_date from epochs)")).scalar()  # noqa: S608
                if n:
                    out["dangling"][t] = n
            for t, col in (("truth_ephemerides", "agent_id"), ("estimate_ephemerides", "agent_id"), ("observations", "sensor_id"), ("observations", "target_id")):
                n = con.execute(text(f"select count(*) from {t} where {col} not in (select unique_id from agents)")).scalar()  # noqa: S608
                if n:
                    out["agents"][f"{t}.{col}"] = n
            out["duplicate_truth"] = con.execute(text("select count(*) from (select agent_id, julian_date, count(*) c from truth_ephemerides group by agent_id, julian_date having c > 1)")).scalar()
            out["duplicate_estimate"] = con.execute(text("select count(*) from (select agent_id, julian_date, count(*) c from estimate_ephemerides group by agent_id, julian_date having c > 1)")).scalar()
            ep = con.execute(text("select julian_date, timestampISO from epochs order by julian_date")).fetchall()
            out["epochs"] = len(ep)
            out["epochs_ordered"] = [e[1] for e in ep] == sorted(e[1] for e in ep) and len({e[1] for e in ep}) == len(ep) == len({e[0] for e in ep})
        out["ok"] = not (out["errors"] or out["dangling"] or out["agents"] or out["duplicate_truth"] or out["duplicate_estimate"] or not out["epochs_ordered"])
        return out


class MirroredDB(RecDB):
    def __init__(self, world, pre=None):
        super().__init__(world, pre)
        self.mirror = None

    def insertData(self, *rows):
        from resonaate.data.epoch import Epoch

        super().insertData(*rows)
        if self.mirror is not None and rows:
            self.mirror.call("insertData", *[Epoch(julian_date=float(r.julian_date), timestampISO=r.timestampISO) if isinstance(r, Epoch) else r for r in rows])

    def bulkSave(self, data):
        n = super().bulkSave(data)
        if self.mirror is not None:
            self.mirror.call("bulkSave", list(data))
        return n


def _real_ns():
    from resonaate.physics.time.stardate import JulianDate, ScenarioTime

    return types.SimpleNamespace(JulianDate=JulianDate, ScenarioTime=ScenarioTime)


def concrete_run(d, mirror=True):
    """The same world on the real float classes (no time shadows): real clock arithmetic, real datetime, real Julian dates."""
    from resonaate.data.epoch import Epoch
    from resonaate.physics.time.stardate import ScenarioTime, datetimeToJulianDate

    env = Env(_real_ns(), False, d["choices"], d["policy"])
    t0 = _dt.datetime.fromisoformat(d["start"])
    js = datetimeToJulianDate(t0)
    W = World(env, t0, js, d["dt"], d["out"], d["k0"], d["N"], jdp=None, **d["cfg"]).install()
    try:
        W.bare_clock()
        W.db = MirroredDB(W)
        W.populate()
        if mirror:
            pre = [Epoch(julian_date=float(ScenarioTime(q * W.dt).convertToJulianDate(js)), timestampISO=(t0 + _dt.timedelta(seconds=q * W.dt)).isoformat(timespec="microseconds"))
                   for q in W.pre_indices()]
            W.db.mirror = SqlMirror(W, pre)
        sc = W.scenario(False)
        for T in d["targets"]:
            sc.propagateTo(datetimeToJulianDate(t0 + _dt.timedelta(seconds=T)))
    finally:
        W.close()
    return W


def _verdict(W, initial=False):
    g = audit(W, initial)
    failed = sorted(k for k, v in g.items() if not v)
    sql = W.db.mirror.audit() if getattr(W.db, "mirror", None) is not None else None
    detail = {"failed": failed, "outputs_after_steps": [c.step for c in W.db.calls if c.kind == "bulk"], "steps": len(W.steps),
              "epochs_inserted": [str(r.timestampISO) for c in W.db.calls if c.kind == "insert" for r in c.rows],
              "rows_per_output": [{type(r).__name__: sum(1 for x in c.rows if type(x) is type(r)) for r in c.rows} for c in W.db.calls if c.kind == "bulk"],
              "sqlite": sql}
    return bool(failed) or (sql is not None and not sql["ok"]), detail


def replay_run(d):
    """Replay on the real classes; when the recorded calls violate the oracle the run is repeated against a real in-memory SQLite database and audited with SQL."""
    if d.get("kind") == "init":
        return replay_init(d)
    bad, detail = _verdict(concrete_run(d, mirror=False))
    if bad:
        bad2, detail2 = _verdict(concrete_run(d, mirror=True))
        return bad2, detail2
    return bad, detail


# ------------------------------------------------------------------------------------------------------------------
# deciding a set of explored paths
# ------------------------------------------------------------------------------------------------------------------
N_CANDIDATES = 120  # per label
_BUDGET = [400]  # replays per obligation process
_REPORTED = {}  # failure class -> label of the first replayed violation (per obligation process)
SPLIT = ("reference-intermediate",)  # categories reported separately from the main conjunction


def decide(rep, res, tag, inputs_of, replay, initial=False, what=""):
    n_ok = 0
    shapes = set()
    for k, r in enumerate(res):
        if r.exc is not None:
            rep.error(f"exception{tag}#{k}", f"{type(r.exc).__name__}: {r.exc}")
            continue
        W = r.out
        n_ok += 1
        g = audit(W, initial)
        shapes.add((len(W.steps), tuple(c.kind for c in W.db.calls)))
        groups = {"rows": z3.And(*[_zb(v) for kk, v in g.items() if kk not in SPLIT])}
        for kk in SPLIT:
            groups[kk] = _zb(g[kk])
        for gname, goal in groups.items():
            label = f"{gname}{tag}#{k}"
            cons = fp.sliced(r.path, goal)
            v = solve(cons + [z3.Not(goal)], 120000)
            it = rep._item(label, "prove", v)  # noqa: SLF001
            rep.sample({"obligation": f"{gname}{tag}", "verdict": v.status, "what": what})
            if v.status == "unsat":
                continue
            if v.status == "unknown":
                rep.undecided(label, v.reason)
                continue
            failing = [kk for kk, c in g.items() if not z3.is_true(v.model.eval(_zb(c), model_completion=True))]
            _candidates(rep, label, it, cons + [z3.Not(goal)], v.model, inputs_of(W), replay, failing)
    if n_ok == 0:
        rep.error(f"reach{tag}", "no path returned normally")
    return shapes


def _candidates(rep, label, item, cons, model, inputs, replay, failing):
    """Counterexample candidates of the relaxed encoding: replayed on the real classes; a candidate whose rounding pattern does not occur on real doubles is
    replaced by another one (different start date, seeded residues) - only a reproducing candidate is a violation; none in N_CANDIDATES = undecided."""
    tried = 0
    blocked = []
    budget = _BUDGET
    while True:
        cand = inputs(model)
        tried += 1
        budget[0] -= 1
        reproduced, detail = replay(cand)
        if reproduced:
            item["counterexample"], item["replay"] = cand, {"reproduced": True, "detail": detail, "candidates_tried": tried}
            detail = dict(detail, categories_in_model=failing)
            group = label.split("[")[0]
            if group in _REPORTED:
                # the same group already has a replayed violation in this obligation: this path's counterexample is kept with the item, not reported again
                rep.note(f"{label}: reproduces as well (same failure class as {_REPORTED[group]})")
                item["same_as"] = _REPORTED[group]
            else:
                _REPORTED[group] = label
                rep.concrete_violation(label, cand, detail)
            return
        if tried >= N_CANDIDATES or budget[0] <= 0:
            break
        start = _dt.datetime.fromisoformat(cand["start"])
        blocked.append(z3.Int("n0") != (start - _dt.datetime(1901, 1, 1)).days)
        rnd = random.Random(7919 * tried)
        div = [z3.Int("sod0") % 997 == rnd.randrange(997), z3.Int("n0") % 89 == rnd.randrange(89), z3.Int("n0") >= 36000]
        if any(str(c).find("k0") >= 0 for c in cons[:50]):
            div.append(z3.Int("k0") % 101 == rnd.randrange(101))
        v = solve(cons + blocked + div, 30000)
        if v.status != "sat":
            v = solve(cons + blocked, 30000)
        if v.status != "sat":
            break
        model = v.model
    if tried == 1 and not any(f in ("epoch", "epoch-order", "truth", "estimate", "observation", "missed", "task", "maneuver", "filter-step", "reference", "reference-intermediate") for f in failing):
        rep.error(label, f"counterexample does not reproduce on the real code: {detail}")
    else:
        rep.undecided(label, f"{tried} counterexample candidates of the relaxed encoding (categories {failing}) did not reproduce on the real code; not decided")


def _explore(fn, max_paths=1500):
    """All feasible paths.  A branch whose feasibility query timed out is followed by the explorer (never pruned); such a path is dropped here only when its
    path condition is then shown unsatisfiable, and kept (to be decided or reported) otherwise."""
    with fp.mode("relaxed"):
        res = explore(fn, max_paths=max_paths, max_depth=400, branch_timeout_ms=20000, catch=(Exception,))
    out = []
    for r in res:
        if r.exc is not None and isinstance(r.exc, OverflowError):
            v = solve(r.constraints, 60000)
            if v.status == "unsat":
                continue
        out.append(r)
    return out


# ------------------------------------------------------------------------------------------------------------------
# O1/O2/O3 on a run in progress: bare scenario at a symbolic step, symbolic span, one or two propagateTo calls
# ------------------------------------------------------------------------------------------------------------------
LIGHT = dict(n_targets=1, n_sensors=0, truth_only=True, save_filter_steps=False, with_engine=False)
TRUTH2 = dict(n_targets=2, n_sensors=1, truth_only=True, save_filter_steps=False, with_engine=False)
TRUTH2E = dict(n_targets=2, n_sensors=1, truth_only=True, save_filter_steps=False, with_engine=False, idle_estimates=True)
FULL = dict(n_targets=2, n_sensors=1, truth_only=False, save_filter_steps=True, with_engine=True)
FULL_NOFS = dict(n_targets=2, n_sensors=1, truth_only=False, save_filter_steps=False, with_engine=True)
FULL22 = dict(n_targets=2, n_sensors=2, truth_only=False, save_filter_steps=True, with_engine=True)

WHAT_RUN = ("on every path of the real propagateTo/stepForward/saveDatabaseOutput: an output after exactly the steps whose time is a multiple of the output step; one lookup, at most one "
            "Epoch insert (iff the table had none for that timestamp; same double as the clock's epoch, ISO token of start + t_k) and one bulkSave per output; exactly one truth row "
            "per target/sensor and one estimate row per estimate with the clock's Julian date and the agent's state/covariance; every observation / missed observation / detected "
            "maneuver / filter step made since the previous output exactly once with the Julian date of its own step; one task row per engine pair; epochs strictly increasing")


def o_run(rep, dt, out, cfg, calls, policy, need=()):
    tag = f"[dt={dt},out={out}]"
    res = _explore(lambda: sym_run(dt, out, cfg, calls, policy))
    rep.note(f"{tag}: {len(res)} paths")
    shapes = decide(rep, res, tag, lambda W: sym_inputs(W, dt, out, cfg, policy), replay_run, what=WHAT_RUN)
    # vacuity: the path classes the claim is about were all explored (each path is feasible: the explorer only follows satisfiable branches)
    feats = set()
    for r in res:
        if r.exc is not None:
            continue
        W = r.out
        outs = [c for c in W.db.calls if c.kind == "bulk"]
        ins = [c for c in W.db.calls if c.kind == "insert"]
        gets = [c for c in W.db.calls if c.kind == "get"]
        feats.add(f"steps={len(W.steps)}")
        feats.add(f"outputs={len(outs)}")
        if ins:
            feats.add("epoch-inserted")
        if any(c.found for c in gets):
            feats.add("epoch-found")
        for b in outs:
            names = {type(x).__name__ for x in b.rows}
            feats |= {f"row:{n}" for n in names}
            if b.step >= 2 and len([o for o in outs if o.step == b.step - 1]) == 0:
                feats.add("output-after-silent-step")
                if any(type(x).__name__ in ("Observation", "MissedObservation", "DetectedManeuver", "SequentialFilterStep") and not z3.is_true(z3.simplify(_zb(EQ(x.julian_date, b.jd)))) for x in b.rows):
                    feats.add("rows-of-silent-step")
    rep.note(f"{tag}: features {sorted(feats)}")
    missing = [f for f in need if f not in feats]
    if missing:
        rep.error(f"reach{tag}", f"path classes not reached: {missing}")
    first = {}
    for r in res:
        if r.exc is None:
            key = (len(r.out.steps), tuple(c.kind for c in r.out.db.calls))
            first.setdefault(key, r)
    for i, (key, r) in enumerate(sorted(first.items(), key=lambda kv: str(kv[0]))[:6]):
        rep.reachable(f"class{tag}:steps={key[0]},calls={'/'.join(key[1]) or 'none'}", r.constraints, timeout_ms=60000)


# ------------------------------------------------------------------------------------------------------------------
# O1 from the very beginning: real ScenarioClock.__init__, real ScenarioBuilder._loadAgentsIntoDatabase, real Scenario.__init__
# ------------------------------------------------------------------------------------------------------------------
class _ClockDB:
    def __init__(self):
        self.calls = []

    def insertData(self, *rows):
        self.calls.append([types.SimpleNamespace(cls=type(r).__name__, timestampISO=getattr(r, "timestampISO", None), julian_date=getattr(r, "julian_date", None)) for r in rows])


def init_world(env, ns, t0, span, dt, out, cfg, jdp, mirror=False):
    from resonaate.data.epoch import Epoch
    from resonaate.scenario import clock as CK
    from resonaate.scenario import scenario_builder as SBD

    W = World(env, t0, None, dt, out, 0, None, jdp=jdp, **cfg).install()
    try:
        W.db = MirroredDB(W, pre=[])
        cdb = _ClockDB()
        with shadow(CK, getDBConnection=lambda: cdb):
            clock = CK.ScenarioClock(t0, span, dt)
        W.clock, W.js, W.clock_calls = clock, clock.julian_date_start, cdb.calls
        W.db.pre = [r for call in cdb.calls for r in call]
        W.populate()
        if mirror:
            W.db.mirror = SqlMirror.__new__(SqlMirror)
            from resonaate.data.resonaate_database import ResonaateDatabase

            W.db.mirror.db, W.db.mirror.errors = ResonaateDatabase("sqlite://", logger=LOGGER), []
            W.db.mirror.call("insertData", *[Epoch(julian_date=float(r.julian_date), timestampISO=r.timestampISO) for r in W.db.pre])
        # the agents table, as the builder fills it
        builder = object.__new__(SBD.ScenarioBuilder)
        builder.target_agents, builder.sensor_agents = W.targets, W.sensors
        W.agent_calls = []

        class AgentsDB:
            def bulkSave(self, data):
                W.agent_calls.append(list(data))
                if W.db.mirror is not None:
                    W.db.mirror.call("bulkSave", list(data))

        builder._loadAgentsIntoDatabase(AgentsDB())  # noqa: SLF001
        W.scenario(True)
    except BaseException:
        W.close()
        raise
    return W


def audit_init(W):
    g = audit(W, True)
    # ---- the clock's epochs ----
    conds = [len(W.clock_calls) == 1]
    ep = W.db.pre
    conds.append(all(r.cls == "Epoch" for r in ep) and len(ep) >= 1)
    n = len(ep)
    sp = W.span
    if W.env.sym:
        conds.append(z3.And((n - 1) * W.dt <= sp.t, sp.t < n * W.dt))
    else:
        conds.append((n - 1) * W.dt <= sp < n * W.dt)
    probe = copy.copy(W.clock)
    probe.time = W.env.ns.ScenarioTime(0)
    for i, r in enumerate(ep):
        iso = (W.t0 + (STimeDelta(seconds=i * W.dt) if W.env.sym else _dt.timedelta(seconds=i * W.dt))).isoformat(timespec="microseconds")
        conds.append(ALL([EQ(r.julian_date, probe.julian_date_epoch), EQ(r.timestampISO, iso), EQ(probe.datetime_epoch.isoformat(timespec="microseconds"), iso)]))
        probe.ticToc()
    conds.append(EQ(ep[0].julian_date, W.clock.julian_date_start) if ep else False)
    for a, b in zip(ep, ep[1:]):
        conds.append(LT(a.julian_date, b.julian_date))
    g["clock"] = ALL(conds)
    # ---- the agents table: one row per target and sensor, handed over in one call ----
    ids = sorted(list(W.targets) + list(W.sensors))
    rows = [r for call in W.agent_calls for r in call]
    g["agents-table"] = len(W.agent_calls) == 1 and sorted(r.unique_id for r in rows) == ids and all(type(r).__name__ == "AgentModel" for r in rows)
    return g


def sym_init(dt, out, cfg, policy, max_epochs, calls):
    with _Env() as (ns, jdp):
        env = Env(ns, True, policy=policy)
        t0 = _start_instant()
        sp = integer("span")
        assume(sp.t >= 0, sp.t <= max_epochs * dt - 1)
        W = init_world(env, ns, t0, fp.from_int(sp.t, 0, max_epochs * dt), dt, out, cfg, jdp)
        try:
            W.span = sp
            W.T = []
            for c, (lo, hi) in enumerate(calls):
                T, jt = _target_date(ns, W, c, lo, hi)
                W.T.append(T)
                W.sc.propagateTo(jt)
        finally:
            W.close()
        return W


def replay_init(d):
    from resonaate.physics.time.stardate import datetimeToJulianDate

    env = Env(_real_ns(), False, d["choices"], d["policy"])
    t0 = _dt.datetime.fromisoformat(d["start"])
    W = init_world(env, env.ns, t0, d["span"], d["dt"], d["out"], d["cfg"], None, mirror=True)
    try:
        W.span = d["span"]
        for T in d["targets"]:
            W.sc.propagateTo(datetimeToJulianDate(t0 + _dt.timedelta(seconds=T)))
    finally:
        W.close()
    g = audit_init(W)
    failed = sorted(k for k, v in g.items() if not v)
    sql = W.db.mirror.audit()
    detail = {"failed": failed, "epochs_by_clock": len(W.db.pre), "outputs_after_steps": [c.step for c in W.db.calls if c.kind == "bulk"], "steps": len(W.steps), "sqlite": sql,
              "epochs_inserted": [str(r.timestampISO) for c in W.db.calls if c.kind == "insert" for r in c.rows]}
    return bool(failed) or not sql["ok"], detail


WHAT_INIT = ("real ScenarioClock.__init__ + ScenarioBuilder._loadAgentsIntoDatabase + Scenario.__init__ + propagateTo: one insertData call with floor(span/dt)+1 epochs, epoch i = "
             "(same double as clock.julian_date_epoch after i ticToc, ISO token of start + i*dt), strictly increasing; the initial output finds epoch 0 and writes one row per "
             "agent with the start Julian date; later outputs as in the run obligations")


def o_init(rep, dt, out, cfg, policy, max_epochs, calls):
    tag = f"[dt={dt},out={out}]"
    res = _explore(lambda: sym_init(dt, out, cfg, policy, max_epochs, calls))
    rep.note(f"{tag}: {len(res)} paths")
    n_ok, counts = 0, set()
    for k, r in enumerate(res):
        if r.exc is not None:
            rep.error(f"exception{tag}#{k}", f"{type(r.exc).__name__}: {r.exc}")
            continue
        W = r.out
        n_ok += 1
        counts.add((len(W.db.pre), len(W.steps), sum(1 for c in W.db.calls if c.kind == "insert")))
        with resume(r.path), _Env():
            g = audit_init(W)
        groups = {"rows": z3.And(*[_zb(v) for kk, v in g.items() if kk not in SPLIT]), **{kk: _zb(g[kk]) for kk in SPLIT}}
        for gname, goal in groups.items():
            label = f"{gname}{tag}#{k}"
            cons = fp.sliced(r.path, goal)
            v = solve(cons + [z3.Not(goal)], 120000)
            it = rep._item(label, "prove", v)  # noqa: SLF001
            rep.sample({"obligation": f"init-{gname}{tag}", "verdict": v.status, "what": WHAT_INIT})
            if v.status == "unknown":
                rep.undecided(label, v.reason)
            elif v.status == "sat":
                failing = [kk for kk, c in g.items() if not z3.is_true(v.model.eval(_zb(c), model_completion=True))]
                _candidates(rep, label, it, cons + [z3.Not(goal)], v.model, sym_inputs(W, dt, out, cfg, policy, kind="init"), replay_init, failing)
    if n_ok == 0:
        rep.error(f"reach{tag}", "no path returned normally")
    rep.note(f"{tag}: (epochs by the clock, steps, epochs inserted later) = {sorted(counts)}")
    if not ({c[0] for c in counts} >= set(range(1, max_epochs + 1))):
        rep.error(f"reach{tag}", f"epoch counts reached: {sorted({c[0] for c in counts})}")
    if not any(c[1] > 0 for c in counts):
        rep.error(f"reach{tag}", "no run made a step")
    if out <= 2 * dt and (not any(c[2] > 0 for c in counts) or not any(c[2] == 0 and c[1] > 0 for c in counts)):
        rep.error(f"reach{tag}", "expected runs staying inside the pre-inserted span and runs leaving it")
    r0 = next(r for r in res if r.exc is None)
    rep.reachable(f"assumptions{tag}", r0.constraints, timeout_ms=60000)


# ------------------------------------------------------------------------------------------------------------------
# O2 (transaction level): DataInterface._getSessionScope / insertData / bulkSave on a stub session with solver-chosen failure points
# ------------------------------------------------------------------------------------------------------------------
SESSION_TYPES = ("TruthEphemeris", "DetectedManeuver", "Task")  # three of the row types one output step hands over together
SESSION_ROWS = {"quick": 3, "thorough": 4}
SESSION_CLASSES = ("success", "operation-sqlalchemy-error", "operation-foreign-exception", "commit-error")


def _session_rows(types, poison=None):
    """Real mapped rows of one output step, row i of type SESSION_TYPES[types[i]].  `poison` (SQLite twin of the replay only): index of the row that cannot be
    stored - its Julian date is NaN, which SQLite binds as NULL into a NOT NULL column (IntegrityError, a SQLAlchemyError, raised by the write of that row)."""
    from resonaate.data.detected_maneuver import DetectedManeuver
    from resonaate.data.ephemeris import TruthEphemeris
    from resonaate.data.task import Task

    rows = []
    for i, t in enumerate(types):
        jd = float("nan") if i == poison else 2459304.5
        if SESSION_TYPES[t] == "TruthEphemeris":
            rows.append(TruthEphemeris(julian_date=jd, agent_id=11 + i, pos_x_km=7000.0 + i, pos_y_km=1.0, pos_z_km=2.0, vel_x_km_p_sec=0.0, vel_y_km_p_sec=7.5, vel_z_km_p_sec=0.0))
        elif SESSION_TYPES[t] == "DetectedManeuver":
            rows.append(DetectedManeuver(julian_date=jd, sensor_ids="21", target_id=11 + i, nis=1.5, method="standard_nis", metric=3.0, threshold=0.5))
        else:
            rows.append(Task(julian_date=jd, sensor_id=21, target_id=11 + i, visibility=True, reward=1.0 + i, decision=True))
    return rows


class _SymChoice:
    """the environment of one call, chosen by the solver (explore() forks over the values)"""

    def bool(self, name):
        return bool(boolean("ch_" + name))

    def int(self, name, lo, hi):
        v = integer("ch_" + name)
        assume(v.t >= lo, v.t <= hi)
        for k in range(lo, hi + 1):
            if bool(v == k):
                return k
        raise Unsupported(f"{name}: no value in {lo}..{hi}")


class _ConcreteChoice:
    def __init__(self, d):
        self.d = dict(d)

    def bool(self, name):
        return bool(self.d.get(name, False))

    def int(self, name, lo, hi):
        return min(max(int(self.d.get(name, lo)), lo), hi)


def _session_run(op, ch, n):
    """One call of insertData / bulkSave on a real DataInterface whose session factory yields recording sessions over one store.

    Solver-chosen: the type of each of the n rows (a mix of up to three tables), the row whose write fails (or none), the kind of that failure
    (SQLAlchemyError / foreign exception) and, asked at every commit that is attempted, whether that commit fails.  The store stands for the database:
    a session's writes are pending until its commit succeeds; rollback, a failed commit and close discard what is pending."""
    from sqlalchemy.exc import SQLAlchemyError

    from resonaate.data.resonaate_database import ResonaateDatabase

    types = [ch.int(f"type_{i}", 0, len(SESSION_TYPES) - 1) for i in range(n)]
    fail_row = ch.int("fail_row", -1, n - 1)
    fail_sql = ch.bool("fail_is_sqlalchemy_error") if fail_row >= 0 else None
    rows = _session_rows(types)
    log, sessions, store, fired, commits = [], [], [], [], []
    boom = SQLAlchemyError("operation failed") if fail_sql else TypeError("operation failed")

    def index_of(x):
        return next((i for i, r in enumerate(rows) if r is x), -1)

    class Session:
        def __init__(self):
            self.pending, self.closed = [], False

        def _op(self, name, data):
            data = list(data)
            log.append((name, len(data)))
            for x in data:
                if index_of(x) == fail_row and fail_row >= 0:
                    fired.append(boom)
                    raise boom
                self.pending.append(x)

        def add_all(self, data):
            self._op("add_all", data)

        def bulk_save_objects(self, data):
            self._op("bulk_save_objects", data)

        def commit(self):
            log.append("commit")
            commits.append(1)
            if ch.bool(f"fail_commit_{len(commits)}"):
                self.pending = []
                e = SQLAlchemyError(f"commit {len(commits)} failed")
                fired.append(e)
                raise e
            store.extend(self.pending)
            self.pending = []

        def rollback(self):
            log.append("rollback")
            self.pending = []

        def close(self):
            log.append("close")
            self.pending, self.closed = [], True

    def factory(**kw):
        sessions.append(Session())
        return sessions[-1]

    db = object.__new__(ResonaateDatabase)
    db.logger, db.session_factory = LOGGER, factory
    raised, ret = None, None
    try:
        ret = db.bulkSave(rows) if op == "bulkSave" else db.insertData(*rows)
    except BaseException as e:  # noqa: BLE001
        raised = e
    if not fired:
        cls = "success"
    elif fired[0] is boom:
        cls = "operation-sqlalchemy-error" if fail_sql else "operation-foreign-exception"
    else:
        cls = "commit-error"
    # ---- all or nothing (stated over what the store holds after the call and what the caller sees) ----
    stored = sorted(index_of(x) for x in store)
    if not fired:
        atomic = raised is None and stored == list(range(n)) and (op != "bulkSave" or ret == n)
    else:
        atomic = raised is not None and any(raised is f for f in fired) and stored == []
    # ---- the session protocol: one session per call; writes, then commit once; rollback after a SQLAlchemyError; always closed last ----
    ctl = [x for x in log if isinstance(x, str)]
    writes = [x for x in log if not isinstance(x, str)]
    first_ctl = next((i for i, x in enumerate(log) if isinstance(x, str)), len(log))
    want = {"success": ["commit", "close"], "operation-sqlalchemy-error": ["rollback", "close"], "commit-error": ["commit", "rollback", "close"]}.get(cls)
    protocol = (len(sessions) == 1 and all(s.closed for s in sessions) and bool(writes) and all(not isinstance(x, str) for x in log[:first_ctl]) and len(writes) == first_ctl
                and (ctl == want if want is not None else ("commit" not in ctl and ctl[-1:] == ["close"])))
    if cls == "success":
        protocol = protocol and sum(k for _n, k in writes) == n
    detail = {"op": op, "row_types": [SESSION_TYPES[t] for t in types], "fail_row": fail_row, "fail_is_sqlalchemy_error": fail_sql, "failed_commits": [str(f) for f in fired if f is not boom],
              "class": cls, "log": [str(x) for x in log], "sessions": len(sessions), "raised": repr(raised), "returned": ret,
              "rows_in_store_after_call": [f"{i}:{SESSION_TYPES[types[i]]}" if i >= 0 else "foreign" for i in stored], "all_or_nothing": bool(atomic), "protocol": bool(protocol)}
    return bool(atomic), bool(protocol), cls, detail


def _session_sqlite(op, types, fail_row):
    """The same call against a real in-memory SQLite ResonaateDatabase (replay only; possible for a success and for a SQLAlchemyError raised by the write of
    a row - commit failures and foreign exceptions cannot be provoked there): what the tables hold afterwards."""
    from sqlalchemy import text

    from resonaate.data.resonaate_database import ResonaateDatabase

    db = ResonaateDatabase("sqlite://", logger=LOGGER)
    rows = _session_rows(types, poison=fail_row if fail_row >= 0 else None)
    raised = None
    try:
        if op == "bulkSave":
            db.bulkSave(rows)
        else:
            db.insertData(*rows)
    except Exception as e:  # noqa: BLE001
        raised = e
    counts = {}
    with db.engine.connect() as con:
        for t in ("truth_ephemerides", "detected_maneuvers", "tasks"):
            counts[t] = con.execute(text(f"select count(*) from {t}")).scalar()  # noqa: S608
    total = sum(counts.values())
    ok = (raised is None and total == len(rows)) if fail_row < 0 else (raised is not None and total == 0)
    return {"rows_per_table_after_call": counts, "raised": type(raised).__name__ if raised is not None else None, "all_or_nothing": bool(ok)}


def replay_session(d):
    ch = d["choices"]
    n = int(d["n"])
    atomic, protocol, _cls, detail = _session_run(d["op"], _ConcreteChoice(ch), n)
    commit_fails = any(bool(v) for k, v in ch.items() if k.startswith("fail_commit_"))
    fail_row = min(max(int(ch.get("fail_row", -1)), -1), n - 1)
    if not commit_fails and (fail_row < 0 or ch.get("fail_is_sqlalchemy_error")):
        try:
            detail["sqlite"] = _session_sqlite(d["op"], [min(max(int(ch.get(f"type_{i}", 0)), 0), len(SESSION_TYPES) - 1) for i in range(n)], fail_row)
        except Exception as e:  # noqa: BLE001
            detail["sqlite"] = f"not available: {type(e).__name__}: {e}"
    want = d.get("goal")
    bad = (not atomic) if want == "atomic" else (not protocol) if want == "session" else not (atomic and protocol)
    return bad, detail


WHAT_ATOMIC = ("for every mix of row types in the list (each of the n rows any of three tables), every row at which the write fails (or none), either kind of failure and a failure of any "
               "commit that is attempted: after the call the store holds every row of the list exactly once and the call returned (bulkSave: the number of rows), or it holds none of them "
               "and the injected exception reached the caller - all or nothing per call")
WHAT_SESSION = ("one session per call; success: writes, one commit, close; SQLAlchemyError in a write or the commit: rollback, close, the same exception re-raised; "
                "a foreign exception: no commit, close, re-raised")


def o_session(rep, n=3):
    from resonaate.data.resonaate_database import ResonaateDatabase

    nt = len(SESSION_TYPES)
    ty = [z3.Int(f"ch_type_{i}") for i in range(n)]
    fr = z3.Int("ch_fail_row")
    dom = [z3.And(t >= 0, t <= nt - 1) for t in ty] + [fr >= -1, fr <= n - 1]
    names_b = ["fail_is_sqlalchemy_error"] + [f"fail_commit_{k}" for k in range(1, n + 2)]
    for op in ("bulkSave", "insertData"):
        res = explore(lambda op=op: _session_run(op, _SymChoice(), n), max_paths=4096, max_depth=64)
        good = []
        for k, r in enumerate(res):
            if r.exc is not None:
                rep.error(f"exception[{op}]#{k}", repr(r.exc))
            else:
                good.append(r)
        rep.note(f"[{op}] {len(good)} paths over {n} rows x {nt} types")
        cond = lambda r: z3.And(*r.constraints)  # noqa: E731
        # every environment inside the bounds lies on one of the explored paths
        rep.prove(f"coverage[{op}]", z3.Or(*[cond(r) for r in good]) if good else z3.BoolVal(False), dom,
                  sample="every combination of row types / failing row / failure kind / failing commit within the bounds lies on an explored path")

        def inputs(m, op=op, goal=None):
            c = {f"type_{i}": mval(m, ty[i]) for i in range(n)}
            c["fail_row"] = mval(m, fr)
            c.update({b: bool(mval(m, z3.Bool("ch_" + b))) for b in names_b})
            return {"op": op, "n": n, "goal": goal, "choices": c}

        for cls in SESSION_CLASSES:
            mine = [r for r in good if r.out[2] == cls]
            if not mine:
                rep.error(f"reach[{op}:{cls}]", "failure class not reached")
                continue
            rep.reachable(f"reach[{op}:{cls}]", dom + [z3.Or(*[cond(r) for r in mine])])
            rep.prove(f"atomic[{op}:{cls}]", z3.And(*[z3.Implies(cond(r), z3.BoolVal(r.out[0])) for r in mine]), dom,
                      inputs=lambda m, f=inputs: f(m, goal="atomic"), replay=replay_session, sample=WHAT_ATOMIC)
            rep.prove(f"session[{op}:{cls}]", z3.And(*[z3.Implies(cond(r), z3.BoolVal(r.out[1])) for r in mine]), dom,
                      inputs=lambda m, f=inputs: f(m, goal="session"), replay=replay_session, sample=WHAT_SESSION)
        # vacuity of the mixed-type claim: three different tables in one list, the write failing at a row of another table than the first row's, after rows of two other tables
        everything = z3.Or(*[cond(r) for r in good]) if good else z3.BoolVal(False)
        rep.reachable(f"reach[{op}:three-tables-failure-in-the-last]", dom + [everything, ty[0] != ty[1], ty[1] != ty[n - 1], ty[0] != ty[n - 1], fr == n - 1])
        rep.reachable(f"reach[{op}:interleaved-tables]", dom + [everything, ty[0] == ty[n - 1], ty[0] != ty[1], fr == -1])
    # argument checks of insertData happen before any session is opened
    db = object.__new__(ResonaateDatabase)
    opened = []
    db.logger, db.session_factory = LOGGER, lambda **kw: opened.append(1)
    outcomes = []
    for args, exc in (((), ValueError), ((object(),), TypeError)):
        try:
            db.insertData(*args)
            outcomes.append(False)
        except exc:
            outcomes.append(True)
    rep.prove("insertData-argument-checks", z3.BoolVal(all(outcomes) and not opened), [], sample="insertData() without rows raises ValueError, with a foreign object TypeError; no session is opened")


# ------------------------------------------------------------------------------------------------------------------
# O1 for imported agents: importState -> getCurrentEphemeris carries exactly the imported Julian date (bit-exact encoding)
# ------------------------------------------------------------------------------------------------------------------
IMPORT_SPAN = 31 * 86400


def _import_run(cls_name):
    from resonaate.agents import sensing_agent as SA
    from resonaate.agents import target_agent as TA

    with _Env() as (ns, _jdp):
        js = ns.JulianDate(fp.fresh_float("js", JD_LO, JD_HI - 32, -31))
        t = integer("t")
        assume(t.t >= 0, t.t <= IMPORT_SPAN)
        # the Julian date a clock with the same start writes for the whole second t (the real ScenarioTime.convertToJulianDate)
        x = ns.ScenarioTime(fp.from_int(t.t, 0, IMPORT_SPAN)).convertToJulianDate(js)
        hint = fp.declare_enclosure(x.t - js.t, 0, 32)
        mod, cls = (TA, TA.TargetAgent) if cls_name == "TargetAgent" else (SA, SA.SensingAgent)
        a = object.__new__(type("Imported" + cls_name, (cls,), {"datetime_epoch": None}))
        a.__dict__.update(_id=11, julian_date_start=js, datetime_start=None, _truth_state=np.zeros(6), _previous_state=np.zeros(6), _time=ns.ScenarioTime(0))
        state = np.array([real(f"s{i}") for i in range(6)], dtype=object)
        with shadow(mod, eci2ecef=lambda x_, *aa, **k: x_, ecef2lla=lambda x_, *aa, **k: x_[:3]):
            a.importState(types.SimpleNamespace(eci=list(state), julian_date=fp.fp_float(x), agent_id=11))
            row = a.getCurrentEphemeris()
        return js, x, row, state, hint


def replay_import(d):
    from resonaate.agents import sensing_agent as SA
    from resonaate.agents import target_agent as TA
    from resonaate.physics.time.stardate import JulianDate, ScenarioTime

    mod, cls = (TA, TA.TargetAgent) if d["cls"] == "TargetAgent" else (SA, SA.SensingAgent)
    js = JulianDate(d["js"])
    x = float(ScenarioTime(d["t"]).convertToJulianDate(js))
    a = object.__new__(type("Imported" + d["cls"], (cls,), {"datetime_epoch": None}))
    a.__dict__.update(_id=11, julian_date_start=js, datetime_start=None, _truth_state=np.zeros(6), _previous_state=np.zeros(6), _time=ScenarioTime(0))
    with shadow(mod, eci2ecef=lambda x_, *aa, **k: x_, ecef2lla=lambda x_, *aa, **k: x_[:3]):
        a.importState(types.SimpleNamespace(eci=[1.0, 2.0, 3.0, 4.0, 5.0, 6.0], julian_date=x, agent_id=11))
        row = a.getCurrentEphemeris()
    bad = float(row.julian_date) != x or list(row.eci) != [1.0, 2.0, 3.0, 4.0, 5.0, 6.0]
    return bad, {"epoch_julian_date": repr(x), "row_julian_date": repr(float(row.julian_date)), "row_eci": [float(v) for v in row.eci]}


def o_imported(rep):
    for cls_name in ("TargetAgent", "SensingAgent"):
        with fp.mode("exact"):
            res = explore(lambda c=cls_name: _import_run(c), max_paths=8, branch_timeout_ms=20000)
        for k, r in enumerate(res):
            if r.exc is not None:
                rep.error(f"exception[{cls_name}]#{k}", repr(r.exc))
                continue
            js, x, row, state, hint = r.out
            rep.reachable(f"assumptions[{cls_name}]#{k}", r.constraints)
            inputs = lambda m, c=cls_name: {"cls": c, "js": float(mval(m, z3.Real("js"))), "t": mval(m, z3.Int("t"))}  # noqa: E731
            what = ("for every start Julian date (double on the 2^-31 d grid) and every whole second t <= 31 d: an agent that imports the Julian date a clock with the same start writes for t "
                    "hands getCurrentEphemeris a row with exactly that double (the detour through scenario seconds is lossless) and the imported state")
            rep.prove(f"imported-state[{cls_name}]#{k}", z3.And(_zb(EQV(row.eci, state)), z3.BoolVal(row.agent_id == 11)), [], sample=what)
            goal = row.julian_date.t == x.t
            allc = [c for c in r.constraints if not c.eq(hint)]
            noint = [c for c in allc if "to_int" not in c.sexpr()]
            # the enclosure handed to the double engine for (x - js) follows from the clock arithmetic (rounding is monotone: x >= js; t <= 31 d)
            xdef = [c for c in noint if str(x.t) in free_vars(c)]
            prod0 = [v for v, _e in r.path.apps.get("rn", []) if any(str(v) in free_vars(c) for c in xdef) and str(v) != str(x.t)]
            p0def = [c for c in noint if prod0 and str(prod0[0]) in free_vars(c)]
            rep.prove(f"enclosure[{cls_name}]#{k}", hint, xdef + p0def + [c for c in noint if free_vars(c) <= {"js", "js!k", "t"}], timeout_ms=60000,
                      sample="0 <= x - js <= 32 d for the clock's Julian date x of a whole second t <= 31 d")
            # cut rule, three solver steps (each from a subset of the path's constraints plus lemmas already proved):
            #  (1) the rounded product t'*(1/86400) is within 2^-40 d of x - js; (2) hence the rounded sum is within 2^-32 + 2^-40 d of x; (3) x and the sum are multiples
            #  of 2^-31; (4) hence equal
            cons = [c for c in r.constraints]
            noint = [c for c in cons if "to_int" not in c.sexpr()]
            rj = row.julian_date.t
            prods = [v for v, e in r.path.apps.get("rn", []) if str(v) not in (str(rj), str(x.t)) and not (prod0 and str(v) == str(prod0[0]))]
            ok = len(prods) == 1 and str(rj) != str(x.t)
            if str(rj) == str(x.t):
                rep.prove(f"imported-key[{cls_name}]#{k}", goal, [], sample=what)
                continue
            if ok:
                d = x.t - js.t
                tol = rv(Fraction(1, 2 ** 40))
                lemma1 = z3.And(prods[0] - d <= tol, d - prods[0] <= tol)
                v1 = solve([c for c in noint if free_vars(c) <= free_vars(lemma1)] + [z3.Not(lemma1)], 30000)
                rep._item(f"imported-key[{cls_name}]#{k}:lemma:product-accuracy", "lemma", v1)  # noqa: SLF001
                b2 = rv(Fraction(1, 2 ** 32) + Fraction(1, 2 ** 40))
                lemma2 = z3.And(rj - x.t <= b2, x.t - rj <= b2)
                v2 = solve([c for c in noint if str(rj) in free_vars(c)] + [lemma1, z3.Not(lemma2)], 30000)
                rep._item(f"imported-key[{cls_name}]#{k}:lemma:sum-accuracy", "lemma", v2)  # noqa: SLF001
                ok = v1.status == "unsat" and v2.status == "unsat"
                grid = []
                for v in (x.t, rj):
                    # both are results of an exactly-rounded addition in the binade of Julian dates: multiples of 2^-31 (read off their own defining constraints)
                    fact = v == z3.ToReal(z3.Int(str(v).replace("rn!", "rq!"))) * rv(Fraction(1, 2 ** 31))
                    vg = solve([c for c in noint if str(v) in free_vars(c)] + [z3.Not(fact)], 30000)
                    rep._item(f"imported-key[{cls_name}]#{k}:lemma:grid({v})", "lemma", vg)  # noqa: SLF001
                    ok = ok and vg.status == "unsat"
                    grid.append(fact)
                if ok:
                    if rep.prove(f"imported-key[{cls_name}]#{k}", goal, grid + [lemma2], timeout_ms=60000, sample=what) is True:
                        continue
            # the chain did not close: the plain query (finds counterexamples; replayed on the real classes)
            rep.prove(f"imported-key[{cls_name}]#{k}:direct", goal, fp.sliced(r.path, goal), timeout_ms=120000, inputs=inputs, replay=replay_import, sample=what)


# ------------------------------------------------------------------------------------------------------------------
BOUNDS = {"start instant": "any whole second 1901-01-01 .. 2099-10-30", "physics step dt / output step": "quick (60,60) (60,120) (60,90) (60,300) (300,60) (3080,3080); thorough adds (1,60) (45,90) (300,900) (3600,3600)",
          "step index at which the run is entered": "k0 symbolic, 0 .. 30 days / dt", "pre-inserted span": "N symbolic, 0 .. 30 days / dt (runs inside, across and beyond the span)",
          "calls": "one or two consecutive propagateTo calls of 1..2 (quick) / 1..3 (thorough) steps each (second call one step shorter for the step pairs with many residue classes), target instants any whole second (multiples and non-multiples of dt)",
          "clock constructor": "span symbolic 0 .. 3 (quick) / 8 (thorough) steps, epochs unrolled",
          "agents": "1-2 targets, 0-2 sensors, 0-2 estimates, 0-1 centralized engine (all-visible decision); ids concrete (the real constructors type-check int)",
          "environment outcomes": "per tasking: slew / field of view / visibility / maneuver detected chosen by the solver within the policy stated in POLICIES (quick: 9 combinations over two steps; thorough: all outcomes of the first tasking of each sensor)",
          "imported agents": "start Julian date any double on the 2^-31 d grid; imported Julian date = the clock arithmetic's double for any whole second 0..31 d",
          "session": "one call of insertData / bulkSave with 3 (quick) / 4 (thorough) rows, each row of any of three tables (TruthEphemeris, DetectedManeuver, Task; every mix and order, "
                     "chosen by the solver); the write fails at a solver-chosen row (or at none) with a SQLAlchemyError or a foreign exception; every commit that is attempted may fail (solver-chosen)"}
OUTSIDE = ["SQLAlchemy session semantics and SQLite itself (that commit/rollback are atomic, that a stored double reads back identically, that declared foreign keys are not enforced); the replay audits a real in-memory SQLite database but the proof stops at the objects handed to insertData/bulkSave",
           "all-or-nothing per call is proved against a store model behind the session factory (see ASSUMPTIONS), for lists of 3/4 rows over three tables; failures between two calls (process killed between the Epoch insert and the bulkSave of one output, which are two transactions in the real code) are not covered; "
           "the replay repeats the call on a real in-memory SQLite database only for a success and for a write that fails with an IntegrityError (commit failures and foreign exceptions cannot be provoked there)",
           "values read back equal values held: reduced to 'the row handed to bulkSave carries the agent's state vector / covariance / filter source element by element'",
           "agent sets changing through addition/removal events (routing is C01; an agent constructed mid-run takes clock.time like the ones here)",
           "the link between a pre-inserted epoch beyond the unrolled clock constructor (index > 8) and clock.julian_date_epoch: both are ScenarioTime.convertToJulianDate(julian_date_start) of the same whole second, proved for the unrolled indices only",
           "an Epoch lookup whose where-clause refers to columns other than timestampISO (the stub table cannot evaluate it: harness error, not a verdict)",
           "equality of an imported Julian date with this run's epoch double: requires the importer database to hold doubles produced by the same clock arithmetic",
           "particle filters, adaptive (MMAE) and IOD branches of EstimateAgent._update, decentralised engines, imported observations",
           "fractional physics steps, sub-second start instants, leap seconds",
           "numerical content of states, measurements and rewards (environment: fresh symbolic vectors)"]
ASSUMPTIONS = ["datetimeToJulianDate(t) -> a double within 2^-31 d of the exact Julian date of t, the same double for the same instant (C05 jd-accuracy; JDProvider of C01, installed under that name in every analysed module)",
               "the Julian date handed to propagateTo is within 2^-30 d of start + T (what getTargetJulianDate/datetimeToJulianDate deliver by C05); its difference to the start date is enclosed in [-2^-30, 32] d (follows from the former; checked by a solver query)",
               "datetime/timedelta -> integer calendar model (symx.dtmodel), isoformat -> injective token of the instant",
               "output database -> recording stub: getData(Query(Epoch).filter(...)) evaluates the where-clause of the real Query (translator of C01) on the rows the table holds: epochs 0..N pre-inserted by the clock "
               "(as proved for the clock constructor), epochs of earlier outputs beyond the span (index <= k0 on the output grid), epochs inserted during the run; the existential over the symbolic table is eliminated by z3's qe tactic",
               "ray.put stores a copy of the agent (lists, filter and sensor copied; what pickling does), ray.get returns the stored object / job result, ray.wait returns the first pending job (completion order is C08)",
               "dynamics.propagate, filter predict/update, reward computation, geometry (getSlantRangeVector, canSlew, field of view, isVisible), measurement computation, eci2ecef/ecef2lla, ReductionParams.build, "
               "event queries (getRelevantEvents/handleRelevantEvents: C01), EventStack, BehavioralConfig -> environment stubs returning fresh symbolic states / solver-chosen outcomes; the filter stub sets time, source, maneuver_detected as the real filters do",
               "Sensor.canSlew/isVisible are overridden in a subclass of the real Radar (outcomes are environment); collectObservations/attemptObservation are the real methods",
               "a run in progress (obligations cadence-*, rows-*): the Scenario is built by its real constructor on a clock set to step k0 (symbolic); the output the constructor makes "
               "of that state goes to a throw-away database (it stands for the output that happened when the run got there); the recording database is attached afterwards",
               "calendar model without its per-addition range fork (class _SDT): start <= 2099-10-30 and shifts <= 32 d keep every instant in 1901..2099 (proved in obligation enclosure)",
               "in resonaate.scenario.scenario: around/int/float -> double-engine versions, range -> a version that forks over the feasible values of a symbolic step count (<= 10)",
               "every module the run touches is imported before the time classes are shadowed (a first import inside time_env would bind the re-based classes for good)",
               "relaxed rounding |r - e| <= half an ulp of the largest binade (sound over-approximation); exact round-to-nearest-even for the last addition of the imported-state round trip",
               "cut rule in imported-key: product accuracy and sum accuracy are proved as lemmas from subsets of the path constraints and then used as hypotheses",
               "session-scope: session_factory -> recording sessions over one store: rows written through add_all/bulk_save_objects are pending in their session until that session's commit succeeds (then they are in the store); "
               "rollback, a failed commit and close discard what is pending; a write fails when it reaches the solver-chosen row (rows before it in the same write are pending); rows are identified by object identity"]
LEVEL_TEXT = ("Bounded symbolic verification of the database-facing behaviour: the real clock constructor, Scenario constructor, propagateTo/stepForward/saveDatabaseOutput, agent/engine bookkeeping and row "
              "constructors run on symbolic IEEE doubles for every start second of 1901-2099, every start step and span, one or two calls and solver-chosen observation/maneuver outcomes; z3 decides per "
              "path that epochs are unique and increasing, that every row carries bit-for-bit the Julian date of an existing epoch, one row per agent per output, every transient row exactly once, one "
              "bulkSave per output, and that one insertData/bulkSave call stores all rows of a mixed-type list or none whatever row or commit fails; counterexamples are replayed on the real classes against a real in-memory SQLite database audited with SQL.")
LEVEL_NOTE = ("Steps per call bounded (2/3), clock constructor unrolled (3/8 epochs), agent ids concrete, numerics/geometry/ray are environment stubs, storage layer trusted; datetimeToJulianDate cut to its C05 contract.")

REPLAYS = {}


def _solve_hint(rep):
    """The enclosure handed to the double engine for (target date - start date) follows from the accuracy assumption (no vacuity, no extra restriction)."""
    js, jt, T = z3.Real("js"), z3.Real("jt"), z3.Int("T")
    eps = rv(Fraction(1, 2 ** 30))
    hyp = [T >= 0, T <= HORIZON + 86400, jt - js - z3.ToReal(T) / 86400 <= eps, z3.ToReal(T) / 86400 - (jt - js) <= eps]
    rep.reachable("enclosure-assumptions", hyp)
    n0, sod0, sh = z3.Int("n0"), z3.Int("sod0"), z3.Int("shift")
    rep.prove("calendar-range", z3.And(n0 * 86400 + sod0 + sh >= 0, n0 * 86400 + sod0 + sh < (72683 + 1) * 86400),
              [n0 >= 0, n0 <= 72683 - 62, sod0 >= 0, sod0 <= 86399, sh >= 0, sh <= MAX_SHIFT], sample="start <= 2099-10-30 and shifts <= 32 d keep every instant inside the calendar model's range (1901..2099)")
    rep.prove("enclosure-follows", z3.And(jt - js >= -eps, jt - js <= 32), hyp, sample="|jt - js - T/86400| <= 2^-30 d and 0 <= T <= 31 d imply the enclosure -2^-30 <= jt - js <= 32 given to the double engine")


def obligations(tier):
    quick = tier == "quick"
    obs = [Ob("session-scope", lambda rep: o_session(rep, SESSION_ROWS[tier]),
              "DataInterface session scope, insertData and bulkSave on a list mixing rows of up to three tables: all rows or none per call; one session, commit once / rollback and re-raise / always close", 300),
           Ob("imported-key", o_imported, "imported agents: the ephemeris row carries exactly the imported Julian date (bit-exact)", 300),
           Ob("enclosure", _solve_hint, "the static enclosure given to the double engine follows from the accuracy assumption", 60)]
    REPLAYS["session-scope"] = replay_session
    REPLAYS["imported-key"] = replay_import

    def add(name, fn, desc, t):
        obs.append(Ob(name, fn, desc, t))
        REPLAYS[name] = replay_run

    # the beginning of a run: real clock constructor, agents table, real Scenario constructor, first steps
    inits = [(60, 60, TRUTH2E, 3), (60, 120, FULL_NOFS, 3)] if quick else [(60, 60, TRUTH2E, 8), (60, 120, FULL, 4), (300, 60, TRUTH2, 4), (3080, 3080, LIGHT, 6), (1, 60, LIGHT, 8)]
    for dt, out, cfg, n in inits:
        pol = "quick" if cfg["with_engine"] else "free"
        add(f"init-dt{dt}-out{out}", (lambda a: lambda rep: o_init(rep, *a))((dt, out, cfg, pol, n, [(1, 2)])),
            f"clock constructor ({n} epochs unrolled), agents table, Scenario constructor and first steps, dt={dt}, output step={out}", 900)
    # cadence and epochs over two consecutive calls from a symbolic step (truth only)
    pairs = [(60, 60), (60, 120), (60, 90), (60, 300), (300, 60), (3080, 3080)]
    if not quick:
        pairs += [(1, 60), (45, 90), (300, 900), (3600, 3600)]
    hi = 2 if quick else 3
    for dt, out in pairs:
        heavy = (dt, out) in ((60, 90), (60, 300), (300, 900), (1, 60))  # the pairs with the most residue classes: the second call is one step shorter
        hi2 = hi - 1 if heavy or (quick and (dt, out) != (60, 120)) else hi
        add(f"cadence-dt{dt}-out{out}", (lambda a: lambda rep: o_run(rep, *a))((dt, out, TRUTH2E if (dt, out) == (60, 60) else LIGHT, [(1, hi), (1, hi2)], "free", ("epoch-inserted", "epoch-found"))),
            f"two consecutive propagateTo calls (1..{hi} and 1..{hi2} steps) from a symbolic step: output cadence, epochs, truth rows; dt={dt}, output step={out}", 900 if quick else 1800)
    # the full pipeline: estimates, engine, observations, misses, maneuvers, filter steps, tasks
    need = ("epoch-inserted", "epoch-found", "row:Observation", "row:MissedObservation", "row:DetectedManeuver", "row:SequentialFilterStep", "row:Task", "row:EstimateEphemeris")
    add("rows-dt60-out60", lambda rep: o_run(rep, 60, 60, FULL, [(2, 2)], "quick", need), "full pipeline, two steps, output after each", 900)
    add("rows-dt60-out120", lambda rep: o_run(rep, 60, 120, FULL, [(2, 2)], "quick", need + ("rows-of-silent-step",)), "full pipeline, two steps, output after every second step (rows of the silent step)", 900)
    if not quick:
        add("rows-dt60-out120-nofs", lambda rep: o_run(rep, 60, 120, FULL_NOFS, [(2, 2)], "quick", need[:5]), "full pipeline without filter-step saving", 900)
        add("rows-dt60-out180-3steps", lambda rep: o_run(rep, 60, 180, FULL, [(3, 3)], "quick", need), "full pipeline, three steps, output after every third", 1800)
        add("rows-dt300-out600-free", lambda rep: o_run(rep, 300, 600, FULL, [(2, 2)], "thorough", need), "full pipeline, all outcomes of the first tasking free", 1800)
        add("rows-dt60-out120-2sensors", lambda rep: o_run(rep, 60, 120, FULL22, [(2, 2)], "quick", need), "full pipeline, two sensors", 1800)
    return obs


BOUNDS["truth-only runs"] = "truth-only configurations also with idle estimate agents present (a built scenario keeps them): no estimate rows may be written"


obligations("thorough")  # fills REPLAYS for every obligation name (quick is a subset), so that --replay works without listing obligations first
