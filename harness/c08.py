"""C08 - tasking bookkeeping is exact and independent of the order parallel jobs finish."""
from __future__ import annotations

import datetime as _dt
import itertools

import numpy as np
import z3

from symx.core import SBool, SInt, SReal, assume, boolean, cur, explore, integer, mfloat, mval, real, reals, rv
from symx.runner import Ob
from symx.stubs import shadow

ID = "C08"
TECHNIQUE = ("the real JobExecutor.join, the processResults of the reward/task-execution/propagation/prediction/update registrations, TaskingEngine bookkeeping "
             "and CentralizedTaskingEngine.assess are executed with ray replaced by a stub whose completion order is a solver variable per ray.wait call, "
             "worker results carrying symbolic payloads (metric values, boresight vectors, times, observe-or-miss bits); on every feasible path z3 proves the "
             "bookkeeping oracle over the symbolic payloads (unsat), so all completion orders and all tasking outcomes within the bounds are covered")
FLOAT_SEMANTICS = "exact (payloads are opaque reals; only equality and comparisons matter)"
ENCODED = ["resonaate.parallel.tasking_execution:asyncExecuteTasking", 
    "resonaate.parallel:JobExecutor.enqueueJob", "resonaate.parallel:JobExecutor.join",
    "resonaate.parallel.tasking_execution:TaskExecutionRegistration.processResults",
    "resonaate.parallel.tasking_reward_generation:TaskingRewardRegistration.processResults",
    "resonaate.parallel.agent_propagation:PropagateRegistration.processResults",
    "resonaate.tasking.engine.engine_base:TaskingEngine.saveObservations", "resonaate.tasking.engine.engine_base:TaskingEngine.saveMissedObservations",
    "resonaate.tasking.engine.engine_base:TaskingEngine.updateFromAsyncTaskExecution", "resonaate.tasking.engine.engine_base:TaskingEngine.getCurrentObservations",
    "resonaate.tasking.engine.engine_base:TaskingEngine.getCurrentMissedObservations",
    "resonaate.tasking.engine.centralized_engine:CentralizedTaskingEngine.assess",
    "resonaate.agents.sensing_agent:SensingAgent.updateInfo",
]
BOUNDS = {"network": "2 targets x 3 sensors (quick), 3 x 3 (thorough); greedy and all-visible policies", "jobs": "<= 3 jobs per batch, every completion order",
          "outcomes": "every observe-or-miss split of the tasked sensors; arbitrary metric values, boresights and times", "steps": "two consecutive assess calls"}
OUTSIDE = ["Ray's delivery guarantees and pickling", "worker-side computation (C02)", "random noise values", "estimate update/predict payload contents"]
ASSUMPTIONS = ["ray.wait(refs) returns exactly one finished reference, chosen by the solver among the pending ones; ray.get returns the job's result; ray.put is identity",
               "remote functions are replaced by providers of symbolic results (their computation is the subject of C02/C06)",
               "database event query in assess returns no events"]
LEVEL_TEXT = ("Bounded symbolic verification of the merge logic: all completion orders of the reward and task-execution batches and all observe/miss outcomes of a small network are "
              "paths of one symbolic execution of the real assess(); exactly-one-record, sensor state and order independence are proved on each path over symbolic payloads.")
LEVEL_NOTE = "Small network bound; Ray replaced by a nondeterministic-order stub; payload contents opaque."


class Tok:
    """An opaque record (observation or miss) tagged with its (target, sensor)."""

    def __init__(self, kind, target_id, sensor_id, n):
        self.kind, self.target_id, self.sensor_id, self.n = kind, target_id, sensor_id, n

    def __repr__(self):
        return f"{self.kind}(t{self.target_id},s{self.sensor_id})#{self.n}"

    def __bool__(self):
        return True


class RayStub:
    """ray.wait / get / put with a solver-chosen completion order."""

    def __init__(self):
        self.results = {}
        self.order = []
        self.nwait = 0

    def wait(self, refs, **kw):
        refs = list(refs)
        self.nwait += 1
        if len(refs) == 1:
            i = 0
        else:
            k = integer(f"finish_{self.nwait}")
            assume(k.t >= 0, k.t < len(refs))
            i = k.concretize()
        self.order.append(refs[i])
        return [refs[i]], refs[:i] + refs[i + 1:]

    def get(self, ref):
        if isinstance(ref, list):
            return [self.get(r) for r in ref]
        return self.results.get(ref, ref)

    def put(self, x):
        return x


class Remote:
    def __init__(self, rayst, fn, name):
        self.rayst, self.fn, self.name, self.n = rayst, fn, name, 0

    def remote(self, submission):
        self.n += 1
        ref = f"{self.name}-job{self.n}"
        self.rayst.results[ref] = self.fn(submission)
        return ref


class FakeSensor:
    def __init__(self, sid):
        self.simulation_id = sid
        self.measurement = None


class FakeEstimate:
    def __init__(self, tid):
        self.simulation_id = tid


def _engine(targets, sensors, policy):
    from resonaate.tasking.decisions import decisions as D
    from resonaate.tasking.engine import centralized_engine as CE
    from resonaate.tasking.engine import engine_base as EB
    from harness.c07 import _metrics, _mk_reward

    class DB:
        pass

    with shadow(EB, getDBConnection=lambda: DB()):
        eng = CE.CentralizedTaskingEngine(1, list(sensors), list(targets), _mk_reward("sum", _metrics("sum"), 0.5),
                                          D.MyopicNaiveGreedyDecision() if policy == "greedy" else D.AllVisibleDecision(), None, True)
    return eng


def _run_assess(targets, sensors, policy, steps=1):
    from resonaate.parallel import tasking_execution as TE
    from resonaate.parallel import tasking_reward_generation as TR
    from resonaate.tasking.engine import centralized_engine as CE
    import resonaate.parallel as P

    rayst = RayStub()
    eng = _engine(targets, sensors, policy)
    K = eng.num_metrics
    nS = len(sensors)
    log = {"exec": [], "reward": {}}
    counter = [0]
    step = [0]

    def reward_fn(sub):
        tid = sub.estimate_handle.simulation_id
        vis = np.array([boolean(f"vis{step[0]}_{tid}_{s}") for s in sensors], dtype=object)
        # concrete, distinct metric values (tasking variety comes from the symbolic visibility bits):
        # sensors prefer the first target except the last sensor, which prefers the second one
        met = np.array([[(1.0 + 0.1 * k + (0.5 if ((si == nS - 1) == (tid != targets[0])) else 0.0)) for k in range(K)] for si in range(nS)])
        res = TR.RewardCalcResult(estimate_id=tid, visibility=vis, metric_matrix=met)
        log["reward"][(step[0], tid)] = res
        return res

    def exec_fn(sub):
        tid = sub.estimate_handle.simulation_id
        obs, miss, info = [], [], []
        for sh in sub.sensor_handle_list:
            sid = sh.simulation_id
            counter[0] += 1
            if boolean(f"observed{step[0]}_{tid}_{sid}"):
                obs.append(Tok("obs", tid, sid, counter[0]))
            else:
                miss.append(Tok("miss", tid, sid, counter[0]))
            info.append({"sensor_id": sid, "boresight": reals(f"bore{step[0]}_{tid}_{sid}", 3), "time_last_tasked": real(f"tlt{step[0]}_{tid}_{sid}")})
        res = TE.TaskExecutionResult(target_id=tid, observations=obs, missed_observations=miss, sensor_info_list=info)
        log["exec"].append((step[0], tid, [sh.simulation_id for sh in sub.sensor_handle_list], res))
        return res

    snaps = []
    with shadow(P, ray=rayst), shadow(CE, ray=rayst, handleRelevantEvents=lambda *a, **k: None, zeros=_zeros_vis), \
            shadow(TR, asyncCalculateReward=Remote(rayst, reward_fn, "reward")), shadow(TE, asyncExecuteTasking=Remote(rayst, exec_fn, "exec")):
        for st in range(steps):
            step[0] = st
            eng.setHandles({t: FakeEstimate(t) for t in targets}, {s: FakeSensor(s) for s in sensors}, {t: FakeEstimate(t) for t in targets})
            t0 = _dt.datetime(2021, 1, 1, 0, st, 0)
            eng.assess(t0, t0 + _dt.timedelta(seconds=60))
            snaps.append({
                "observations": list(eng.observations), "saved_obs": list(eng.getCurrentObservations()),
                "saved_miss": list(eng.getCurrentMissedObservations()), "sensor_changes": dict(eng.sensor_changes),
                "decision": np.array(eng.decision_matrix, dtype=object), "visibility": np.array(eng.visibility_matrix, dtype=object),
                "metric": np.array(eng.metric_matrix, dtype=object), "order": list(rayst.order),
                "unfinished": (len(eng._reward_executor._unfinished_jobs), len(eng._reward_executor._result_reg_mapping),
                               len(eng._task_exec_executor._unfinished_jobs), len(eng._task_exec_executor._result_reg_mapping)),
            })
            eng.resetHandles()
    return eng, log, snaps


def _zeros_vis(shape, dtype=None):
    """numpy.zeros; boolean matrices get object cells so that symbolic visibility bits can be stored."""
    if dtype is bool:
        a = np.empty(shape, dtype=object)
        a.fill(False)
        return a
    return np.zeros(shape, dtype=dtype)


def _tb(x):
    if isinstance(x, SBool):
        return x.t
    return z3.BoolVal(bool(x))


def _tr(x):
    if isinstance(x, SReal):
        return x.t
    if isinstance(x, SInt):
        return z3.ToReal(x.t)
    return rv(x)


def replay_assess(d):
    """Concrete replay of the same scenario on the real engine with a fixed completion order."""
    return _concrete_assess(d)


def _concrete_assess(d):
    from resonaate.parallel import tasking_execution as TE
    from resonaate.parallel import tasking_reward_generation as TR
    from resonaate.tasking.engine import centralized_engine as CE
    import resonaate.parallel as P

    targets, sensors, policy = d["targets"], d["sensors"], d["policy"]
    eng = _engine(targets, sensors, policy)

    class FixedRay(RayStub):
        def wait(self, refs, **kw):
            refs = list(refs)
            self.nwait += 1
            i = d["order"].get(str(self.nwait), 0) if len(refs) > 1 else 0
            i = min(i, len(refs) - 1)
            return [refs[i]], refs[:i] + refs[i + 1:]

    rayst = FixedRay()
    cnt = [0]

    def reward_fn(sub):
        tid = sub.estimate_handle.simulation_id
        return TR.RewardCalcResult(estimate_id=tid, visibility=np.array(d["vis"][str(tid)], dtype=bool), metric_matrix=np.array(d["met"][str(tid)], dtype=float))

    jobs = []

    def exec_fn(sub):
        tid = sub.estimate_handle.simulation_id
        obs, miss, info = [], [], []
        for sh in sub.sensor_handle_list:
            sid = sh.simulation_id
            cnt[0] += 1
            (obs if d["observed"].get(f"{tid}_{sid}", False) else miss).append(Tok("rec", tid, sid, cnt[0]))
            info.append({"sensor_id": sid, "boresight": np.array([tid, sid, 1.0]), "time_last_tasked": 100.0 * tid + sid})
        jobs.append((tid, [sh.simulation_id for sh in sub.sensor_handle_list]))
        return TE.TaskExecutionResult(target_id=tid, observations=obs, missed_observations=miss, sensor_info_list=info)

    with shadow(P, ray=rayst), shadow(CE, ray=rayst, handleRelevantEvents=lambda *a, **k: None), \
            shadow(TR, asyncCalculateReward=Remote(rayst, reward_fn, "reward")), shadow(TE, asyncExecuteTasking=Remote(rayst, exec_fn, "exec")):
        eng.setHandles({t: FakeEstimate(t) for t in targets}, {s: FakeSensor(s) for s in sensors}, {t: FakeEstimate(t) for t in targets})
        t0 = _dt.datetime(2021, 1, 1)
        eng.assess(t0, t0 + _dt.timedelta(seconds=60))
    problems = []
    recs = list(eng.observations) + list(eng.getCurrentMissedObservations())
    for tid, sids in jobs:
        for sid in sids:
            n = sum(1 for r in recs if (r.target_id, r.sensor_id) == (tid, sid))
            if n != 1:
                problems.append(f"pair (t{tid},s{sid}) has {n} records")
    tasked = {}
    for tid, sids in jobs:
        for sid in sids:
            tasked.setdefault(sid, []).append(tid)
    for sid, tids in tasked.items():
        if sid not in eng.sensor_changes:
            problems.append(f"tasked sensor {sid} missing from sensor_changes")
        elif len(tids) == 1 and eng.sensor_changes[sid]["time_last_tasked"] != 100.0 * tids[0] + sid:
            problems.append(f"sensor {sid} has another job's time_last_tasked")
    return bool(problems), {"problems": problems, "jobs": jobs}


def o_assess(rep, nT, nS, policy, steps=1):
    targets = [11, 12, 13][:nT]
    sensors = [21, 22, 23][:nS]

    def run():
        return _run_assess(targets, sensors, policy, steps)

    res = explore(run, max_paths=20000, max_depth=400)
    rep.note(f"{policy} {nT}x{nS} steps={steps}: paths={len(res)}")
    orders_seen = set()
    n = 0
    for r in res:
        if r.exc is not None:
            rep.error("exception", f"{r.exc!r}")
            continue
        eng, log, snaps = r.out
        goals = []
        for st, snap in enumerate(snaps):
            orders_seen.add(tuple(snap["order"]))
            D = snap["decision"]
            jobs = [(tid, sids, res_) for (s_, tid, sids, res_) in log["exec"] if s_ == st]
            # (a) decision rows drive the jobs: a job per target with >=1 tasked sensor, its sensors are the tasked ones
            for ti, tid in enumerate(targets):
                mine = [j for j in jobs if j[0] == tid]
                goals.append(z3.BoolVal(len(mine) <= 1))
                in_job = set(mine[0][1]) if mine else set()
                for si, sid in enumerate(sensors):
                    # the decision bit (a term over the visibility bits) must equal "sensor sid is in target tid's job"
                    goals.append(_tb(D[ti, si]) == z3.BoolVal(sid in in_job))
            # (b) exactly one record per tasked pair, never both, never duplicated; saved lists equal
            recs_obs, recs_miss = snap["observations"], snap["saved_miss"]
            for tid, sids, res_ in jobs:
                for sid in sids:
                    n_o = sum(1 for x in recs_obs if (x.target_id, x.sensor_id) == (tid, sid))
                    n_m = sum(1 for x in recs_miss if (x.target_id, x.sensor_id) == (tid, sid))
                    goals.append(z3.BoolVal(n_o + n_m == 1))
            want_obs = [o for _t, _s, res_ in jobs for o in res_.observations]
            want_miss = [o for _t, _s, res_ in jobs for o in res_.missed_observations]
            goals.append(z3.BoolVal(sorted(map(id, recs_obs)) == sorted(map(id, want_obs))))
            goals.append(z3.BoolVal(sorted(map(id, snap["saved_obs"])) == sorted(map(id, want_obs))))
            goals.append(z3.BoolVal(sorted(map(id, recs_miss)) == sorted(map(id, want_miss))))
            # (c) every tasked sensor's pointing state reflects its job (sensor tasked once), symbolic payload equality
            tasked_by = {}
            for tid, sids, res_ in jobs:
                for info in res_.sensor_info_list:
                    tasked_by.setdefault(info["sensor_id"], []).append(info)
            sc = snap["sensor_changes"]
            for sid, infos in tasked_by.items():
                if sid not in sc:
                    goals.append(z3.BoolVal(False))
                    continue
                alts = []
                for info in infos:
                    alts.append(z3.And(_tr(sc[sid]["time_last_tasked"]) == _tr(info["time_last_tasked"]),
                                       *[_tr(a) == _tr(b) for a, b in zip(sc[sid]["boresight"], info["boresight"])]))
                goals.append(z3.Or(*alts))
            goals.append(z3.BoolVal(set(sc) <= set(tasked_by)))
            # (d) reward-batch merge: each row is the result of its own estimate, whatever the order
            for ti, tid in enumerate(targets):
                rr = log["reward"][(st, tid)]
                for si in range(len(sensors)):
                    goals.append(_tb(snap["visibility"][ti, si]) == _tb(rr.visibility[si]))
            # (e) executors drained
            goals.append(z3.BoolVal(snap["unfinished"] == (0, 0, 0, 0)))
        n += 1
        decs = {c: bool(v) for c, v in zip(itertools.count(), r.path.decisions)}

        def inputs(m, r=r, log=log, snaps=snaps):
            d = {"targets": targets, "sensors": sensors, "policy": policy, "order": {}, "vis": {}, "met": {}, "observed": {}}
            for k in range(1, 9):
                v = m.eval(z3.Int(f"finish_{k}"), model_completion=True)
                d["order"][str(k)] = v.as_long()
            for tid in targets:
                d["vis"][str(tid)] = [bool(mval(m, z3.Bool(f"vis0_{tid}_{s}"))) for s in sensors]
                K = eng.num_metrics
                nS_ = len(sensors)
                d["met"][str(tid)] = [[(1.0 + 0.1 * k + (0.5 if ((si == nS_ - 1) == (tid != targets[0])) else 0.0)) for k in range(K)] for si in range(nS_)]
                for s in sensors:
                    d["observed"][f"{tid}_{s}"] = bool(mval(m, z3.Bool(f"observed0_{tid}_{s}")))
            return d

        rep.prove(f"{policy}[{nT}x{nS}]#{n}", z3.And(*goals), r.constraints, inputs=inputs, replay=replay_assess if steps == 1 else None,
                  sample=f"{policy} {nT}x{nS}: one record per tasked pair, saved lists exact, sensor state from own job, reward rows from own estimate, executors drained")
    rep.note(f"distinct completion orders explored: {len(orders_seen)}")
    if len(orders_seen) < 2 and nT > 1:
        rep.error("reach", "only one completion order explored")


def o_propagate_merge(rep):
    """PropagateRegistration.processResults writes only its own registrant; join applies each result once in any order."""
    import resonaate.parallel as P
    from resonaate.parallel import agent_propagation as AP

    class Agent:
        def __init__(self, i):
            self.simulation_id = i
            self.time = real(f"t_{i}")
            self.eci_state = reals(f"x_{i}", 2)
            self.writes = 0

        def __setattr__(self, k, v):
            if k in ("time", "eci_state") and "writes" in self.__dict__:
                self.__dict__["writes"] += 1
            self.__dict__[k] = v

    def run():
        rayst = RayStub()
        agents = [Agent(i) for i in range(3)]
        results = {}

        class Reg(AP.PropagateRegistration):
            def generateSubmission(self):
                return self._registrant.simulation_id

        def fn(aid):
            res = AP.PropagateResult(agent_id=aid, final_time=real(f"tf_{aid}"), prev_state=None, final_eci=reals(f"xf_{aid}", 2))
            results[aid] = res
            return res

        ex = AP.PropagateExecutor()
        with shadow(P, ray=rayst), shadow(AP, asyncPropagate=Remote(rayst, fn, "prop")):
            for a in agents:
                ex.enqueueJob(Reg(a))
            ex.join()
        return agents, results, rayst.order

    res = explore(run, max_paths=100)
    orders = set()
    for i, r in enumerate(res):
        if r.exc is not None:
            rep.error("exception", repr(r.exc))
            continue
        agents, results, order = r.out
        orders.add(tuple(order))
        goals = []
        for a in agents:
            goals.append(_tr(a.time) == _tr(results[a.simulation_id].final_time))
            goals += [_tr(x) == _tr(y) for x, y in zip(a.eci_state, results[a.simulation_id].final_eci)]
            goals.append(z3.BoolVal(a.writes == 2))
        rep.prove(f"propagate-merge#{i}", z3.And(*goals), r.constraints, sample="each propagation result is applied exactly once, to its own agent, in any completion order")
    rep.note(f"orders={len(orders)}")
    if len(orders) != 6:
        rep.error("reach", f"expected 6 completion orders of 3 jobs, got {len(orders)}")


REPLAYS = {}


def obligations(tier):
    obs = []
    cases = [("greedy", 2, 3, 1), ("allvisible", 2, 2, 1), ("greedy", 2, 2, 2)]
    if tier == "thorough":
        cases += [("greedy", 3, 3, 1), ("allvisible", 2, 3, 1)]
    for pol, nT, nS, steps in cases:
        name = f"assess-{pol}-{nT}x{nS}" + (f"-steps{steps}" if steps > 1 else "")
        obs.append(Ob(name, (lambda a: lambda rep: o_assess(rep, *a))((nT, nS, pol, steps)), f"assess() bookkeeping, {pol} {nT}x{nS}, {steps} step(s), all completion orders", 1500))
        REPLAYS[name] = replay_assess
    obs.append(Ob("propagate-merge", o_propagate_merge, "propagation results applied once to their own agent in any order", 300))
    # the worker side of "exactly one record per tasked pair": the real asyncExecuteTasking body on symbolic sensor constraints
    # (obligation shared with C02: oracle O2-exactly-one / O3-pointing over the worker's returned lists)
    from harness import c02

    for ob in c02.obligations(tier):
        if ob.name.startswith("async-"):
            obs.append(Ob("worker-" + ob.name, ob.fn, "worker result: exactly one observation-or-miss per tasked pair; " + ob.desc, ob.timeout_s))
            if ob.name in c02.REPLAYS:
                REPLAYS["worker-" + ob.name] = c02.REPLAYS[ob.name]
    return obs
