"""C15 - finite burns / finite maneuvers thrust for exactly their configured interval."""
from __future__ import annotations

import copy
import os
from fractions import Fraction
from functools import partial

import numpy as np
import z3

from symx.core import SReal, assume, explore, mfloat, mval, real, reals, rv
from symx.ext_c15 import ContractBudget, SolveIvpContract, pin_scipy, sym_max
from symx.runner import Ob
from symx.stubs import shadow, sym_zeros

ID = "C15"
FINDING_OVERRUN = "C15-burn-overrun"
FINDING_SKIPPED = "C15-burn-skipped"
TECHNIQUE = ("the real ScheduledFiniteBurnEvent/ScheduledFiniteManeuverEvent.handleEvent, Agent.prunePropagateEvents, Celestial.propagate/_prepEvents/_applyEvents, "
             "ScheduledFiniteThrust.__call__/getStateChangeCallback/__eq__, eciBurn/spiralThrust and SpecialPerturbations._differentialEquation are executed on z3 Real proxies "
             "for two consecutive propagation steps of one agent; scipy's solve_ivp is replaced by a contract stub (symx/ext_c15.py, pinned to the installed scipy source by hash) in "
             "which the step end times, the brentq iterate returned as event root and numpy.spacing are solver variables; burn start/end, step start, step size, thrust "
             "acceleration, natural acceleration and initial state are solver variables. Every feasible path is explored; per path z3 proves the ring identity "
             "'velocity change returned by propagate() = g*H + a*D' and then decides, in linear real arithmetic over all paths at once, whether the delivered thrust duration D "
             "can differ from |[t_s,t_e] n [T0,T2]| (or the integrated span H from T2-T0). Counterexamples are replayed on the real SpecialPerturbations.propagate with the "
             "real scipy solve_ivp; known findings are z3 regions over (T0, dt, t_s, t_e, D). O4: the same with TWO finite thrusts of the agent in the event queue "
             "(s1 < e1 < s2 < e2, own acceleration vectors a1, a2, four queue modes incl. the later burn queued first): per path the ring identity 'dv = g*H + a1*D1 + a2*D2', then "
             "D_i against |[s_i,e_i] n [T0,T2]| over all paths. Tolerance comparisons of numpy/math (isclose, allclose), should the analysed code use them, enter as their defining formula "
             "in one solver term, so that relative tolerances are exercised by short burns at large scenario times (O1 item 'T0 >= 86400 s, burn <= 1 s'). O5: a call with a burn still on at its end followed by an event-free call on the same dynamics object and on a fresh one")
FLOAT_SEMANTICS = ("Real-ideal for the trajectory; the code's own floating-point guards are kept as written: fpe_equals compares with the double finfo(float).resolution (~1e-15) exactly, "
                   "numpy.spacing and brentq's 4 ulp tolerance enter as bounded solver variables")
ENCODED = [
    "resonaate.dynamics.integration_events.finite_thrust:ScheduledFiniteThrust.__call__",
    "resonaate.dynamics.integration_events.finite_thrust:ScheduledFiniteThrust.getStateChangeCallback",
    "resonaate.dynamics.integration_events.finite_thrust:ScheduledFiniteThrust.__eq__",
    "resonaate.dynamics.integration_events.finite_thrust:ScheduledFiniteThrust.__init__",
    "resonaate.dynamics.integration_events.finite_thrust:eciBurn",
    "resonaate.dynamics.integration_events.finite_thrust:ntwBurn",
    "resonaate.dynamics.integration_events.finite_thrust:spiralThrust",
    "resonaate.dynamics.integration_events.finite_thrust:planeChangeThrust",
    "resonaate.dynamics.celestial:Celestial._prepEvents",
    "resonaate.dynamics.celestial:Celestial._applyEvents",
    "resonaate.dynamics.celestial:Celestial._nextThrustBoundary",
    "resonaate.dynamics.celestial:Celestial.propagate",
    "resonaate.dynamics.special_perturbations:SpecialPerturbations._differentialEquation",
    "resonaate.agents.agent_base:Agent.prunePropagateEvents",
    "resonaate.agents.agent_base:Agent.appendPropagateEvent",
    "resonaate.data.events.finite_burn:ScheduledFiniteBurnEvent.handleEvent",
    "resonaate.data.events.finite_maneuver:ScheduledFiniteManeuverEvent.handleEvent",
    "resonaate.data.events.base:ThrustFrame.thrust",
    "resonaate.data.events.finite_maneuver:ManeuverType.thrust",
    "resonaate.physics.maths:fpe_equals",
]

RES_D = 1e-15  # numpy.finfo(float).resolution (a double, slightly above 10^-15), the threshold inside fpe_equals
ETA = Fraction(1, 10 ** 9)  # half-width of the "on a step boundary" zones
TOL_T = Fraction(1, 10 ** 6)  # s: tolerance on the delivered thrust duration
T_MIN, T_MAX = 0, 2 ** 20
DT_MIN, DT_MAX = 1, 3600
BURN_MIN = Fraction(1, 1000)
LATE_T0, LATE_BURN = 86400, 1  # the "short burn late in the scenario" special case: T0 >= one day, burn of at most 1 s
GAP_MIN = BURN_MIN  # O4: s2 - e1 >= 1e-3 s: touching burns (e1 == s2) are outside, see OUTSIDE

BOUNDS = {
    "propagation calls": "2 consecutive calls [T0,T1],[T1,T2] (T1=T0+dt, T2=T1+dt) with event delivery and prunePropagateEvents before each, as in PropagateRegistration",
    "times": f"T0 in [{T_MIN}, {T_MAX}] s (any real, not only multiples of dt), dt in [{DT_MIN}, {DT_MAX}] s, t_s >= {T_MIN} s, t_e - t_s >= {float(BURN_MIN)} s; "
             "t_s and t_e anywhere relative to the grid. Each end falls in one of 7 zones (before T0 / within 1e-9 of T0 / inside step 1 / within 1e-9 of T1 / inside step 2 / "
             "within 1e-9 of T2 / after T2): 25 (start, end) classes, each shown inhabited; obligations are grouped by the end zone (inside / boundary / outside)",
    "integrator": "quick: exactly 2 solver steps per solve_ivp call (fewer when a terminal event ends it), <= 8 solve_ivp calls per path, no restart re-trigger chain; "
                  "thorough adds: 1|2 steps chosen per call; 2 steps with re-trigger chains <= 2; 3 and 4 steps with chains <= 1; <= 12 calls per path",
    "short burns late in the scenario": f"inside the time bounds above (T0 up to {T_MAX} s = 12 days, burns down to {float(BURN_MIN)} s): any comparison in the code whose tolerance scales with the "
                                        f"absolute scenario time (relative tolerances) is exercised with burns 10^9 times shorter than the time stamp; O1 states the class T0 >= {LATE_T0} s, burn <= {LATE_BURN} s "
                                        "as an own item per end-zone group (shown inhabited)",
    "tolerance": f"delivered duration compared with |[t_s,t_e] n [T0,T2]| within {float(TOL_T)} s (covers the <= 2^-33 s skipped at each restart, the 4 ulp root tolerance and the 1e-9 zones)",
    "vectors": "thrust acceleration a, natural acceleration g, initial state: all real vectors (symbolic in the per-path ring identity); event kinds: finite burn (ECI frame) and finite maneuver (spiral)",
    "two burns (O4)": f"two finite thrusts A=[s1,e1], B=[s2,e2] of the same agent, e1 - s1, e2 - s2 >= {float(BURN_MIN)} s and s2 - e1 >= {float(GAP_MIN)} s (non-overlapping, not touching), accelerations a1, a2 any real vectors; "
                      "same 2-call structure, same time bounds, zones and tolerance (per burn). Queue modes: chrono (delivery windows of the pipeline, A handed over before B), reversed (both queued before "
                      "call 1 as [B, A]); thorough adds chrono-prequeued ([A, B] queued before call 1: a not-yet-started burn waits in the queue) and reversed-windows (delivery windows, B before A inside a step). "
                      "Quick classes (zones of s1,e1,s2,e2): one-call (all four inside call 1, or all inside call 2), one-per-call (A inside call 1, B inside call 2), span-T1 (A starts before/inside call 1 "
                      "and ends inside call 2, B starts inside call 2 and ends inside it or after T2), end-on-T1 (as span-T1 with e1 within 1e-9 of T1, exact coincidence included); 2 integrator steps per "
                      "solve_ivp call, <= 14 solve_ivp calls per path. Thorough adds for these classes: 1|2 steps, 2 steps with re-trigger chains <= 2, 3 steps with chains <= 1 (<= 20 calls), the mixed kinds "
                      "burn+maneuver / maneuver+burn, and - burn+burn, 2 steps - EVERY combination of the 7 zones for the four times (grouped by the zone of e1) in all four queue modes; each zone tuple shown inhabited",
    "history (O5)": "call 1 [T0,T1] with one finite burn whose window contains T1 (start before/at/inside call 1, end inside call 2, at T2 or later), then call 2 [T1,T2] with scheduled_events None / [] / omitted "
                    "on the same dynamics object and on a fresh one; 2 steps and 1 step per solve_ivp call (thorough: also 1|2 and 3); full-state equality with the fresh object in the 1-step configuration "
                    "(identical integrator choices), velocity change = g*H with |H - dt| <= 1e-6 s in all",
}
OUTSIDE = [
    "the numerical trajectory (RK45 error control, gravity-gradient coupling of the thrust): one explicit stage per step in the stub; the replay integrates with the real scipy and reports the measured delta-v",
    "state-dependent thrust directions along the trajectory: NTW burns / spiral / plane-change are checked as callables (O2-callables: the rotation ntw2eci applied to the configured vector; "
    "ntw2eci itself is C04's subject); in O1 the finite maneuver runs with ntw2eci cut to the identity frame",
    "TwoBody dynamics: TwoBody._differentialEquation has no thrust term at all, so under two_body truth dynamics a finite burn is inert (observation; the property's anchors name SpecialPerturbations)",
    "times above 2^20 s (below, the whole range from 0 is inside since the restart-resolution fix: numpy.spacing is any value in (0, 2^-33])",
    "Julian-date rounding of the event times (C05/C01): handleEvent's conversion is executed in exact reals (JulianDate cut to a real number); in the real pipeline a nominally aligned burn end is "
    "~4e-5 s off the grid, i.e. it falls into the 'inside' / 'boundary' classes of this harness",
    "more than two consecutive steps; more than two finite thrusts in the queue; OVERLAPPING finite thrusts (Celestial keeps a single finite_thrust slot)",
    f"TOUCHING burns (e1 == s2, and any gap below {float(GAP_MIN)} s): outside the bound s2 - e1 >= {float(GAP_MIN)} s. Separately noted limitation of the real code: the end of A and the start of B are then two "
    "simultaneous terminal events and scipy's solve_ivp reports only the first of them, so which callback wins depends on the queue order",
    "two burns of DIFFERENT agents / several agents sharing one dynamics object between their calls (O5 covers only: burn call followed by an event-free call)",
    "propagateBulk, station keeping, impulses (C01/C03)",
    "code that compares times through numpy.isclose / numpy.allclose / math.isclose (none on the current tree): decided in exact reals, inputs sitting on the comparison's threshold "
    "(band in ASSUMPTIONS) are outside - double rounding of a - b and of atol + rtol*|b| decides those",
]
ASSUMPTIONS = [
    "solve_ivp -> symx.ext_c15.SolveIvpContract (event protocol of scipy 1.18.1 ivp.py l.29-157, 651-760, rk.py l.138-139, hash-pinned; brentq end-point/bracket facts; "
    "R1: brentq does not return an isolated zero that is not a sign change; R2: bounded restart re-trigger chains; R3: step ends chosen by the integrator itself are never exact zeros "
    "of an event function, only the clipped final step end tf and the caller's restart instants can be); numpy.spacing -> eps in [2^-49, 2^-33]",
    "SpecialPerturbations: JulianDate/julianDateToDatetime/ReductionParams/_getRotationMatrix/Sun -> tokens, nonSphericalAcceleration -> one symbolic constant vector g (the natural acceleration), "
    "Earth.mu -> 0, norm -> 1, checkEarthCollision -> no-op, empty_like/zeros -> object arrays: the thrust on/off logic does not read any of them",
    "EventStack.pushEvent (Ray key-value store log) -> list append (also in the replay, unless C15_REPLAY_RAY=1)",
    "numpy.isclose / numpy.allclose / math.isclose (also reached as np.isclose / math.isclose through a module binding), wherever one of the analysed modules (finite_thrust, celestial, "
    "special_perturbations, agent_base, data.events.finite_burn/finite_maneuver/base, physics.maths) binds them - none does on the current tree -> their defining formulas in exact reals as one "
    "solver term: |a-b| <= atol + rtol*|b| or a == b (numpy/_core/numeric.py; numpy's own implementation raises on proxies: the ufunc isfinite has no object loop), "
    "|a-b| <= max(rel_tol*max(|a|,|b|), abs_tol) (math); at each such comparison the inputs with ||a-b| - thr| <= min(thr/2, 2^-30*thr + 2^-46*(|a|+|b|)) are assumed away "
    "(double rounding decides them; a counterexample there would not replay)",
    "JulianDate in data.events.finite_burn/finite_maneuver -> exact real with convertToScenarioTime(jd0) = (jd - jd0) * 24 * 3600",
    "driver mirrors PropagateRegistration.generateSubmission/asyncPropagate/processResults: deliver (handleEvent) when t_s <= T_{k+1} and t_e > T_k (the getRelevantEvents window), prune, propagate, advance time",
    "O1 maneuver kind: ntw2eci -> identity frame; O2-callables: ntw2eci -> a symbolic 3x3 matrix applied to both halves",
    "cut: after the per-path ring identity dv = g*H + a*D is proved, the main query is over the linear terms H and D only (O4: dv = g*H + a1*D1 + a2*D2, linear terms H, D1, D2)",
    "O4 driver: the two event rows are handed to the agent (real handleEvent -> appendPropagateEvent, a fresh equal event object per hand-over) per queue mode - 'chrono'/'reversed-windows': each row when its "
    "getRelevantEvents window is open (s_i <= T_{k+1} and e_i > T_k), in chronological / reverse order inside a step; 'reversed'/'chrono-prequeued': additionally both rows once before call 1 "
    "(reverse / chronological order), which is how a queue [B, A] (or a waiting future burn) arises; the real prunePropagateEvents removes the duplicates and the expired burns before each call",
    "O4 replay: real propagate + real scipy with the same hand-over; per burn the seconds during which Celestial.finite_thrust held that burn's callable, and independently the velocity difference to the "
    "coasting run resolved by least squares along a1, a2 (replay vectors are linearly independent); reproduced only if the real run also matches the stub's predicted durations",
    "O5: `dyn.finite_thrust is not None` after call 1 is read as a reachability guard only (each configuration must contain paths on which the first call ended with the thrust on); the oracle is over returned states",
    "replay: real SpecialPerturbations.propagate + real scipy; measured = seconds during which Celestial.finite_thrust was set (a wrapper around the real solve_ivp reads it per call) and, independently, the "
    "velocity difference to a coasting run; the wrapper passes first_step = tf - t0 on a distant orbit so that RK45 takes the longest steps it accepts (which steps the integrator takes is the stub's "
    "free choice; the run with RK45's own step selection at GEO is reported next to it)",
]
LEVEL_TEXT = ("Bounded symbolic verification of the thrust switching logic over all real burn start/end times, step starts and step sizes for two consecutive propagation steps, under a "
              "contract model of solve_ivp's event handling whose free choices are solver variables; the delivered delta-v of every feasible path is compared with a x |burn n window|. "
              "Extended to two non-overlapping finite thrusts of the agent in both queue orders (each burn's delivered duration) and to history independence of the dynamics object.")
LEVEL_NOTE = ("solve_ivp is a contract stub (hash-pinned to the scipy source); numerical integration accuracy is outside; 2 steps, <= 4 integrator steps per call; times >= 8 s. "
              f"The former findings {FINDING_OVERRUN} (burn end inside a propagation call: thrust runs to the end of the call) and {FINDING_SKIPPED} (burn end on the call end and burn start inside the "
              "last integrator step: burn never starts) are fixed in /repo (Celestial._nextThrustBoundary cuts the integration at thrust boundaries); their regions are kept for matching should they reappear. "
              "Two burns: gap >= 1e-3 s between them (touching/overlapping burns outside); quick covers four (s1,e1,s2,e2) zone classes in two queue orders, thorough every zone combination in four queue modes.")

ZONES = ("lt0", "at0", "in0", "at1", "in1", "at2", "gt2")


def _zone(x, z, T0, T1, T2):
    e = rv(ETA)
    return {
        "lt0": x < T0 - e, "at0": z3.And(x >= T0 - e, x <= T0 + e), "in0": z3.And(x > T0 + e, x < T1 - e),
        "at1": z3.And(x >= T1 - e, x <= T1 + e), "in1": z3.And(x > T1 + e, x < T2 - e), "at2": z3.And(x >= T2 - e, x <= T2 + e), "gt2": x > T2 + e,
    }[z]


def classes():
    out = []
    for i, zs in enumerate(ZONES):
        for ze in ZONES[i:]:
            if zs == ze and zs.startswith("at"):
                continue
            out.append((zs, ze))
    return out


# ------------------------------------------------------------------------------------------------------------------------
# the symbolic world
# ------------------------------------------------------------------------------------------------------------------------
class _Tok:
    mu = 0.0
    radius = 6378.1363

    def __init__(self, *a, **k):
        pass

    @classmethod
    def build(cls, *a, **k):
        return cls()

    @staticmethod
    def getPosition(jd):
        return np.zeros(3)


class _SymJD:
    """JulianDate cut to an exact real (the conversion formula is the real one-liner of JulianDate.convertToScenarioTime)."""

    def __init__(self, v):
        self.v = v

    def convertToScenarioTime(self, jd0):
        return (self.v - jd0) * 24 * 3600


def _time_cuts(mod):
    """the exact-real cuts for whichever of the repository's two float subclasses a module binds: a JulianDate is the wrapper above, a
    ScenarioTime is the real number itself (both classes only add the conversion one-liners to float)"""
    out = {}
    if "JulianDate" in mod.__dict__:
        out["JulianDate"] = _SymJD
    if "ScenarioTime" in mod.__dict__:
        out["ScenarioTime"] = lambda v: v
    return out


class _EventLog:
    def __init__(self):
        self.records = []

    def pushEvent(self, rec):
        self.records.append(rec)


def _sym_empty_like(a, dtype=None, **k):
    return sym_zeros(np.shape(a))


# ---- tolerance comparisons of numpy / math on proxies -------------------------------------------------------------------
# numpy.isclose cannot run on proxies (it calls the ufunc `isfinite`, which has no object-dtype loop: TypeError), so code that asks
# "is this time the event time?" through numpy.isclose / numpy.allclose / math.isclose would only produce a harness error.  Whenever one of
# the analysed modules binds one of these functions, the binding is shadowed by its defining formula as ONE solver term (the `if` of the
# calling code then forks on it like on any other comparison):
#     numpy.isclose(a, b, rtol=1e-5, atol=1e-8)      = (|a - b| <= atol + rtol * |b|) & isfinite(b) | (a == b)     [numpy/_core/numeric.py]
#     math.isclose(a, b, rel_tol=1e-9, abs_tol=0.0)  = |a - b| <= max(rel_tol * max(|a|, |b|), abs_tol)
# Exact reals.  In doubles the roundings of the operands, of a - b and of the threshold decide inputs that sit on the threshold, so a counterexample
# there would not replay: inputs with  | |a-b| - thr | <= min(thr/2, 2^-30 * thr + 2^-46 * (|a| + |b|))  are assumed away at each such comparison
# (2^-46 (|a|+|b|): 16 x the 4 ulp root tolerance of brentq plus the rounding of the model's rationals to doubles; exact coincidence a == b stays inside).
CLOSE_BAND_REL, CLOSE_BAND_MAG = Fraction(1, 2 ** 30), Fraction(1, 2 ** 46)


def _is_proxy(x):
    from symx.core import SBool, SInt

    return isinstance(x, (SReal, SInt, SBool))


def _has_proxy(*xs):
    for x in xs:
        if _is_proxy(x):
            return True
        if isinstance(x, np.ndarray) and x.dtype == object and any(_is_proxy(v) for v in x.flat):
            return True
        if isinstance(x, (list, tuple)) and any(_has_proxy(v) for v in x):
            return True
    return False


def _term(x):
    from symx.core import SInt

    if isinstance(x, SReal):
        return x.t
    if isinstance(x, SInt):
        return z3.ToReal(x.t)
    return rv(x)


def _min(a, b):
    return z3.If(a <= b, a, b)


def _within(d, thr, mag, also=None):
    """SBool of  d <= thr  (or `also`); a band around the threshold is excluded from the inputs of the path (mag = |a| + |b|)."""
    from symx.core import SBool

    band = _min(thr / 2, rv(CLOSE_BAND_REL) * thr + rv(CLOSE_BAND_MAG) * mag)
    assume(z3.Or(d < thr - band, d > thr + band, thr <= 0))
    c = d <= thr
    return SBool(z3.simplify(c if also is None else z3.Or(c, also)))


def _isclose1(a, b, rtol, atol):
    x, y = _term(a), _term(b)
    return _within(_abs(x - y), _term(atol) + _term(rtol) * _abs(y), _abs(x) + _abs(y), also=(x == y))


def sym_isclose(a, b, rtol=1e-05, atol=1e-08, equal_nan=False):
    if not _has_proxy(a, b, rtol, atol):
        return np.isclose(a, b, rtol=rtol, atol=atol, equal_nan=equal_nan)
    arrs = np.broadcast_arrays(*[np.asarray(v, dtype=object) for v in (a, b, rtol, atol)])
    out = np.empty(arrs[0].shape, dtype=object)
    for idx in np.ndindex(*out.shape):
        out[idx] = _isclose1(*[v[idx] for v in arrs])
    return out[()]


def sym_allclose(a, b, rtol=1e-05, atol=1e-08, equal_nan=False):
    from symx.core import SBool

    r = sym_isclose(a, b, rtol=rtol, atol=atol, equal_nan=equal_nan)
    if not _has_proxy(r):
        return bool(np.all(r))
    return SBool(z3.simplify(z3.And(*[(v.t if _is_proxy(v) else z3.BoolVal(bool(v))) for v in np.asarray(r, dtype=object).flat])))


def sym_math_isclose(a, b, *, rel_tol=1e-09, abs_tol=0.0):
    import math

    if not _has_proxy(a, b, rel_tol, abs_tol):
        return math.isclose(a, b, rel_tol=rel_tol, abs_tol=abs_tol)
    x, y, r, t = _term(a), _term(b), _term(rel_tol), _term(abs_tol)
    ax, ay = _abs(x), _abs(y)
    big = r * z3.If(ax >= ay, ax, ay)
    return _within(_abs(x - y), z3.If(big >= t, big, t), ax + ay, also=(x == y))


def _closeness_shadows(modules):
    """shadow() context managers replacing, in the given modules, every global bound to numpy.isclose / numpy.allclose / math.isclose."""
    import math

    model = {id(np.isclose): sym_isclose, id(np.allclose): sym_allclose, id(math.isclose): sym_math_isclose}
    spaces = {id(np): _ModView(np, isclose=sym_isclose, allclose=sym_allclose), id(math): _ModView(math, isclose=sym_math_isclose)}  # `import numpy as np; np.isclose(...)`
    out = []
    for mod in modules:
        found = {name: model[id(val)] for name, val in list(vars(mod).items()) if id(val) in model}
        found.update({name: spaces[id(val)] for name, val in list(vars(mod).items()) if id(val) in spaces and not name.startswith("__")})
        if found:
            out.append(shadow(mod, **found))
    return out


class _ModView:
    """A module seen through a few replaced attributes."""

    def __init__(self, mod, **over):
        self.__dict__.update(_mod=mod, _over=over)

    def __getattr__(self, name):
        over = self.__dict__["_over"]
        return over[name] if name in over else getattr(self.__dict__["_mod"], name)


def _analysed_modules():
    from resonaate.agents import agent_base as AB
    from resonaate.data.events import base as EB
    from resonaate.data.events import finite_burn as FB
    from resonaate.data.events import finite_maneuver as FM
    from resonaate.dynamics import celestial as CEL
    from resonaate.dynamics import special_perturbations as SP
    from resonaate.dynamics.integration_events import finite_thrust as FT
    from resonaate.physics import maths as MA

    return [FT, CEL, SP, AB, FB, FM, EB, MA]


_DYN = [None]


def _dynamics():
    """A real SpecialPerturbations instance (real constructor, default configs), copied per path."""
    if _DYN[0] is None:
        from resonaate.dynamics.special_perturbations import SpecialPerturbations
        from resonaate.physics.time.stardate import JulianDate
        from resonaate.scenario.config.geopotential_config import GeopotentialConfig
        from resonaate.scenario.config.perturbations_config import PerturbationsConfig

        _DYN[0] = SpecialPerturbations(JulianDate(2458207.010416667), GeopotentialConfig(), PerturbationsConfig(), 0.02)
    d = copy.copy(_DYN[0])
    d.finite_thrust = None
    return d


def _agent_cls():
    from resonaate.agents.agent_base import Agent

    class _A(Agent):
        def getCurrentEphemeris(self):
            return None

        def importState(self, ephemeris):
            return None

        eci_state = ecef_state = lla_state = None

    return _A


def _new_agent(time, jd0, sim_id=7):
    ag = object.__new__(_agent_cls())
    ag._time = time
    ag._id = sim_id
    ag.julian_date_start = jd0
    ag.propagate_event_queue = []
    return ag


def _event_row(kind, jd0, ts, te, a, frame="eci", mtype="spiral"):
    from resonaate.data.events import EventScope
    from resonaate.data.events.finite_burn import ScheduledFiniteBurnEvent
    from resonaate.data.events.finite_maneuver import ScheduledFiniteManeuverEvent

    common = dict(scope=EventScope.AGENT_PROPAGATION.value, scope_instance_id=7, start_time_jd=jd0 + ts / 86400, end_time_jd=jd0 + te / 86400, planned=False)
    if kind == "burn":
        return ScheduledFiniteBurnEvent(event_type="finite_burn", acc_vec_0=a[0], acc_vec_1=a[1], acc_vec_2=a[2], thrust_frame=frame, **common)
    return ScheduledFiniteManeuverEvent(event_type="finite_maneuver", maneuver_type=mtype, maneuver_mag=a[1], **common)


class _World:
    """Context manager installing every shadow of the symbolic run."""

    def __init__(self, ivp, g, ntw=None):
        self.ivp, self.g, self.ntw = ivp, g, ntw
        self.log = _EventLog()

    def __enter__(self):
        from resonaate.data.events import finite_burn as FB
        from resonaate.data.events import finite_maneuver as FM
        from resonaate.dynamics import celestial as CEL
        from resonaate.dynamics import special_perturbations as SP
        from resonaate.dynamics.integration_events import finite_thrust as FT

        g = self.g
        ft = dict(zeros=sym_zeros, EventStack=self.log)
        if self.ntw is not None:
            ft["ntw2eci"] = self.ntw
        self.cms = [
            shadow(CEL, solve_ivp=self.ivp, spacing=self.ivp.spacing, max=sym_max),
            shadow(SP, empty_like=_sym_empty_like, JulianDate=lambda x: x, julianDateToDatetime=lambda jd: None, ReductionParams=_Tok,
                   _getRotationMatrix=lambda jd, red: np.eye(3), nonSphericalAcceleration=lambda *args: g, Sun=_Tok, Earth=_Tok, norm=lambda v: SReal(1),
                   checkEarthCollision=lambda r: None),
            shadow(FT, **ft), shadow(FB, **_time_cuts(FB)), shadow(FM, **_time_cuts(FM)),
        ] + _closeness_shadows(_analysed_modules())
        for c in self.cms:
            c.__enter__()
        return self

    def __exit__(self, *a):
        for c in reversed(self.cms):
            c.__exit__(*a)
        return False


def _inputs_sym(kind):
    T0, dt, ts, te, jd0 = real("T0"), real("dt"), real("ts"), real("te"), real("jd0")
    if kind == "burn":
        a = reals("a", 3)
    else:
        a = np.array([SReal(0), real("a_1"), SReal(0)], dtype=object)  # spiral thrust: in-track magnitude only
    g = reals("g", 3)
    x0 = reals("x", 6)
    return T0, dt, ts, te, jd0, a, g, x0


def _bounds(T0, dt, ts, te):
    return [T0.t >= T_MIN, T0.t <= T_MAX, dt.t >= DT_MIN, dt.t <= DT_MAX, ts.t >= T_MIN, te.t - ts.t >= rv(BURN_MIN), te.t <= 2 * T_MAX]


def _run(kind, zs, zes, steps, retrig, calls, pins=()):
    """Two consecutive steps of one agent with one finite thrust event; returns (final state, inputs, stub)."""
    T0, dt, ts, te, jd0, a, g, x0 = _inputs_sym(kind)
    T1, T2 = T0 + dt, T0 + dt + dt
    assume(*_bounds(T0, dt, ts, te))
    for name, val in pins:
        assume({"T0": T0, "dt": dt, "ts": ts, "te": te}[name].t == rv(val))
    if zs is not None:
        assume(_zone(ts.t, zs, T0.t, T1.t, T2.t))
    assume(z3.Or(*[_zone(te.t, ze, T0.t, T1.t, T2.t) for ze in zes]))
    dyn = _dynamics()
    dyn.init_julian_date = jd0
    ivp = SolveIvpContract(steps=steps, max_calls=calls, max_retrigger=retrig)
    agent = _new_agent(T0, jd0)
    row = _event_row(kind, jd0, ts, te, a)
    from resonaate.agents.agent_base import Agent
    state = x0
    with _World(ivp, g, ntw=(lambda s, v: v) if kind == "maneuver" else None) as w:
        for _k in range(2):
            nxt = agent._time + dt
            if bool((ts <= nxt) & (te > agent._time)):  # the getRelevantEvents window of this step
                row.handleEvent(agent)
            Agent.prunePropagateEvents(agent)
            state = dyn.propagate(agent._time, nxt, state, station_keeping=[], scheduled_events=agent.propagate_event_queue)
            agent._time = nxt
    return state, ivp, len(w.log.records)


def _overlap(ts, te, lo, hi):
    a = z3.If(ts > lo, ts, lo)
    b = z3.If(te < hi, te, hi)
    return z3.If(b > a, b - a, z3.RealVal(0))


def _abs(x):
    return z3.If(x >= 0, x, -x)


def _near(x, y, tol):
    return z3.And(x - y <= tol, y - x <= tol)


def _grid_rel(m, x, T0, dt):
    """(k, offset) if x is within 1e-9 of the grid point T0 + k dt (k = 0, 1, 2), else None: lets the replay rebuild exact coincidences in doubles."""
    xv, t0, d = mval(m, x), mval(m, T0), mval(m, dt)
    for k in range(3):
        off = xv - (t0 + k * d)
        if abs(off) <= ETA:
            return [k, float(off)]
    return None


# ------------------------------------------------------------------------------------------------------------------------
# replay on the real code (real scipy)
# ------------------------------------------------------------------------------------------------------------------------
A_REPLAY = {"burn": [1.0e-5, -2.0e-5, 3.0e-5], "maneuver": [0.0, 1.0e-5, 0.0]}
X_GEO = [42164.0, 0.0, 0.0, 0.0, 3.0746, 0.0]
X_FAR = [4.0e5, 0.0, 0.0, 0.0, 0.9982, 0.0]  # distant circular orbit: RK45 accepts steps of an hour


def _times(d):
    """Concrete doubles of the model's times; coincidences with the step grid are rebuilt the way the simulation builds the grid
    (repeated addition of dt); offsets below the fpe_equals threshold become exact equality, larger ones stay at least one ulp."""
    T0, dt = float(d["T0"]), float(d["dt"])
    grid = [T0, T0 + dt, T0 + dt + dt]
    out = {}
    for key in ("ts", "te"):
        rel = d.get(key + "_rel")
        if rel:
            base, off = grid[rel[0]], rel[1]
            if abs(off) < RES_D:
                t = base
            else:
                t = base + off
                if t == base:
                    t = float(np.nextafter(base, np.inf if off > 0 else -np.inf))
        else:
            t = float(d[key])
        out[key] = t
    return T0, dt, out["ts"], out["te"]


def _real_run(d, with_event=True, steer=True, via_row=False):
    """Two real SpecialPerturbations.propagate calls (real scipy solve_ivp, real Agent.prunePropagateEvents), driver as in the symbolic run.

    Returns (final state, thrust-on seconds measured on the real run, info).  The duration is measured by WRAPPING (not replacing)
    scipy's solve_ivp: each real call contributes t[-1] - t0 when Celestial.finite_thrust (the state named in the property's anchors)
    is set during it - it is constant during a call by construction of Celestial.
    steer=True: the wrapper adds first_step = tf - t0 and the orbit is a distant one, so that the real RK45 takes the longest steps it
    accepts (one admissible behaviour of the integrator; which steps it takes is the stub's free choice). steer=False: RK45's own steps at GEO."""
    from resonaate.agents.agent_base import Agent
    from resonaate.dynamics import celestial as CEL
    from resonaate.dynamics.integration_events import finite_thrust as FT
    from resonaate.dynamics.integration_events.finite_thrust import ScheduledFiniteBurn, ScheduledFiniteManeuver, eciBurn, spiralThrust

    dyn = _dynamics()
    T0, dt, ts, te = _times(d)
    kind = d.get("kind", "burn")
    a = np.array(d.get("a", A_REPLAY[kind]), dtype=float)
    x = np.array(d.get("x0", X_FAR if steer else X_GEO), dtype=float)
    agent = _new_agent(T0, None)
    row = None
    if via_row:  # through the real event row and the real JulianDate (moves the times by the Julian-date rounding, ~4e-5 s)
        from resonaate.physics.time.stardate import JulianDate

        agent.julian_date_start = JulianDate(2458207.010416667)
        row = _event_row(kind, float(agent.julian_date_start), ts, te, a)
    on_time = [0.0]
    calls = []
    real_ivp = CEL.solve_ivp

    def spy(fun, t_span, y0, **kw):
        if steer:
            kw = dict(kw, first_step=float(t_span[1]) - float(t_span[0]))
        sol = real_ivp(fun, t_span, y0, **kw)
        on = dyn.finite_thrust is not None
        calls.append((float(t_span[0]), float(sol.t[-1]), on, len(sol.t) - 1))
        if on:
            on_time[0] += float(sol.t[-1]) - float(t_span[0])
        return sol

    log = _EventLog()
    shadows = [shadow(CEL, solve_ivp=spy)]
    if not os.environ.get("C15_REPLAY_RAY"):
        shadows.append(shadow(FT, EventStack=log))  # the Ray-backed event log only (starting Ray takes ~10 s per process)
    for s in shadows:
        s.__enter__()
    try:
        for _k in range(2):
            nxt = agent._time + dt
            if with_event and ts <= nxt and te > agent._time:
                if row is not None:
                    row.handleEvent(agent)
                elif kind == "burn":
                    agent.appendPropagateEvent(ScheduledFiniteBurn(ts, te, partial(eciBurn, acc_vector=a), 7))
                else:
                    agent.appendPropagateEvent(ScheduledFiniteManeuver(ts, te, partial(spiralThrust, magnitude=float(a[1])), 7))
            Agent.prunePropagateEvents(agent)
            x = dyn.propagate(agent._time, nxt, x, scheduled_events=agent.propagate_event_queue)
            agent._time = nxt
    finally:
        for s in reversed(shadows):
            s.__exit__(None, None, None)
    return x, on_time[0], {"ts": ts, "te": te, "T0": T0, "dt": dt, "T2": agent._time, "solve_ivp_calls(t0,t_end,thrust_on,steps)": calls[:12]}


def replay_o1(d):
    """Reproduced = the real run delivers a thrust that differs from a * |[t_s,t_e] n [T0,T2]| by more than the tolerance AND it is what the stub
    predicted (otherwise the contract is wrong: harness error, not a violation).

    Two measurements on the real run: (i) the seconds during which Celestial.finite_thrust was set (exact to a few ulp), (ii) the velocity
    difference to the coasting run projected on the configured acceleration, in seconds of thrust (distant orbit: gravity-gradient coupling < 2e-4
    relative).  When both agree, (i) is compared with the tight tolerance; when they disagree the thrust was not applied as configured (sign, slot,
    scale) and (ii) is compared with a coarse tolerance."""
    xe, on, info = _real_run(d, True, True)
    x0, _, _ = _real_run(d, False, True)
    _, on_nat, info_nat = _real_run(d, True, False)
    ts, te, T0, T2 = info["ts"], info["te"], info["T0"], info["T2"]
    want = max(0.0, min(te, T2) - max(ts, T0))
    kind = d.get("kind", "burn")
    a = np.array(d.get("a", A_REPLAY[kind]), dtype=float)
    dv = xe[3:] - x0[3:]
    dv_sec = float(np.dot(dv, a) / np.dot(a, a))  # maneuver: NTW = ECI axes at the replay's initial state (r along x, v along y)
    coarse = lambda x: 1e-3 * max(1.0, abs(x)) + 1e-4  # noqa: E731
    consistent = abs(dv_sec - on) <= coarse(on)
    measured = on if consistent else dv_sec
    thr = 0.5 * float(TOL_T) if consistent else coarse(want)  # the solver is asked for > TOL_T; half of it here so that double rounding of a borderline model cannot un-reproduce it
    err = measured - want
    detail = {"delivered_seconds_real": measured, "expected_seconds": want, "error_seconds": err, "thrust_on_seconds_real": on, "delta_v_seconds_real": dv_sec,
              "thrust_applied_as_configured": bool(consistent), "thrust_on_seconds_real_natural_rk45_steps_geo": on_nat, "acceleration": a.tolist(),
              "delta_v_real_minus_coast": dv.tolist(), "delta_v_expected": (a * want).tolist(), "times": info,
              "natural_run_calls": info_nat["solve_ivp_calls(t0,t_end,thrust_on,steps)"]}
    bad = abs(err) > thr
    if "predicted_seconds" in d:
        detail["predicted_seconds"] = d["predicted_seconds"]
        detail["prediction_matches_real_run"] = bool(abs(d["predicted_seconds"] - measured) <= (10 * float(TOL_T) if consistent else coarse(measured)))
        bad = bad and detail["prediction_matches_real_run"]
    return bad, detail


def replay_raises(d):
    """Reproduced = the real two-step run raises."""
    try:
        _real_run(d, True, True)
    except Exception as e:  # noqa: BLE001
        return True, {"raised": f"{type(e).__name__}: {e}"[:400]}
    return False, {"raised": None}


def replay_affine(d):
    """The velocity change caused by the thrust must be parallel to the configured acceleration (same duration for every component):
    real two-step run, burn [70, 100] s on a 60 s grid, generic acceleration vector, against the coasting run."""
    kind = d.get("kind", "burn")
    dd = {"kind": kind, "T0": 60.0, "dt": 60.0, "ts": 70.0, "te": 100.0}
    xe, on, info = _real_run(dd, True, True, via_row=True)
    x0, _, _ = _real_run(dd, False, True)
    a = np.array(A_REPLAY[kind])
    dv = xe[3:] - x0[3:]
    par = float(np.dot(dv, a) / np.dot(a, a))
    perp = float(np.linalg.norm(dv - par * a))
    bad = perp > 1e-3 * max(float(np.linalg.norm(dv)), 1e-12) or (on > 0 and abs(par) < 1e-3 * on)
    return bad, {"delta_v_real_minus_coast": dv.tolist(), "acceleration": a.tolist(), "parallel_seconds": par, "perpendicular_part": perp, "thrust_on_seconds_real": on}


def _real_on_times_guarded(ds, limit_s=120):
    """Thrust-on seconds of the real two-step run (RK45's own step selection) for each input, in ONE child process so that a stalled restart
    loop cannot hang the check; None on timeout."""
    import json
    import subprocess
    import sys

    code = ("import json, sys; import harness.c15 as H\nfor d in json.loads(sys.argv[1]):\n    x, on, info = H._real_run(d, True, False); print('ON', repr(on), flush=True)")
    try:
        r = subprocess.run([sys.executable, "-c", code, json.dumps(ds)], capture_output=True, text=True, timeout=limit_s)
    except subprocess.TimeoutExpired:
        return None
    out = [float(line[3:]) for line in r.stdout.splitlines() if line.startswith("ON ")]
    if len(out) != len(ds):
        raise RuntimeError(f"real run failed: {r.stderr[-500:]}")
    return out


def replay_hang(d, limit_s=25):
    """The real two-step run in a child process: reproduced = it does not come back (the restart loop of propagate() stalls)."""
    import json
    import subprocess
    import sys

    code = ("import json, sys; import harness.c15 as H; d = json.loads(sys.argv[1]); x, on, info = H._real_run(d, True, False); "
            "print('DONE', on)")
    try:
        r = subprocess.run([sys.executable, "-c", code, json.dumps(d)], capture_output=True, text=True, timeout=limit_s)
        return False, {"returned": True, "stdout": r.stdout[-200:], "stderr": r.stderr[-300:]}
    except subprocess.TimeoutExpired:
        return True, {"returned": False, "note": f"two real propagate() calls did not finish within {limit_s} s (normally < 1 s)"}


# ------------------------------------------------------------------------------------------------------------------------
# O1: delivered delta-v over two steps
# ------------------------------------------------------------------------------------------------------------------------
class _Vars:
    def __init__(self, kind):
        self.T0, self.dt, self.ts, self.te = z3.Real("T0"), z3.Real("dt"), z3.Real("ts"), z3.Real("te")
        self.a = [z3.Real(f"a_{c}") for c in range(3)] if kind == "burn" else [None, z3.Real("a_1"), None]
        self.g = [z3.Real(f"g_{c}") for c in range(3)]
        self.x = [z3.Real(f"x_{c}") for c in range(6)]
        self.Dur, self.Hsp = z3.Real("Dur"), z3.Real("Hsp")
        self.T1, self.T2 = self.T0 + self.dt, self.T0 + 2 * self.dt
        self.L = _overlap(self.ts, self.te, self.T0, self.T2)
        self.span = self.T2 - self.T0

    def bounds(self):
        return [self.T0 >= T_MIN, self.T0 <= T_MAX, self.dt >= DT_MIN, self.dt <= DT_MAX, self.ts >= T_MIN, self.te - self.ts >= rv(BURN_MIN), self.te <= 2 * T_MAX]


def _affine_parts(V, vt):
    """Per component c: (H_c, D_c) with  v_c - v0_c  =?=  g_c * H_c + a_c * D_c  (obtained by substituting unit vectors; the equality itself
    is then PROVED as a ring identity, and H_c, D_c - linear in the times - are what the arithmetic of the main query is about)."""
    syms = [s for s in V.a if s is not None] + V.g
    out = []
    for c in range(3):
        base = vt[c] - V.x[3 + c]

        def at(one):
            return z3.simplify(z3.substitute(base, *[(s, z3.RealVal(1 if s is one else 0)) for s in syms]))

        H = at(V.g[c])
        D = at(V.a[c]) if V.a[c] is not None else None
        out.append((base, H, D))
    return out


CONFIGS = {  # (allowed step counts per solve_ivp call, restart re-trigger chain bound, solve_ivp calls per path)
    "quick": [((2,), 0, 8)],
    "thorough": [((2,), 0, 8), ((1, 2), 0, 10), ((2,), 2, 12), ((3,), 1, 12), ((4,), 1, 12)],
}


def _cfg_tag(cfg):
    return f"n={'|'.join(map(str, cfg[0]))},r={cfg[1]}"


def _paths(rep, kind, zes, cfg, pins=()):
    """Explore; prove per path that the velocity change is  g * H + a * D  with H, D the same for all components; return the
    disjuncts  path condition & Dur == D & Hsp == H  (linear real arithmetic)."""
    steps, retrig, calls = cfg
    tag = _cfg_tag(cfg)
    V = _Vars(kind)

    def run():
        return _run(kind, None, zes, steps, retrig, calls, pins)

    res = explore(run, max_paths=8000, max_depth=500, branch_timeout_ms=10000)
    disj, n_on, n_bad = [], 0, 0
    for i, r in enumerate(res):
        if r.exc is not None:
            if isinstance(r.exc, ContractBudget):
                # the restart loop used up the stub's call budget: did it stall (a restart that does not start later than the one before)?
                t0s = [c["t0"].t for c in r.exc.log]
                progress = z3.And(*[t0s[k + 1] > t0s[k] for k in range(len(t0s) - 1)]) if len(t0s) > 1 else z3.BoolVal(True)
                okp = rep.prove(f"{kind}[{tag}]: restart-progress#{i}", progress, r.constraints, timeout_ms=60000, inputs=_inputs_fn(V, kind, with_pred=False, tag="hang"), replay=replay_hang,
                                sample="every restart of the integration inside propagate() begins strictly later than the previous one (the loop terminates)")
                if okp:
                    rep.undecided("budget", f"{r.exc}")
            else:
                import traceback

                tb = "".join(traceback.format_exception(r.exc))[-1200:]
                rep.note(f"{kind}[{tag}] path {i} raised: {tb[-400:]}")
                rep.prove(f"{kind}[{tag}]: no-exception#{i}", z3.BoolVal(False), r.constraints, timeout_ms=60000, inputs=_inputs_fn(V, kind, with_pred=False, tag="raises"), replay=replay_raises,
                          sample="the two propagation steps do not raise")
            n_bad += 1
            continue
        state, ivp, nrec = r.out
        vt = [(x.t if isinstance(x, SReal) else rv(x)) for x in (state[3 + c] for c in range(3))]
        parts = _affine_parts(V, vt)
        goals = []
        Hs, Ds = [], []
        for c, (base, H, D) in enumerate(parts):
            goals.append(base == V.g[c] * H + (V.a[c] * D if D is not None else 0))
            Hs.append(H)
            if D is not None:
                Ds.append(D)
        goals += [Hs[0] == h for h in Hs[1:]] + [Ds[0] == x for x in Ds[1:]]
        ok = rep.prove(f"{kind}[{tag}]: affine#{i}", z3.And(*goals), [], timeout_ms=20000, inputs=lambda m, kind=kind: {"kind": kind, "_replay": "affine"}, replay=replay_affine,
                       sample="velocity change returned by propagate() = g * H + a * D with H, D (linear in the times) common to all components: ring identity per path")
        if not ok:
            # the thrust is not applied as  + a * (duration): nothing below would mean anything
            rep.note(f"{kind}[{tag}]: path {i} is not of the form g*H + a*D; remaining checks of this configuration skipped")
            return V, None
        disj.append(z3.And(*(r.constraints + [V.Dur == Ds[0], V.Hsp == Hs[0]])))
        n_on += 1 if nrec else 0
    rep.note(f"{kind}[{tag}], t_e in {'/'.join(zes)}: paths={len(res)}, paths on which a thrust callback was requested={n_on}, unusable={n_bad}")
    return V, disj


def _regions(V):
    """Known findings, as predicates over the obligation's inputs and the delivered duration.

    F1 (overrun): the burn end lies strictly inside a propagation call in which the burn is on; the thrust then runs to the end of that
        call: delivered = overlap + (end of that call - t_e).
    F2 (skipped): the burn end coincides (fpe_equals) with the end of the propagation call in which the burn starts; a solver step that
        contains t_s and ends on t_e makes brentq return the end point, whose callback is `None`: nothing is delivered."""
    r = rv(RES_D)
    tol = rv(TOL_T)
    in0 = z3.And(V.te >= V.T0 + r, V.te <= V.T1 - r)
    in1 = z3.And(V.te >= V.T1 + r, V.te <= V.T2 - r)
    k_end = z3.If(in0, V.T1, V.T2)
    f1 = z3.And(z3.Or(in0, in1), _near(V.Dur, V.L + (k_end - V.te), tol), _near(V.Hsp, V.span, tol))
    at1 = z3.And(_abs(V.te - V.T1) < r, V.ts >= V.T0 + r)
    at2 = z3.And(_abs(V.te - V.T2) < r, V.ts >= V.T1 + r)
    f2 = z3.And(z3.Or(at1, at2), _near(V.Dur, z3.RealVal(0), tol), _near(V.Hsp, V.span, tol))
    return {FINDING_OVERRUN: f1, FINDING_SKIPPED: f2}


def _inputs_fn(V, kind, with_pred=True, tag="o1"):
    def inputs(m):
        d = {"_replay": tag, "kind": kind, "T0": mfloat(m, V.T0), "dt": mfloat(m, V.dt), "ts": mfloat(m, V.ts), "te": mfloat(m, V.te)}
        if with_pred:
            d.update({"predicted_seconds": mfloat(m, V.Dur), "expected_seconds": mfloat(m, V.L), "predicted_integration_span": mfloat(m, V.Hsp)})
        for key, var in (("ts", V.ts), ("te", V.te)):
            rel = _grid_rel(m, var, V.T0, V.dt)
            if rel:
                d[key + "_rel"] = rel
        return d

    return inputs


def o1(rep, kinds, zes, tier):
    """All burns whose END lies in one of the zones `zes` (start anywhere before it): every feasible path of two consecutive steps."""
    ok, pin = pin_scipy()
    if not ok:
        rep.error("scipy-pin", f"the solve_ivp contract was read from another scipy: {pin}")
        return
    for kind in kinds:
        for cfg in CONFIGS[tier]:
            _o1_cfg(rep, kind, zes, cfg)


def _o1_cfg(rep, kind, zes, cfg):
    V, disj = _paths(rep, kind, zes, cfg)
    pre = f"{kind}[{_cfg_tag(cfg)}]"
    if disj is None:
        return
    if not disj:
        rep.error(f"{pre}: reach", "no path")
        return
    ze_c = z3.Or(*[_zone(V.te, ze, V.T0, V.T1, V.T2) for ze in zes])
    base = V.bounds() + [ze_c, z3.Or(*disj)]
    # vacuity: every (start zone, end zone) class of the group is inhabited by a feasible path
    for ze in zes:
        for zs in ZONES[:ZONES.index(ze) + 1]:
            if zs == ze and zs.startswith("at"):
                continue
            rep.reachable(f"{pre}: start {zs} / end {ze}", base + [_zone(V.ts, zs, V.T0, V.T1, V.T2), _zone(V.te, ze, V.T0, V.T1, V.T2)])
    sample = (f"{kind}, t_e in zones {'/'.join(zes)}, t_s anywhere: velocity returned by two propagate() calls = v0 + g*(T2-T0) + a*|[t_s,t_e] n [T0,T2]| "
              f"(thrust duration within {float(TOL_T)} s)")
    tol = rv(TOL_T)
    goal = z3.And(_near(V.Dur, V.L, tol), _near(V.Hsp, V.span, tol))
    kw = dict(timeout_ms=120000, inputs=_inputs_fn(V, kind), replay=replay_o1, regions=_regions(V))
    # a readable special case first (60 s steps from t = 60 s, burn times on whole seconds), then gross violations (at least 1 s of thrust too
    # much / too little) over the whole class, then the tight tolerance
    nice = [V.T0 == 60, V.dt == 60, V.ts == z3.ToReal(z3.ToInt(V.ts)), V.te == z3.ToReal(z3.ToInt(V.te)), V.te - V.ts <= 30]
    rep.prove(f"{pre}: delivered[T0=dt=60s, whole seconds, burn<=30s]", goal, base + nice, sample=sample + " - special case 60 s grid, whole-second burn times, burns of at most 30 s", **kw)
    # short burns late in the scenario (seconds against days: any comparison of the code that scales with the absolute time is exercised here)
    late = [V.T0 >= LATE_T0, V.te - V.ts <= LATE_BURN]
    rep.reachable(f"{pre}: a burn of at most {LATE_BURN} s with T0 >= {LATE_T0} s", base + late)
    rep.prove(f"{pre}: delivered[T0>={LATE_T0}s, burn<={LATE_BURN}s]", goal, base + late, sample=sample + f" - burns of at most {LATE_BURN} s (down to {float(BURN_MIN)} s) at scenario times of at least {LATE_T0} s", **kw)
    rep.prove(f"{pre}: delivered-gross", z3.And(_near(V.Dur, V.L, z3.RealVal(1)), _near(V.Hsp, V.span, tol)), base, sample=sample, **kw)
    rep.prove(f"{pre}: delivered", goal, base, sample=sample, **kw)


# ------------------------------------------------------------------------------------------------------------------------
# O3: the contract allows what the real integrator does (differential validation of the stub on pinned inputs)
# ------------------------------------------------------------------------------------------------------------------------
PINNED = [  # (T0, dt, ts, te)
    (60.0, 60.0, 70.0, 100.0), (60.0, 60.0, 10.0, 200.0), (0.0 + 64.0, 60.0, 130.0, 150.5), (60.0, 60.0, 120.0, 180.0), (60.0, 60.0, 90.0, 120.0),
    (60.0, 60.0, 60.0, 120.0), (300.0, 300.0, 250.0, 910.0),
]


def o3_stubval(rep, tier):
    ons = _real_on_times_guarded([{"T0": T0, "dt": dt, "ts": ts, "te": te, "kind": "burn"} for (T0, dt, ts, te) in PINNED])
    if ons is None:
        rep.error("pinned", "the real two-step runs did not return within 120 s (normally < 1 s each)")
        return
    for j, (T0, dt, ts, te) in enumerate(PINNED):
        on = ons[j]
        pins = {"T0": T0, "dt": dt, "ts": ts, "te": te}
        V, disj = _paths(rep, "burn", ZONES, CONFIGS["quick"][0] if tier == "quick" else ((3,), 1, 12), pins=tuple(pins.items()))
        if disj is None:
            return
        if not disj:
            rep.error(f"pinned#{j}", "no path")
            continue
        cons = [z3.Real(k) == rv(v) for k, v in pins.items()] + [z3.Or(*disj)]
        rep.reachable(f"pinned#{j} T0={T0} dt={dt} burn=[{ts},{te}]: real thrust-on {on:.6f} s is a behaviour of the stub", cons + [_near(V.Dur, rv(on), rv(TOL_T))])


# ------------------------------------------------------------------------------------------------------------------------
# O2: the event rows produce the thrust they name; prunePropagateEvents keeps a burn exactly while it is not over
# ------------------------------------------------------------------------------------------------------------------------
def _ntw_independent(state, acc):
    r, v = np.array(state[:3], float), np.array(state[3:], float)
    t_hat = v / np.linalg.norm(v)
    w = np.cross(r, v)
    w_hat = w / np.linalg.norm(w)
    n_hat = np.cross(t_hat, w_hat)
    return n_hat * acc[0] + t_hat * acc[1] + w_hat * acc[2]


def replay_callables(d):
    """Real handleEvent (real JulianDate) -> real callable, against an independent NTW construction."""
    from resonaate.physics.time.stardate import JulianDate

    state = np.array(d["state"], float)
    acc = np.array(d["acc"], float)
    jd0 = JulianDate(2458207.010416667)
    ag = _new_agent(0.0, jd0)
    row = _event_row(d["kind"], float(jd0), d["ts"], d["te"], acc, frame=d.get("frame", "eci"), mtype=d.get("mtype", "spiral"))
    row.handleEvent(ag)
    ev = ag.propagate_event_queue[0]
    got = np.array(ev.thrust_func(state), float)
    if d["kind"] == "burn":
        want = acc if d.get("frame") == "eci" else _ntw_independent(state, acc)
    elif d.get("mtype") == "spiral":
        want = _ntw_independent(state, [0.0, acc[1], 0.0])
    else:
        want = _ntw_independent(state, [0.0, 0.0, acc[1] if state[2] >= 0 else -acc[1]])
    e1 = float(np.abs(got[:3] - want).max())
    e2 = float(np.abs(got[3:]).max())
    e3 = max(abs(float(ev.start_time) - d["ts"]), abs(float(ev.end_time) - d["te"]))
    sc = max(1e-30, float(np.abs(acc).max()))
    return (e1 > 1e-9 * sc or e2 > 1e-9 * sc or e3 > 1e-3 or ev.agent_id != 7), {"acceleration_error": e1, "velocity_slot": e2, "time_error_s(JD rounding ~4e-5)": e3, "agent_id": ev.agent_id}


def o2_callables(rep, tier):
    from resonaate.dynamics.integration_events import finite_thrust as FT

    cases = [("burn", "eci", None), ("burn", "ntw", None), ("maneuver", None, "spiral"), ("maneuver", None, "plane_change")]
    for kind, frame, mtype in cases:
        tag = f"{kind}/{frame or mtype}"

        def run(kind=kind, frame=frame, mtype=mtype):
            ts, te, jd0 = real("ts"), real("te"), real("jd0")
            acc = reals("a", 3)
            state = reals("x", 6)
            R = reals("R", 3, 3)

            def ntw(x_eci, x_ntw):  # cut of ntw2eci (C04): a rotation matrix that may depend on the state, applied to both halves
                assert x_eci is state or all(p is q for p, q in zip(x_eci, state))
                return np.concatenate((R.dot(x_ntw[:3]), R.dot(x_ntw[3:])))

            ag = _new_agent(real("now"), jd0)
            row = _event_row(kind, jd0, ts, te, acc, frame=frame or "eci", mtype=mtype or "spiral")
            with _World(SolveIvpContract(), reals("g", 3), ntw=ntw):
                row.handleEvent(ag)
                ev = ag.propagate_event_queue[0]
                out = ev.thrust_func(state)
            return ev, out, (ts, te, acc, state, R), len(ag.propagate_event_queue)

        res = explore(run, max_paths=8)
        for i, r in enumerate(res):
            if r.exc is not None:
                rep.error(f"{tag}: exception", repr(r.exc))
                continue
            ev, out, (ts, te, acc, state, R), nq = r.out
            if kind == "burn":
                cls_ok = type(ev) is FT.ScheduledFiniteBurn
                vec = acc
            else:
                cls_ok = type(ev) is FT.ScheduledFiniteManeuver
                mag = acc[1]
                vec = [SReal(0), mag, SReal(0)] if mtype == "spiral" else [SReal(0), SReal(0), SReal(z3.If(state[2].t >= 0, mag.t, -mag.t))]
            if frame == "eci":
                want = list(vec)
            else:
                want = list(R.dot(np.array(vec, dtype=object)))
            o = [x.t if isinstance(x, SReal) else rv(x) for x in out]
            goal = z3.And(z3.BoolVal(bool(cls_ok and nq == 1 and len(o) == 6)), *[o[c] == (want[c].t if isinstance(want[c], SReal) else rv(want[c])) for c in range(3)],
                          *[o[3 + c] == 0 for c in range(3)], ev.start_time.t == ts.t, ev.end_time.t == te.t, z3.BoolVal(ev.agent_id == 7))

            def inputs(m, kind=kind, frame=frame, mtype=mtype, acc=acc, state=state, ts=ts, te=te):
                st = [mfloat(m, x) for x in state]
                if abs(st[3]) + abs(st[4]) + abs(st[5]) < 1e-9 or np.linalg.norm(np.cross(st[:3], st[3:])) < 1e-9:
                    st = [7000.0, 100.0, st[2] if abs(st[2]) > 1e-9 else -50.0, 0.3, 7.4, 0.9]  # a state with a defined NTW frame, same sign of z
                t1, t2 = mfloat(m, ts), mfloat(m, te)
                if not (0 <= t1 < t2 <= 1e6):  # the callable obligations leave the times free: any interval will do
                    t1, t2 = 120.0, 300.5
                return {"kind": kind, "frame": frame, "mtype": mtype, "acc": [mfloat(m, x) for x in acc], "state": st, "ts": t1, "te": t2}

            rep.prove(f"{tag}#{i}", goal, r.constraints, inputs=inputs, replay=replay_callables,
                      sample=f"{tag}: handleEvent queues one {'ScheduledFiniteBurn' if kind == 'burn' else 'ScheduledFiniteManeuver'} over [(start_jd-jd0)*86400, (end_jd-jd0)*86400] "
                             "whose callable returns (frame rotation x configured vector, 0, 0, 0)")
            rep.reachable(f"{tag}#{i} reachable", r.constraints)
        if len(res) != (2 if mtype == "plane_change" else 1):
            rep.error(f"{tag}: paths", f"unexpected number of paths {len(res)}")


def replay_prune(d):
    from resonaate.agents.agent_base import Agent
    from resonaate.dynamics.integration_events.finite_thrust import ScheduledFiniteBurn, ScheduledFiniteManeuver, eciBurn, spiralThrust

    now, ts, te = d["now"], d["ts"], d["te"]
    ag = _new_agent(now, None)
    b = ScheduledFiniteBurn(ts, te, partial(eciBurn, acc_vector=np.array([1e-5, 0, 0])), 7)
    b2 = ScheduledFiniteBurn(ts, te, partial(eciBurn, acc_vector=np.array([1e-5, 0, 0])), 7)
    mv = ScheduledFiniteManeuver(ts, te, partial(spiralThrust, magnitude=1e-5), 7)
    ag.propagate_event_queue = [b, b2, mv]
    Agent.prunePropagateEvents(ag)
    kinds = [type(e).__name__ for e in ag.propagate_event_queue]
    both = ["ScheduledFiniteBurn", "ScheduledFiniteManeuver"]
    want = both if now < te - 1e-9 else ([] if now >= te else None)
    bad = kinds not in ([], both) or (want is not None and kinds != want)
    return bad, {"kept": kinds, "expected": want if want is not None else "[] or one copy of each"}


def o2_prune(rep, tier):
    from resonaate.agents.agent_base import Agent
    from resonaate.dynamics.integration_events import finite_thrust as FT

    def run():
        now, ts, te = real("now"), real("ts"), real("te")
        assume(ts.t >= 0, te.t > ts.t)
        acc = reals("a", 3)
        ag = _new_agent(now, None)
        b = FT.ScheduledFiniteBurn(ts, te, partial(FT.eciBurn, acc_vector=acc), 7)
        b2 = FT.ScheduledFiniteBurn(ts, te, partial(FT.eciBurn, acc_vector=acc), 7)  # delivered again by the next step's event query
        mv = FT.ScheduledFiniteManeuver(ts, te, partial(FT.spiralThrust, magnitude=acc[0]), 7)
        ag.propagate_event_queue = [b, b2, mv]
        Agent.prunePropagateEvents(ag)
        return [("burn" if e is b or e is b2 else "maneuver") for e in ag.propagate_event_queue]

    def run_shadowed():
        import contextlib

        with contextlib.ExitStack() as st:
            for cm in _closeness_shadows(_analysed_modules()):
                st.enter_context(cm)
            return run()

    res = explore(run_shadowed, max_paths=64)
    now, ts, te = z3.Real("now"), z3.Real("ts"), z3.Real("te")
    seen = set()
    inputs = lambda m: {"now": mfloat(m, now), "ts": mfloat(m, ts), "te": mfloat(m, te)}  # noqa: E731
    for i, r in enumerate(res):
        if r.exc is not None:
            rep.error("prune: exception", repr(r.exc))
            continue
        kept = r.out
        seen.add(tuple(kept))
        both = kept == ["burn", "maneuver"]
        none = kept == []
        goal = z3.And(z3.Implies(now < te - rv(ETA), z3.BoolVal(both)), z3.Implies(now >= te, z3.BoolVal(none)), z3.BoolVal(both or none))
        rep.prove(f"prune#{i}", goal, r.constraints, inputs=inputs, replay=replay_prune,
                  sample="prunePropagateEvents keeps one copy of each finite burn / maneuver while time < t_e and drops it once time >= t_e")
    if seen != {("burn", "maneuver"), ()}:
        rep.error("prune: reach", f"both outcomes must be reachable, saw {sorted(seen)}")


# ------------------------------------------------------------------------------------------------------------------------
# O4: TWO finite thrusts of the same agent in the event queue (non-overlapping, e1 + 1e-3 <= s2), both queue orders
# ------------------------------------------------------------------------------------------------------------------------
TKEYS = ("s1", "e1", "s2", "e2")
# queue mode -> (both events appended before the first step, second burn handed over before the first one)
QUEUE_MODES = {
    "chrono": (False, False),  # the pipeline's delivery windows, chronological inside a step: queue [A, B]
    "reversed": (True, True),  # both burns queued before the first step, later burn first: queue [B, A] throughout
    "chrono-prequeued": (True, False),  # both queued before the first step, [A, B]: a not-yet-started burn waits in the queue during call 1
    "reversed-windows": (False, True),  # the pipeline's delivery windows, later burn first inside a step
}
A_REPLAY2 = {"burn": ([1.0e-5, -2.0e-5, 3.0e-5], [2.0e-5, 1.0e-5, -1.0e-5]), "maneuver": ([0.0, 1.0e-5, 0.0], [0.0, 2.0e-5, 0.0])}
# classes: one set of zones (None = any zone) for each of s1, e1, s2, e2
TWO_CLASSES = {
    "one-call": [(("in0",), ("in0",), ("in0",), ("in0",)), (("in1",), ("in1",), ("in1",), ("in1",))],
    "one-per-call": [(("in0",), ("in0",), ("in1",), ("in1",))],
    "span-T1": [(("lt0", "in0"), ("in1",), ("in1",), ("in1", "gt2"))],
    "end-on-T1": [(("lt0", "in0"), ("at1",), ("in1",), ("in1", "gt2"))],
}
TWO_UNIVERSE = {f"e1-{z}": [(None, (z,), None, None)] for z in ZONES}  # thorough: every zone of every time, grouped by the zone of the first burn's end


def _tuples(spec):
    """The concrete (zs1, ze1, zs2, ze2) zone tuples of a class: times increase, and two times at least 1e-3 s apart are never in the same 1e-9 zone."""
    import itertools

    out = []
    for tup in itertools.product(*[(ZONES if s is None else s) for s in spec]):
        idx = [ZONES.index(z) for z in tup]
        if any(idx[k] > idx[k + 1] or (idx[k] == idx[k + 1] and tup[k].startswith("at")) for k in range(3)):
            continue
        out.append(tup)
    return out


def _zone_sets(terms, specs, T0, T1, T2):
    """z3: the four times lie in (the union over the class's specs of) the given zone sets."""
    alts = []
    for spec in specs:
        alts.append(z3.And(*[z3.Or(*[_zone(t, z, T0, T1, T2) for z in zs]) for t, zs in zip(terms, spec) if zs is not None] or [z3.BoolVal(True)]))
    return z3.Or(*alts)


def _sym_acc(kind, name):
    if kind == "burn":
        return reals(name, 3)
    return np.array([SReal(0), real(f"{name}_1"), SReal(0)], dtype=object)  # spiral thrust: in-track magnitude only


def _bounds2(T0, dt, s, e):
    c = [T0 >= T_MIN, T0 <= T_MAX, dt >= DT_MIN, dt <= DT_MAX, s[1] - e[0] >= rv(GAP_MIN)]
    for i in range(2):
        c += [s[i] >= T_MIN, e[i] - s[i] >= rv(BURN_MIN), e[i] <= 2 * T_MAX]
    return c


def _deliveries(mode, k, relevant):
    """Indices of the burns handed to the agent before propagation call k, in hand-over order (relevant(i): the getRelevantEvents window of burn i is open)."""
    prequeued, rev = QUEUE_MODES[mode]
    order = (1, 0) if rev else (0, 1)
    out = list(order) if (prequeued and k == 0) else []
    return out + [i for i in order if relevant(i)]


def _run2(kinds, mode, specs, steps, retrig, calls, pins=()):
    """Two consecutive steps of one agent with TWO finite thrust events; returns (final state, stub, number of event-log records)."""
    T0, dt, jd0 = real("T0"), real("dt"), real("jd0")
    s, e = [real("s1"), real("s2")], [real("e1"), real("e2")]
    acc = [_sym_acc(kinds[0], "a1"), _sym_acc(kinds[1], "a2")]
    g, x0 = reals("g", 3), reals("x", 6)
    T1, T2 = T0 + dt, T0 + dt + dt
    assume(*_bounds2(T0.t, dt.t, [v.t for v in s], [v.t for v in e]))
    for name, val in pins:
        assume({"T0": T0, "dt": dt, "s1": s[0], "e1": e[0], "s2": s[1], "e2": e[1]}[name].t == rv(val))
    assume(_zone_sets([s[0].t, e[0].t, s[1].t, e[1].t], specs, T0.t, T1.t, T2.t))
    dyn = _dynamics()
    dyn.init_julian_date = jd0
    ivp = SolveIvpContract(steps=steps, max_calls=calls, max_retrigger=retrig)
    agent = _new_agent(T0, jd0)
    rows = [_event_row(kinds[i], jd0, s[i], e[i], acc[i]) for i in range(2)]
    from resonaate.agents.agent_base import Agent
    state = x0
    with _World(ivp, g, ntw=(lambda st, v: v) if "maneuver" in kinds else None) as w:
        for k in range(2):
            nxt = agent._time + dt
            for i in _deliveries(mode, k, lambda i: bool((s[i] <= nxt) & (e[i] > agent._time))):
                rows[i].handleEvent(agent)
            Agent.prunePropagateEvents(agent)
            state = dyn.propagate(agent._time, nxt, state, station_keeping=[], scheduled_events=agent.propagate_event_queue)
            agent._time = nxt
    return state, ivp, len(w.log.records)


class _Vars2:
    def __init__(self, kinds):
        self.kinds = kinds
        self.T0, self.dt = z3.Real("T0"), z3.Real("dt")
        self.s, self.e = [z3.Real("s1"), z3.Real("s2")], [z3.Real("e1"), z3.Real("e2")]
        self.a = [[z3.Real(f"a{i + 1}_{c}") for c in range(3)] if kinds[i] == "burn" else [None, z3.Real(f"a{i + 1}_1"), None] for i in range(2)]
        self.g = [z3.Real(f"g_{c}") for c in range(3)]
        self.x = [z3.Real(f"x_{c}") for c in range(6)]
        self.Dur, self.Hsp = [z3.Real("Dur1"), z3.Real("Dur2")], z3.Real("Hsp")
        self.T1, self.T2 = self.T0 + self.dt, self.T0 + 2 * self.dt
        self.L = [_overlap(self.s[i], self.e[i], self.T0, self.T2) for i in range(2)]
        self.span = self.T2 - self.T0
        self.times = dict(zip(TKEYS, (self.s[0], self.e[0], self.s[1], self.e[1])))

    def bounds(self):
        return _bounds2(self.T0, self.dt, self.s, self.e)

    def zones(self, specs):
        return _zone_sets([self.times[k] for k in TKEYS], specs, self.T0, self.T1, self.T2)


def _affine_parts2(V, vt):
    """Per component c: (dv_c, H_c, [D1_c, D2_c]) with  dv_c =?= g_c H_c + a1_c D1_c + a2_c D2_c  (coefficients read off by substituting unit vectors;
    the equality is then PROVED as a ring identity per path)."""
    syms = [x for a in V.a for x in a if x is not None] + V.g
    out = []
    for c in range(3):
        base = vt[c] - V.x[3 + c]

        def at(one):
            return z3.simplify(z3.substitute(base, *[(x, z3.RealVal(1 if x is one else 0)) for x in syms]))

        out.append((base, at(V.g[c]), [at(V.a[i][c]) if V.a[i][c] is not None else None for i in range(2)]))
    return out


def _times_keys(d, keys):
    """Concrete doubles of the model's times (see _times)."""
    T0, dt = float(d["T0"]), float(d["dt"])
    grid = [T0, T0 + dt, T0 + dt + dt]
    out = {}
    for key in keys:
        rel = d.get(key + "_rel")
        if rel:
            base, off = grid[rel[0]], rel[1]
            if abs(off) < RES_D:
                t = base
            else:
                t = base + off
                if t == base:
                    t = float(np.nextafter(base, np.inf if off > 0 else -np.inf))
        else:
            t = float(d[key])
        out[key] = t
    return T0, dt, out


def _real_run2(d, with_event=True, steer=True):
    """Two real SpecialPerturbations.propagate calls with TWO finite thrusts of one agent (real scipy, real Agent.appendPropagateEvent / prunePropagateEvents),
    hand-over as in the symbolic run (a fresh, equal event object at every hand-over, as handleEvent makes them).

    Returns (final state, [thrust-on seconds with burn 1's callable in Celestial.finite_thrust, same for burn 2, seconds with any other callable], info)."""
    from resonaate.agents.agent_base import Agent
    from resonaate.dynamics import celestial as CEL
    from resonaate.dynamics.integration_events import finite_thrust as FT
    from resonaate.dynamics.integration_events.finite_thrust import ScheduledFiniteBurn, ScheduledFiniteManeuver, eciBurn, spiralThrust

    dyn = _dynamics()
    T0, dt, tt = _times_keys(d, TKEYS)
    s, e = [tt["s1"], tt["s2"]], [tt["e1"], tt["e2"]]
    kinds = d.get("kinds", ["burn", "burn"])
    mode = d.get("mode", "chrono")
    acc = [np.array(v, dtype=float) for v in d.get("acc", [A_REPLAY2[kinds[i]][i] for i in range(2)])]
    x = np.array(d.get("x0", X_FAR if steer else X_GEO), dtype=float)
    agent = _new_agent(T0, None)

    def make(i):
        if kinds[i] == "burn":
            return ScheduledFiniteBurn(s[i], e[i], partial(eciBurn, acc_vector=acc[i]), 7)
        return ScheduledFiniteManeuver(s[i], e[i], partial(spiralThrust, magnitude=float(acc[i][1])), 7)

    def which(ft):
        for i in range(2):
            if kinds[i] == "burn" and ft.func is eciBurn and np.array_equal(ft.keywords["acc_vector"], acc[i]):
                return i
            if kinds[i] == "maneuver" and ft.func is spiralThrust and ft.keywords["magnitude"] == float(acc[i][1]):
                return i
        return 2

    on = [0.0, 0.0, 0.0]
    calls = []
    real_ivp = CEL.solve_ivp

    def spy(fun, t_span, y0, **kw):
        if steer:
            kw = dict(kw, first_step=float(t_span[1]) - float(t_span[0]))
        sol = real_ivp(fun, t_span, y0, **kw)
        ft = dyn.finite_thrust
        w = None if ft is None else which(ft)
        calls.append((float(t_span[0]), float(sol.t[-1]), None if w is None else w + 1, len(sol.t) - 1))
        if w is not None:
            on[w] += float(sol.t[-1]) - float(t_span[0])
        return sol

    log = _EventLog()
    shadows = [shadow(CEL, solve_ivp=spy)]
    if not os.environ.get("C15_REPLAY_RAY"):
        shadows.append(shadow(FT, EventStack=log))
    for sh in shadows:
        sh.__enter__()
    queues = []
    try:
        for k in range(2):
            nxt = agent._time + dt
            if with_event:
                for i in _deliveries(mode, k, lambda i: s[i] <= nxt and e[i] > agent._time):
                    agent.appendPropagateEvent(make(i))
            Agent.prunePropagateEvents(agent)
            queues.append([[float(ev.start_time), float(ev.end_time)] for ev in agent.propagate_event_queue])
            x = dyn.propagate(agent._time, nxt, x, scheduled_events=agent.propagate_event_queue)
            agent._time = nxt
    finally:
        for sh in reversed(shadows):
            sh.__exit__(None, None, None)
    info = dict(tt, T0=T0, dt=dt, T2=agent._time, mode=mode, kinds=list(kinds), acc=[a.tolist() for a in acc])
    info["event queue passed to propagate() call 1 / call 2"] = queues
    info["solve_ivp_calls(t0,t_end,burn whose callable is in finite_thrust,steps)"] = calls[:16]
    return x, on, info


def replay_o4(d):
    """Reproduced = on the real two-step run some burn delivers a thrust that differs from a_i * |[s_i,e_i] n [T0,T2]| by more than the tolerance AND the
    real run does what the stub predicted (otherwise the contract is wrong: harness error, not a violation).

    Two measurements per burn: (i) seconds during which Celestial.finite_thrust held that burn's callable, (ii) the velocity difference to the coasting
    run resolved (least squares) along the two configured accelerations, in seconds of thrust.  As in replay_o1, (i) is compared with the tight
    tolerance when both agree, else (ii) with a coarse one."""
    xe, on, info = _real_run2(d, True, True)
    x0, _, _ = _real_run2(d, False, True)
    _, on_nat, info_nat = _real_run2(d, True, False)
    T0, T2 = info["T0"], info["T2"]
    want = [max(0.0, min(info[f"e{i}"], T2) - max(info[f"s{i}"], T0)) for i in (1, 2)]
    A = np.array(info["acc"], dtype=float).T  # 3 x 2
    dv = xe[3:] - x0[3:]
    dv_sec = np.linalg.lstsq(A, dv, rcond=None)[0]
    resid = float(np.linalg.norm(dv - A.dot(dv_sec)))
    coarse = lambda x: 1e-3 * max(1.0, abs(x)) + 1e-4  # noqa: E731
    # the gravity-gradient coupling of a long burn (relative ~2e-4 of ITS seconds) leaks into both least-squares components: the agreement of the two
    # measurements is judged relative to the total thrust-on time
    consistent = all(abs(dv_sec[i] - on[i]) <= coarse(sum(on)) for i in range(2)) and on[2] == 0.0 and resid <= 1e-3 * max(float(np.linalg.norm(dv)), 1e-12) + 1e-12
    measured = [on[i] if consistent else float(dv_sec[i]) for i in range(2)]
    err = [measured[i] - want[i] for i in range(2)]
    thr = [0.5 * float(TOL_T) if consistent else coarse(want[i]) for i in range(2)]
    detail = {"delivered_seconds_real": measured, "expected_seconds": want, "error_seconds": err, "thrust_on_seconds_real(burn1,burn2,other)": on,
              "delta_v_seconds_real": dv_sec.tolist(), "delta_v_residual_not_along_a1_a2": resid, "thrust_applied_as_configured": bool(consistent),
              "thrust_on_seconds_real_natural_rk45_steps_geo": on_nat, "delta_v_real_minus_coast": dv.tolist(), "delta_v_expected": A.dot(np.array(want)).tolist(),
              "times": info, "natural_run_calls": info_nat["solve_ivp_calls(t0,t_end,burn whose callable is in finite_thrust,steps)"]}
    bad = any(abs(err[i]) > thr[i] for i in range(2))
    if "predicted_seconds" in d:
        detail["predicted_seconds"] = d["predicted_seconds"]
        detail["prediction_matches_real_run"] = bool(all(abs(d["predicted_seconds"][i] - measured[i]) <= (10 * float(TOL_T) if consistent else coarse(measured[i])) for i in range(2)))
        bad = bad and detail["prediction_matches_real_run"]
    return bad, detail


def replay_raises2(d):
    try:
        _real_run2(d, True, True)
    except Exception as ex:  # noqa: BLE001
        return True, {"raised": f"{type(ex).__name__}: {ex}"[:400]}
    return False, {"raised": None}


def replay_hang2(d, limit_s=25):
    import json
    import subprocess
    import sys

    code = "import json, sys; import harness.c15 as H; d = json.loads(sys.argv[1]); x, on, info = H._real_run2(d, True, False); print('DONE', on)"
    try:
        r = subprocess.run([sys.executable, "-c", code, json.dumps(d)], capture_output=True, text=True, timeout=limit_s)
        return False, {"returned": True, "stdout": r.stdout[-200:], "stderr": r.stderr[-300:]}
    except subprocess.TimeoutExpired:
        return True, {"returned": False, "note": f"two real propagate() calls did not finish within {limit_s} s (normally < 1 s)"}


def replay_affine2(d):
    """The velocity change caused by the two thrusts must lie in the plane spanned by the two configured accelerations, with non-negative multiples:
    real two-step run, burns [65,75] and [90,100] s on a 60 s grid, against the coasting run."""
    kinds = d.get("kinds", ["burn", "burn"])
    dd = {"kinds": kinds, "mode": d.get("mode", "chrono"), "T0": 60.0, "dt": 60.0, "s1": 65.0, "e1": 75.0, "s2": 90.0, "e2": 100.0}
    xe, on, info = _real_run2(dd, True, True)
    x0, _, _ = _real_run2(dd, False, True)
    A = np.array(info["acc"], dtype=float).T
    dv = xe[3:] - x0[3:]
    sec = np.linalg.lstsq(A, dv, rcond=None)[0]
    resid = float(np.linalg.norm(dv - A.dot(sec)))
    bad = resid > 1e-3 * max(float(np.linalg.norm(dv)), 1e-12) or any(on[i] > 0 and abs(sec[i]) < 1e-3 * on[i] for i in range(2)) or on[2] > 0
    return bad, {"delta_v_real_minus_coast": dv.tolist(), "accelerations": info["acc"], "seconds_along_a1_a2": sec.tolist(), "part_outside_span": resid, "thrust_on_seconds_real": on}


def _inputs_fn2(V, mode, with_pred=True, tag="o4"):
    def inputs(m):
        d = {"_replay": tag, "kinds": list(V.kinds), "mode": mode, "T0": mfloat(m, V.T0), "dt": mfloat(m, V.dt)}
        for key, var in V.times.items():
            d[key] = mfloat(m, var)
            rel = _grid_rel(m, var, V.T0, V.dt)
            if rel:
                d[key + "_rel"] = rel
        if with_pred:
            d.update({"predicted_seconds": [mfloat(m, x) for x in V.Dur], "expected_seconds": [mfloat(m, x) for x in V.L], "predicted_integration_span": mfloat(m, V.Hsp)})
        return d

    return inputs


def _paths2(rep, kinds, mode, specs, cfg, pins=()):
    """Explore; prove per path that the velocity change is  g*H + a1*D1 + a2*D2  with H, D1, D2 the same for all components; return the disjuncts
    path condition & Dur1 == D1 & Dur2 == D2 & Hsp == H  (linear real arithmetic)."""
    steps, retrig, calls = cfg
    tag = f"{mode}[{_cfg_tag(cfg)}]"
    V = _Vars2(kinds)
    res = explore(lambda: _run2(kinds, mode, specs, steps, retrig, calls, pins), max_paths=8000, max_depth=900, branch_timeout_ms=10000)
    disj, n_on, n_bad = [], 0, 0
    for i, r in enumerate(res):
        if r.exc is not None:
            if isinstance(r.exc, ContractBudget):
                t0s = [c["t0"].t for c in r.exc.log]
                progress = z3.And(*[t0s[k + 1] > t0s[k] for k in range(len(t0s) - 1)]) if len(t0s) > 1 else z3.BoolVal(True)
                okp = rep.prove(f"{tag}: restart-progress#{i}", progress, r.constraints, timeout_ms=60000, inputs=_inputs_fn2(V, mode, with_pred=False, tag="hang2"), replay=replay_hang2,
                                sample="every restart of the integration inside propagate() begins strictly later than the previous one (the loop terminates)")
                if okp:
                    rep.undecided("budget", f"{r.exc}")
            else:
                import traceback

                tb = "".join(traceback.format_exception(r.exc))[-1200:]
                rep.note(f"{tag} path {i} raised: {tb[-400:]}")
                rep.prove(f"{tag}: no-exception#{i}", z3.BoolVal(False), r.constraints, timeout_ms=60000, inputs=_inputs_fn2(V, mode, with_pred=False, tag="raises2"), replay=replay_raises2,
                          sample="the two propagation steps do not raise")
            n_bad += 1
            continue
        state, ivp, nrec = r.out
        vt = [(x.t if isinstance(x, SReal) else rv(x)) for x in (state[3 + c] for c in range(3))]
        goals, Hs, Ds = [], [], ([], [])
        for c, (base, H, D) in enumerate(_affine_parts2(V, vt)):
            goals.append(base == V.g[c] * H + sum(V.a[j][c] * D[j] for j in range(2) if D[j] is not None))
            Hs.append(H)
            for j in range(2):
                if D[j] is not None:
                    Ds[j].append(D[j])
        goals += [Hs[0] == h for h in Hs[1:]] + [Ds[j][0] == x for j in range(2) for x in Ds[j][1:]]
        ok = rep.prove(f"{tag}: affine#{i}", z3.And(*goals), [], timeout_ms=20000, inputs=lambda m: {"kinds": list(kinds), "mode": mode, "_replay": "affine2"}, replay=replay_affine2,
                       sample="velocity change returned by propagate() = g*H + a1*D1 + a2*D2 with H, D1, D2 (linear in the times) common to all components: ring identity per path")
        if not ok:
            rep.note(f"{tag}: path {i} is not of the form g*H + a1*D1 + a2*D2; remaining checks of this configuration skipped")
            return V, None
        disj.append(z3.And(*(r.constraints + [V.Dur[0] == Ds[0][0], V.Dur[1] == Ds[1][0], V.Hsp == Hs[0]])))
        n_on += 1 if nrec else 0
    rep.note(f"{'+'.join(kinds)} {tag}: paths={len(res)}, paths on which a thrust callback was requested={n_on}, unusable={n_bad}")
    return V, disj


def _o4_cfg(rep, kinds, mode, specs, cfg):
    V, disj = _paths2(rep, kinds, mode, specs, cfg)
    pre = f"{'+'.join(kinds)} {mode}[{_cfg_tag(cfg)}]"
    if disj is None:
        return
    if not disj:
        rep.error(f"{pre}: reach", "no path")
        return
    base = V.bounds() + [V.zones(specs), z3.Or(*disj)]
    # vacuity: every zone tuple of the class is inhabited by a feasible path
    for spec in specs:
        for tup in _tuples(spec):
            rep.reachable(f"{pre}: s1 {tup[0]} / e1 {tup[1]} / s2 {tup[2]} / e2 {tup[3]}", base + [_zone(V.times[k], z, V.T0, V.T1, V.T2) for k, z in zip(TKEYS, tup)])
    sample = (f"{'+'.join(kinds)}, queue mode {mode}: velocity returned by two propagate() calls = v0 + g*(T2-T0) + a1*|[s1,e1] n [T0,T2]| + a2*|[s2,e2] n [T0,T2]| "
              f"(each thrust duration within {float(TOL_T)} s)")
    tol = rv(TOL_T)
    goal = z3.And(_near(V.Dur[0], V.L[0], tol), _near(V.Dur[1], V.L[1], tol), _near(V.Hsp, V.span, tol))
    kw = dict(timeout_ms=120000, inputs=_inputs_fn2(V, mode), replay=replay_o4)
    whole = lambda x: x == z3.ToReal(z3.ToInt(x))  # noqa: E731
    nice = [V.T0 == 60, V.dt == 60] + [whole(x) for x in V.times.values()] + [V.e[i] - V.s[i] <= 60 for i in range(2)]
    rep.prove(f"{pre}: delivered[T0=dt=60s, whole seconds, burns<=60s]", goal, base + nice, sample=sample + " - special case 60 s grid, whole-second burn times, burns of at most 60 s", **kw)
    rep.prove(f"{pre}: delivered-gross", z3.And(_near(V.Dur[0], V.L[0], z3.RealVal(1)), _near(V.Dur[1], V.L[1], z3.RealVal(1)), _near(V.Hsp, V.span, tol)), base, sample=sample, **kw)
    rep.prove(f"{pre}: delivered", goal, base, sample=sample, **kw)


CONFIGS2 = {  # integrator configurations of the two-burn runs: up to 5 integration segments per propagate() call
    "quick": [((2,), 0, 14)],
    "thorough": [((2,), 0, 14), ((1, 2), 0, 16), ((2,), 2, 20), ((3,), 1, 20)],
}


def o4(rep, kinds, mode, specs, cfgs):
    ok, pin = pin_scipy()
    if not ok:
        rep.error("scipy-pin", f"the solve_ivp contract was read from another scipy: {pin}")
        return
    for cfg in cfgs:
        _o4_cfg(rep, kinds, mode, specs, cfg)


PINNED2 = [  # (T0, dt, s1, e1, s2, e2)
    (60.0, 60.0, 65.0, 75.0, 90.0, 100.0), (60.0, 60.0, 90.0, 150.0, 160.0, 170.0), (60.0, 60.0, 70.0, 120.0, 130.0, 140.0), (60.0, 60.0, 70.0, 80.0, 130.0, 140.0),
]


def o3_stubval2(rep, tier):
    """Differential validation of the contract in the two-burn regime (several integration segments per call): the thrust-on seconds of the real run
    with RK45's own steps are a behaviour of the stub, for pinned inputs in both queue orders."""
    import json
    import subprocess
    import sys

    modes = ("chrono", "reversed") if tier == "quick" else tuple(QUEUE_MODES)
    ds = [dict(zip(("T0", "dt") + TKEYS, pin), mode=mode, kinds=["burn", "burn"]) for pin in PINNED2 for mode in modes]
    code = ("import json, sys; import harness.c15 as H\nfor d in json.loads(sys.argv[1]):\n    x, on, info = H._real_run2(d, True, False); print('ON', json.dumps(on), flush=True)")
    try:
        r = subprocess.run([sys.executable, "-c", code, json.dumps(ds)], capture_output=True, text=True, timeout=120)
    except subprocess.TimeoutExpired:
        rep.error("pinned", "the real two-step runs did not return within 120 s (normally < 1 s each)")
        return
    ons = [json.loads(line[3:]) for line in r.stdout.splitlines() if line.startswith("ON ")]
    if len(ons) != len(ds):
        rep.error("pinned", f"real run failed: {r.stderr[-500:]}")
        return
    cfg = CONFIGS2["quick"][0] if tier == "quick" else ((3,), 1, 20)
    for d, on in zip(ds, ons):
        pins = {k: d[k] for k in ("T0", "dt") + TKEYS}
        V, disj = _paths2(rep, ("burn", "burn"), d["mode"], [(None, None, None, None)], cfg, pins=tuple(pins.items()))
        label = f"pinned {d['mode']} T0={d['T0']} dt={d['dt']} burns=[{d['s1']},{d['e1']}],[{d['s2']},{d['e2']}]"
        if disj is None:
            return
        if not disj:
            rep.error(label, "no path")
            continue
        cons = [z3.Real(k) == rv(v) for k, v in pins.items()] + [z3.Or(*disj)]
        rep.reachable(f"{label}: real thrust-on ({on[0]:.6f}, {on[1]:.6f}) s is a behaviour of the stub",
                      cons + [_near(V.Dur[0], rv(on[0]), rv(TOL_T)), _near(V.Dur[1], rv(on[1]), rv(TOL_T)), z3.BoolVal(on[2] == 0.0)])


# ------------------------------------------------------------------------------------------------------------------------
# O5: history independence of the dynamics object: a call without scheduled events applies no thrust, whatever the previous call left behind
# ------------------------------------------------------------------------------------------------------------------------
HIST_VARIANTS = {"none": dict(station_keeping=None, scheduled_events=None), "empty": dict(station_keeping=[], scheduled_events=[]), "omitted": {}}
HIST_ZS, HIST_ZE = ("lt0", "at0", "in0"), ("in1", "at2", "gt2")  # the burn's window contains the end T1 of the first call


def _run_hist(variant, steps, calls):
    """Call 1 [T0,T1] with a finite burn that is still on at T1, then call 2 [T1,T2] WITHOUT scheduled events on the same dynamics object and,
    from the same state, on a fresh one."""
    T0, dt, ts, te, jd0, a, g, x0 = _inputs_sym("burn")
    T1, T2 = T0 + dt, T0 + dt + dt
    assume(*_bounds(T0, dt, ts, te))
    assume(z3.Or(*[_zone(ts.t, z, T0.t, T1.t, T2.t) for z in HIST_ZS]), z3.Or(*[_zone(te.t, z, T0.t, T1.t, T2.t) for z in HIST_ZE]))
    dyn, fresh = _dynamics(), _dynamics()
    dyn.init_julian_date = fresh.init_julian_date = jd0
    ivp = SolveIvpContract(steps=steps, max_calls=calls, max_retrigger=0)
    agent = _new_agent(T0, jd0)
    row = _event_row("burn", jd0, ts, te, a)
    from resonaate.agents.agent_base import Agent
    kw = HIST_VARIANTS[variant]
    with _World(ivp, g):
        if bool((ts <= T1) & (te > T0)):
            row.handleEvent(agent)
        Agent.prunePropagateEvents(agent)
        st1 = dyn.propagate(T0, T1, x0, station_keeping=[], scheduled_events=agent.propagate_event_queue)
        left_on = dyn.finite_thrust is not None  # reachability guard only
        st2 = dyn.propagate(T1, T2, np.array(list(st1), dtype=object), **kw)
        st2f = fresh.propagate(T1, T2, np.array(list(st1), dtype=object), **kw)
    return st1, st2, st2f, left_on


def _real_hist(d, steer=False):
    from resonaate.agents.agent_base import Agent
    from resonaate.dynamics import celestial as CEL
    from resonaate.dynamics.integration_events import finite_thrust as FT
    from resonaate.dynamics.integration_events.finite_thrust import ScheduledFiniteBurn, eciBurn

    T0, dt, ts, te = _times(d)
    a = np.array(d.get("a", A_REPLAY["burn"]), dtype=float)
    x = np.array(d.get("x0", X_FAR if steer else X_GEO), dtype=float)
    kw = HIST_VARIANTS[d.get("variant", "none")]
    dyn, fresh = _dynamics(), _dynamics()
    agent = _new_agent(T0, None)
    on2 = [0.0]
    phase = [1]
    real_ivp = CEL.solve_ivp

    def spy(fun, t_span, y0, **k):
        if steer:
            k = dict(k, first_step=float(t_span[1]) - float(t_span[0]))
        sol = real_ivp(fun, t_span, y0, **k)
        if phase[0] == 2 and dyn.finite_thrust is not None:
            on2[0] += float(sol.t[-1]) - float(t_span[0])
        return sol

    shadows = [shadow(CEL, solve_ivp=spy)]
    if not os.environ.get("C15_REPLAY_RAY"):
        shadows.append(shadow(FT, EventStack=_EventLog()))
    for sh in shadows:
        sh.__enter__()
    try:
        if ts <= T0 + dt and te > T0:
            agent.appendPropagateEvent(ScheduledFiniteBurn(ts, te, partial(eciBurn, acc_vector=a), 7))
        Agent.prunePropagateEvents(agent)
        x1 = dyn.propagate(T0, T0 + dt, x, scheduled_events=agent.propagate_event_queue)
        left_on = dyn.finite_thrust is not None
        phase[0] = 2
        x2 = dyn.propagate(T0 + dt, T0 + dt + dt, x1.copy(), **kw)
        phase[0] = 3
        x2f = fresh.propagate(T0 + dt, T0 + dt + dt, x1.copy(), **kw)
    finally:
        for sh in reversed(shadows):
            sh.__exit__(None, None, None)
    return x1, x2, x2f, on2[0], left_on, {"ts": ts, "te": te, "T0": T0, "dt": dt}


def replay_hist(d):
    """Reproduced = on the real code the event-free second call on the used dynamics object differs from the same call on a fresh object (or had a
    thrust callable set)."""
    x1, x2, x2f, on2, left_on, info = _real_hist(d)
    diff = np.abs(x2 - x2f)
    a = np.array(d.get("a", A_REPLAY["burn"]), dtype=float)
    dv_sec = float(np.dot(x2[3:] - x2f[3:], a) / np.dot(a, a))
    bad = on2 > 0 or float(diff[:3].max()) > 1e-9 or float(diff[3:].max()) > 1e-12
    return bad, {"thrust_on_seconds_in_event_free_call": on2, "position_difference_to_fresh_object_km": float(np.linalg.norm(diff[:3])),
                 "velocity_difference_to_fresh_object_in_seconds_of_thrust": dv_sec, "finite_thrust_left_set_by_call_1": bool(left_on),
                 "variant": d.get("variant", "none"), "times": info}


def o5_history(rep, tier):
    ok, pin = pin_scipy()
    if not ok:
        rep.error("scipy-pin", f"the solve_ivp contract was read from another scipy: {pin}")
        return
    cfgs = [((2,), 0, 10), ((1,), 0, 10)] + ([((1, 2), 0, 12), ((3,), 0, 12)] if tier == "thorough" else [])
    V = _Vars("burn")
    H2, H2f = z3.Real("H2"), z3.Real("H2f")
    syms = V.a + V.g

    def coeff(base, one):
        return z3.simplify(z3.substitute(base, *[(x, z3.RealVal(1 if x is one else 0)) for x in syms]))

    for variant in HIST_VARIANTS:
        for cfg in cfgs:
            steps, retrig, calls = cfg
            pre = f"events={variant}[{_cfg_tag(cfg)}]"

            def inputs(m, variant=variant):
                d = {"_replay": "hist", "variant": variant, "kind": "burn", "T0": mfloat(m, V.T0), "dt": mfloat(m, V.dt), "ts": mfloat(m, V.ts), "te": mfloat(m, V.te)}
                for key, var in (("ts", V.ts), ("te", V.te)):
                    rel = _grid_rel(m, var, V.T0, V.dt)
                    if rel:
                        d[key + "_rel"] = rel
                return d

            res = explore(lambda: _run_hist(variant, steps, calls), max_paths=2000, max_depth=500, branch_timeout_ms=10000)
            disj, n_on = [], 0
            for i, r in enumerate(res):
                if r.exc is not None:
                    rep.note(f"{pre} path {i} raised: {r.exc!r}"[:400])
                    if isinstance(r.exc, ContractBudget):
                        rep.undecided(f"{pre}: budget#{i}", f"{r.exc}")
                    else:
                        rep.prove(f"{pre}: no-exception#{i}", z3.BoolVal(False), r.constraints, timeout_ms=60000, inputs=inputs,
                                  replay=lambda d: _raises(lambda: _real_hist(d)), sample="call with burn, then event-free call: no exception")
                    continue
                st1, st2, st2f, left_on = r.out
                tm = lambda x: x.t if isinstance(x, SReal) else rv(x)  # noqa: E731
                goals, hs, hfs = [], [], []
                for c in range(3):
                    b2, b2f = tm(st2[3 + c]) - tm(st1[3 + c]), tm(st2f[3 + c]) - tm(st1[3 + c])
                    h, hf = coeff(b2, V.g[c]), coeff(b2f, V.g[c])
                    goals += [b2 == V.g[c] * h, b2f == V.g[c] * hf]
                    hs.append(h)
                    hfs.append(hf)
                goals += [hs[0] == h for h in hs[1:]] + [hfs[0] == h for h in hfs[1:]]
                # pure ring identities are proved without hypotheses (fast); if one fails, the counterexample is taken inside the path's bounds so that it can be replayed
                from symx.core import refute

                ident = z3.And(*goals)
                ok1 = rep.prove(f"{pre}: no-thrust#{i}", ident, [] if refute(ident, [], 20000).status == "unsat" else r.constraints, timeout_ms=20000, inputs=inputs, replay=replay_hist,
                                sample="velocity change of the event-free call = g * H on the used dynamics object and on a fresh one (no multiple of the burn's acceleration): ring identity per path")
                if steps == (1,):
                    same = z3.And(*[tm(st2[c]) == tm(st2f[c]) for c in range(6)])
                    rep.prove(f"{pre}: equals-fresh-object#{i}", same, [] if refute(same, [], 20000).status == "unsat" else r.constraints, timeout_ms=20000, inputs=inputs, replay=replay_hist,
                              sample="full state returned by the event-free call on the used dynamics object = the same call on a fresh object (one integrator step per call: identical integrator choices)")
                if ok1:
                    disj.append(z3.And(*(r.constraints + [H2 == hs[0], H2f == hfs[0]])))
                n_on += 1 if left_on else 0
            rep.note(f"{pre}: paths={len(res)}, paths on which call 1 left Celestial.finite_thrust set={n_on}")
            if not disj:
                if res and all(r.exc is None for r in res):
                    rep.note(f"{pre}: the event-free call applies a thrust on every path; the span check is skipped")
                else:
                    rep.error(f"{pre}: reach", "no usable path")
                continue
            if n_on == 0:
                rep.error(f"{pre}: reach-left-on", "no path on which the first call ended with the thrust on: the obligation would be vacuous")
            zc = [z3.Or(*[_zone(V.ts, z, V.T0, V.T1, V.T2) for z in HIST_ZS]), z3.Or(*[_zone(V.te, z, V.T0, V.T1, V.T2) for z in HIST_ZE])]
            base = V.bounds() + zc + [z3.Or(*disj)]
            for zs in HIST_ZS:
                for ze in HIST_ZE:
                    rep.reachable(f"{pre}: start {zs} / end {ze}", base + [_zone(V.ts, zs, V.T0, V.T1, V.T2), _zone(V.te, ze, V.T0, V.T1, V.T2)])
            tol = rv(TOL_T)
            rep.prove(f"{pre}: integrated-span", z3.And(_near(H2, V.dt, tol), _near(H2f, V.dt, tol)), base, timeout_ms=60000, inputs=inputs, replay=replay_hist,
                      sample="the event-free call integrates the natural acceleration over T2 - T1 on both objects")


def _raises(fn):
    try:
        fn()
    except Exception as ex:  # noqa: BLE001
        return True, {"raised": f"{type(ex).__name__}: {ex}"[:400]}
    return False, {"raised": None}


# ------------------------------------------------------------------------------------------------------------------------
def replay_dispatch(d):
    """`./check C15 --replay <file>`: the replay that belongs to the item that produced the inputs."""
    return {"o1": replay_o1, "affine": replay_affine, "hang": replay_hang, "raises": replay_raises,
            "o4": replay_o4, "affine2": replay_affine2, "hang2": replay_hang2, "raises2": replay_raises2, "hist": replay_hist}[d.get("_replay", "o1")](d)


GROUPS = {"inside": ("in0", "in1"), "boundary": ("at0", "at1", "at2"), "outside": ("lt0", "gt2")}
REPLAYS = {"O2-callables": replay_callables, "O2-prune": replay_prune, "O3-stub-validation": replay_dispatch}
REPLAYS.update({f"O1-{kind}-end-{gname}": replay_dispatch for gname in GROUPS for kind in ("burn", "maneuver")})


def _two_burn_obligations(tier):
    """(name, kinds, mode, class specs, integrator configurations, description)"""
    out = []
    for cname, specs in TWO_CLASSES.items():
        for mode in ("chrono", "reversed"):
            out.append((f"O4-two-{cname}-{mode}", ("burn", "burn"), mode, specs, CONFIGS2[tier]))
    if tier == "thorough":
        for cname, specs in TWO_CLASSES.items():
            for mode in ("chrono-prequeued", "reversed-windows"):
                out.append((f"O4-two-{cname}-{mode}", ("burn", "burn"), mode, specs, CONFIGS2["quick"]))
            for kinds in (("burn", "maneuver"), ("maneuver", "burn")):
                for mode in ("chrono", "reversed"):
                    out.append((f"O4-two-{cname}-{mode}-{kinds[0]}+{kinds[1]}", kinds, mode, specs, CONFIGS2["quick"]))
        for cname, specs in TWO_UNIVERSE.items():
            for mode in QUEUE_MODES:
                out.append((f"O4-two-all-{cname}-{mode}", ("burn", "burn"), mode, specs, CONFIGS2["quick"]))
    return out


REPLAYS.update({t[0]: replay_dispatch for t in _two_burn_obligations("thorough")})
REPLAYS["O5-history-independence"] = REPLAYS["O3-stub-validation-two"] = replay_dispatch


def obligations(tier):
    obs = []
    for gname, zes in GROUPS.items():
        for kind in ("burn", "maneuver"):
            name = f"O1-{kind}-end-{gname}"
            obs.append(Ob(name, (lambda kind, zes: lambda rep: o1(rep, (kind,), zes, tier))(kind, zes),
                          f"finite {kind}, burn end {gname} (zones {'/'.join(zes)}), burn start anywhere before it: delivered delta-v over two consecutive propagation steps",
                          300 if tier == "quick" else 900))
    obs.append(Ob("O2-callables", lambda rep: o2_callables(rep, tier), "both frames and both maneuver types produce the event class, interval and acceleration they name", 120))
    obs.append(Ob("O2-prune", lambda rep: o2_prune(rep, tier), "prunePropagateEvents keeps a finite thrust while time < t_e (one copy) and drops it after", 120))
    obs.append(Ob("O3-stub-validation", lambda rep: o3_stubval(rep, tier), "the real RK45 run's thrust-on time on pinned inputs is one of the behaviours the solve_ivp contract allows", 300))
    obs.append(Ob("O3-stub-validation-two", lambda rep: o3_stubval2(rep, tier), "two burns: the real RK45 run's thrust-on times on pinned inputs (both queue orders) are behaviours the solve_ivp contract allows", 300))
    obs.append(Ob("O5-history-independence", lambda rep: o5_history(rep, tier),
                  "after a propagate() call that ended with a finite thrust on, a call WITHOUT scheduled events (None / [] / omitted) on the same dynamics object applies no thrust "
                  "and returns what a fresh object returns", 300 if tier == "quick" else 900))
    for name, kinds, mode, specs, cfgs in _two_burn_obligations(tier):
        zdesc = " or ".join("(" + ", ".join(f"{k} in {'/'.join(zs) if zs else 'any zone'}" for k, zs in zip(TKEYS, spec)) + ")" for spec in specs)
        obs.append(Ob(name, (lambda kinds, mode, specs, cfgs: lambda rep: o4(rep, kinds, mode, specs, cfgs))(kinds, mode, specs, cfgs),
                      f"two finite thrusts ({'+'.join(kinds)}) of one agent, e1 + 1e-3 <= s2, queue mode {mode}, {zdesc}: each burn's delivered delta-v over two consecutive propagation steps",
                      300 if tier == "quick" else 900))
    return obs
