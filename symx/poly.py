"""Polynomial identities under polynomial equality hypotheses, decided by the
solver in *linear* real arithmetic (degree-bounded linearisation).

z3's nlsat proves pure ring identities in milliseconds but stalls as soon as
polynomial equalities (orthogonality, c^2+s^2=1, contracts r*r = x) are given as
hypotheses.  Here every monomial becomes a solver variable; each hypothesis
h = 0 is multiplied by the monomials q that make it applicable to the goal
(q*h = 0 is a consequence of h = 0), which yields linear equations over the
monomial variables; the query `equations and goal != 0` is then decided by
z3's simplex.  unsat => the identity holds for all real values satisfying
the hypotheses (sound: the real monomial values satisfy every equation).
sat/unknown => inconclusive (never reported as a violation by itself).
"""
from __future__ import annotations

import time
from fractions import Fraction

import z3

from .core import STATS, Verdict


class NotPolynomial(Exception):
    pass


def _mono_mul(a, b):
    if not a:
        return b
    if not b:
        return a
    d = dict(a)
    for v, e in b:
        d[v] = d.get(v, 0) + e
    return tuple(sorted(d.items()))


def _mono_div(M, m):
    """M / m if m divides M else None."""
    d = dict(M)
    for v, e in m:
        if d.get(v, 0) < e:
            return None
        d[v] -= e
        if d[v] == 0:
            del d[v]
    return tuple(sorted(d.items()))


def p_add(p, q, c=Fraction(1)):
    r = dict(p)
    for m, k in q.items():
        v = r.get(m, 0) + c * k
        if v == 0:
            r.pop(m, None)
        else:
            r[m] = v
    return r


def p_mul(p, q):
    r = {}
    for m1, k1 in p.items():
        for m2, k2 in q.items():
            m = _mono_mul(m1, m2)
            v = r.get(m, 0) + k1 * k2
            if v == 0:
                r.pop(m, None)
            else:
                r[m] = v
    return r


def p_scale(p, c):
    return {m: k * c for m, k in p.items()} if c != 0 else {}


class Expander:
    """z3 Real term -> polynomial {monomial: Fraction}; monomial = tuple of (var name, exponent)."""

    def __init__(self):
        self.memo = {}
        self.keep = []

    def poly(self, t):
        i = t.get_id()
        if i in self.memo:
            return self.memo[i]
        self.keep.append(t)
        r = self._poly(t)
        self.memo[i] = r
        return r

    def _poly(self, t):
        if z3.is_rational_value(t):
            f = Fraction(t.numerator_as_long(), t.denominator_as_long())
            return {(): f} if f != 0 else {}
        if z3.is_int_value(t):
            return {(): Fraction(t.as_long())} if t.as_long() != 0 else {}
        if z3.is_algebraic_value(t):
            raise NotPolynomial("algebraic constant")
        if not z3.is_app(t):
            raise NotPolynomial(str(t)[:60])
        k = t.decl().kind()
        ch = t.children()
        if k == z3.Z3_OP_UNINTERPRETED and not ch:
            return {((str(t), 1),): Fraction(1)}
        if k == z3.Z3_OP_ADD:
            r = {}
            for c in ch:
                r = p_add(r, self.poly(c))
            return r
        if k == z3.Z3_OP_SUB:
            r = self.poly(ch[0])
            for c in ch[1:]:
                r = p_add(r, self.poly(c), Fraction(-1))
            return r
        if k == z3.Z3_OP_UMINUS:
            return p_scale(self.poly(ch[0]), Fraction(-1))
        if k == z3.Z3_OP_MUL:
            r = {(): Fraction(1)}
            for c in ch:
                r = p_mul(r, self.poly(c))
            return r
        if k == z3.Z3_OP_DIV:
            den = self.poly(ch[1])
            if list(den.keys()) == [()]:
                return p_scale(self.poly(ch[0]), 1 / den[()])
            raise NotPolynomial("division by a non-constant")
        if k == z3.Z3_OP_POWER:
            e = self.poly(ch[1])
            if list(e.keys()) == [()] and e[()].denominator == 1 and e[()] >= 0:
                r = {(): Fraction(1)}
                b = self.poly(ch[0])
                for _ in range(int(e[()])):
                    r = p_mul(r, b)
                return r
            raise NotPolynomial("power")
        if k == z3.Z3_OP_TO_REAL:
            return self.poly(ch[0])
        raise NotPolynomial(f"{t.decl().name()}: {str(t)[:60]}")


def eq_to_poly(ex, c):
    """z3 equality a == b  ->  polynomial a - b; conjunctions -> list."""
    if z3.is_and(c):
        out = []
        for ch in c.children():
            out += eq_to_poly(ex, ch)
        return out
    if z3.is_eq(c):
        a, b = c.children()
        if a.sort() == z3.BoolSort():
            raise NotPolynomial("boolean equality")
        return [p_add(ex.poly(a), ex.poly(b), Fraction(-1))]
    raise NotPolynomial(f"not an equality: {str(c)[:60]}")


def prove_linearized(goals, hyps, rounds=3, timeout_ms=60000, max_products=60000, extra_multipliers=(), need=None):
    """goals, hyps: z3 equalities (or conjunctions of equalities) over Real terms.
    Returns Verdict('unsat') when every goal follows from the hypotheses by the
    degree-bounded linearisation, else 'unknown'."""
    t0 = time.time()
    ex = Expander()
    G, H = [], []
    for g in goals:
        G += eq_to_poly(ex, g)
    for h in hyps:
        try:
            H += eq_to_poly(ex, h)
        except NotPolynomial:
            continue  # hypotheses that are not polynomial equalities are simply not used (sound)
    G = [g for g in G if g]
    if not G:
        STATS.queries += 1
        return Verdict("unsat", None, time.time() - t0, "goal is syntactically zero after expansion")
    H = [h for h in H if h]
    S = set()
    for g in G:
        S.update(g.keys())
    products = {}
    # dedupe hypotheses
    seenh, H2 = set(), []
    for h in H:
        key = tuple(sorted(h.items()))
        nkey = tuple(sorted((m, -k) for m, k in h.items()))
        if key in seenh or nkey in seenh:
            continue
        seenh.add(key)
        H2.append(h)
    H = H2

    def deg(m):
        return sum(e for _v, e in m)

    htop = []
    for h in H:
        D = max(deg(m) for m in h)
        htop.append([m for m in h if deg(m) == D])
    tried = set()
    for _ in range(rounds):
        new = set()
        Slist = list(S)
        for hi, h in enumerate(H):
            tops = htop[hi]
            for M in Slist:
                for m in tops:
                    q = _mono_div(M, m)
                    if q is None:
                        continue
                    key = (hi, q)
                    if key in products or key in tried:
                        continue
                    # guided instance: every top-degree monomial of q*h must already be present
                    present = sum(1 for t in tops if _mono_mul(q, t) in S)
                    if present >= (len(tops) if need is None else min(need, len(tops))):
                        pr = p_mul({q: Fraction(1)}, h)
                        products[key] = pr
                        for mm in pr:
                            if mm not in S:
                                new.add(mm)
                    if len(products) > max_products:
                        break
        if not new:
            break
        S.update(new)
    for q in extra_multipliers:
        for hi, h in enumerate(H):
            products[(hi, q)] = p_mul({q: Fraction(1)}, h)
    # linear system over monomial variables
    mv = {}

    def var(m):
        if m == ():
            return z3.RealVal(1)
        if m not in mv:
            mv[m] = z3.Real("m!" + "*".join(f"{v}^{e}" for v, e in m))
        return mv[m]

    def lin(p):
        return z3.Sum([z3.RealVal(f"{k.numerator}/{k.denominator}") * var(m) for m, k in p.items()]) if p else z3.RealVal(0)

    s = z3.SolverFor("QF_LRA")
    s.set("timeout", int(timeout_ms))
    for pr in products.values():
        s.add(lin(pr) == 0)
    s.add(z3.Or(*[lin(g) != 0 for g in G]))
    r = s.check()
    dt = time.time() - t0
    STATS.queries += 1
    STATS.solver_s += dt
    info = f"linearised: {len(G)} goal polys, {len(H)} hypotheses, {len(products)} products, {len(mv)} monomials"
    if str(r) == "unsat":
        return Verdict("unsat", None, dt, info)
    STATS.unknown += 1
    return Verdict("unknown", None, dt, info + f" -> {r}")


def prove_linearized_auto(goals, hyps, rounds=6, timeout_ms=60000):
    """Escalate the instance-generation filter: strict (all leading monomials present), then 2, then 1."""
    t0 = time.time()
    last = None
    for need, cap in ((None, 60000), (2, 60000), (1, 20000)):
        v = prove_linearized(goals, hyps, rounds=rounds, timeout_ms=timeout_ms, need=need, max_products=cap)
        last = v
        if v.status == "unsat":
            break
        if time.time() - t0 > timeout_ms / 1000.0:
            break
    last.secs = time.time() - t0
    return last
