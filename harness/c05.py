"""C05 - calendar, Julian-date and scenario times agree; requested durations are honoured."""
from __future__ import annotations

import datetime as _dt
import types
from fractions import Fraction

import z3

from symx import ext_c05 as X
from symx import fp
from symx.core import PathAbort, assume, cur, explore, integer, mval, rv, solve
from symx.dtmodel import SDateTime, STimeDelta
from symx.runner import Ob
from symx.stubs import shadow
from symx.timeenv import time_env

ID = "C05"
TECHNIQUE = ("the real datetimeToJulianDate / JulianDate.getJulianDate / getCalendarDate / days2mdh / julianDateToDatetime / convertToScenarioTime / convertToJulianDate / "
             "getTargetJulianDate / Scenario.propagateTo are executed on symbolic IEEE doubles (symx.fp: z3 Real terms with static enclosure and grid; every operation is "
             "rn(exact result), elided when grid and magnitude show exactness) with JulianDate/ScenarioTime re-based onto the proxy and datetime/timedelta replaced by an "
             "integer calendar model; universal claims are proved in the relaxed rounding encoding (|r - e| <= half an ulp: a sound over-approximation of every double "
             "execution), counterexample candidates are replayed on the real code and, when a candidate does not replay, re-derived in the bit-exact encoding "
             "(relational round-to-nearest-even) for the candidate's calendar day; the entry point resonaate.runResonaate is executed as its own code object with a private "
             "__builtins__ (its function-local `from datetime import timedelta` delivers a model of CPython's timedelta(float) constructor: exact integer microseconds, one rounded "
             "double product, ties to an even total) on sim_time_hours = rn(n/q), n a solver integer, and drives the real getTargetJulianDate and Scenario.propagateTo")
FLOAT_SEMANTICS = "IEEE-754 double: relaxed (sound over-approximation) for proofs, exact relational round-to-nearest-even for counterexamples"
ENCODED = ["resonaate.physics.time.stardate:datetimeToJulianDate", "resonaate.physics.time.stardate:JulianDate.getJulianDate", "resonaate.physics.time.stardate:getCalendarDate",
           "resonaate.physics.time.stardate:days2mdh", "resonaate.physics.time.stardate:julianDateToDatetime", "resonaate.physics.time.stardate:JulianDate.convertToScenarioTime",
           "resonaate.physics.time.stardate:ScenarioTime.convertToJulianDate", "resonaate.physics.time.conversions:getTargetJulianDate",
           "resonaate.scenario.scenario:Scenario.propagateTo", "resonaate.scenario.clock:ScenarioClock.ticToc", "resonaate:runResonaate"]
BOUNDS = {"instants": "every whole second 1901-01-01 .. 2099-12-31 (year = 1901 + 4a + b: a symbolic 0..49, b and the month enumerated = 48 classes; quick tier: 16 classes, see obligations)",
          "scenario time": "0 .. 30 days, whole seconds", "duration D": "dt .. 30 days whole seconds", "dt": "quick {1, 60, 300, 3080}; thorough adds {2, 7, 45, 86400}",
          "loop unrolling": "propagateTo loop run for 1..3 steps; the step count itself is proved for every D",
          "sim_time_hours": "the double nearest to n/q (what float() makes of the typed text), every n with n/q <= 720 h (30 days): quick q in {100, 3600} with dt in {60, 180} resp. {1, 300}; "
                            "thorough adds q in {1, 4, 10, 60, 1000} and further dt; start instant: any whole second 1901-01-01 .. 2099-11-30"}
OUTSIDE = ["sub-second (microsecond) instants, leap seconds", "years outside 1901..2099", "fractional dt", "the storage of Julian dates in SQLite (C09)",
           "sim_time_hours that is not the double nearest to a decimal/rational n/q of the listed families (for an arbitrary double H the 'intended' duration within half a microsecond of a whole "
           "second is not defined by the property), negative or zero hours, hours beyond 30 days",
           "runResonaate: the construction of the Scenario from the init file (buildScenarioFromConfigFile is replaced by a bare real Scenario with a real clock), debug_mode, KeyboardInterrupt handling",
           "the microsecond field of (start + timedelta) - getTargetJulianDate reads the six whole fields only"]
ASSUMPTIONS = ["datetime/timedelta -> integer calendar model (symx.dtmodel; 4-year cycle, valid 1901..2099), validated against the real datetime in obligation dtmodel",
               "relaxed rounding |r - e| <= 2^(bmax-53) per operation (over-approximation); exact rounding as q*2^(b-52) with tie-to-even",
               "getTargetJulianDate is checked with julianDateToDatetime replaced by a provider of an arbitrary instant (its correctness is the round-trip obligation)",
               "propagateTo: stepForward replaced by a stub that ticks the real clock; range() records the requested count; logger stubbed",
               "step-count: jd_target - jd_start = D/86400 within 2^-30 days, which is what the jd-accuracy obligations prove for both dates",
               "run-hours: timedelta -> symx.ext_c05.TimeDeltaUS, a model of CPython's C constructor for float arguments (delta_new/accum), validated against the real constructor in obligation tdmodel",
               "run-hours: runResonaate's own code object is run with a private __builtins__ (symx.ext_c05.rebuilt): __import__ delivers the datetime model (and a math shim), int/float/round are the fp versions; "
               "every other import of the body is the real one; buildScenarioFromConfigFile is shadowed by a provider of a bare real Scenario (real ScenarioClock at time 0, stepForward/shutdown/logger stubbed)",
               "run-hours: the clock's start date is any double within 2^-31 d of the exact Julian date of the start instant t0 and julianDateToDatetime(start date) is replaced by a provider of t0 (both are what "
               "roundtrip-* proves); JulianDate.getJulianDate called by getTargetJulianDate is replaced by its accuracy contract (result within 2^-31 d of the exact Julian date of the instant with those six "
               "fields; fields that are not the six fields of one model instant are recomposed through the calendar model)",
               "run-hours: range() in propagateTo records the requested count and returns an empty range (the loop itself is the loop-* obligations)",
               "run-hours counterexamples: relaxed candidates are replayed on the real runResonaate; if none reproduces, the hours -> target-instant part is searched in the bit-exact encoding, binade by binade of H "
               "(inside the timedelta model the one product spanning more than 64 binades stays in the relaxed encoding)"]
LEVEL_TEXT = ("Bounded symbolic verification in IEEE double semantics: for every whole-second instant of 1901-2099 the Julian-date round trip, the accuracy of the Julian date "
              "(hence strict monotonicity), the scenario-second round trip and the step count of a timed run are decided by z3 over all instants/durations, not sampled ones; "
              "failing instants are rare-looking but systematic (rounding direction), which is what sampling misses.")
LEVEL_NOTE = ("Whole seconds; relaxed rounding for the universal direction (sound), exact rounding for counterexamples; calendar and timedelta models trusted and validated; loop unrolled to 3 steps; "
              "requested hours of the form n/q.")

JD_1901 = Fraction(4830771, 2)  # Julian date of 1901-01-01 00:00:00 = 2415385.5
DIM = [31, 28, 31, 30, 31, 30, 31, 31, 30, 31, 30, 31]


def _instant(b, month, pin=None):
    """A symbolic whole-second instant in the class (year % 4 == (1901 + b) % 4, month)."""
    a, day, h, mi, s = integer("a"), integer("day"), integer("h"), integer("mi"), integer("s")
    dim = DIM[month - 1] + (1 if (month == 2 and b == 3) else 0)
    assume(a.t >= 0, a.t <= 49, day.t >= 1, day.t <= dim, h.t >= 0, h.t <= 23, mi.t >= 0, mi.t <= 59, s.t >= 0, s.t <= 59)
    if b == 3:
        assume(a.t <= 48 + 1)  # 1904 .. 2096 + ... (1901+4a+3 <= 2099 -> a <= 48)
        assume(a.t <= 48)
    if pin:
        assume(a.t == pin["a"], day.t == pin["day"])
    y = 1901 + 4 * a + b
    return SDateTime(y, month, day, h, mi, s)


def _real_dt(d):
    return _dt.datetime(d["year"], d["month"], d["day"], d["hour"], d["minute"], d["second"])


def _inputs(b, month):
    def f(m):
        g = lambda n: mval(m, z3.Int(n))  # noqa: E731
        return {"year": 1901 + 4 * g("a") + b, "month": month, "day": g("day"), "hour": g("h"), "minute": g("mi"), "second": g("s")}
    return f


def replay_roundtrip(d):
    from resonaate.physics.time.stardate import datetimeToJulianDate, julianDateToDatetime

    t = _real_dt(d)
    jd = datetimeToJulianDate(t)
    back = julianDateToDatetime(jd)
    exact = JD_1901 + Fraction((t - _dt.datetime(1901, 1, 1)).days) + Fraction((t - _dt.datetime(1901, 1, 1)).seconds, 86400)
    err = abs(Fraction(float(jd)) - exact)
    bad = back != t or err > Fraction(1, 2 ** 31)
    return bad, {"instant": t.isoformat(), "julian_date": repr(float(jd)), "back": back.isoformat(), "jd_error_days": float(err)}


def _run_roundtrip(b, month, pin=None):
    with time_env() as ns:
        t = _instant(b, month, pin)
        jd = ns.stardate.datetimeToJulianDate(t)
        t2 = ns.stardate.julianDateToDatetime(jd)
    return t, jd, t2


def _goals(t, jd, t2):
    exact = rv(JD_1901) + z3.ToReal(t.tot) / 86400
    ulp = rv(Fraction(1, 2 ** 31))
    return {"jd-accuracy": z3.And(jd.t - exact <= ulp, exact - jd.t <= ulp), "roundtrip": (t == t2).t}


def o_roundtrip(rep, b, month):
    tag = f"[y%4={(1901 + b) % 4},m={month}]"
    with fp.mode("relaxed"):
        res = explore(lambda: _run_roundtrip(b, month), max_paths=200, max_depth=200, branch_timeout_ms=20000, catch=(Exception,))
    rep.note(f"{tag}: {len(res)} paths (relaxed rounding)")
    ok_paths = 0
    for k, r in enumerate(res):
        if r.exc is not None:
            from symx.core import Unsupported

            if isinstance(r.exc, (Unsupported, TypeError, AttributeError, NameError)):
                rep.error(f"exception{tag}#{k}", repr(r.exc))
                continue
            # the real code raised on a feasible path (e.g. ValueError from datetime()): a violation candidate
            m = solve(r.constraints, 30000)
            if m.status != "sat":
                continue
            cand = _inputs(b, month)(m.model)
            _ladder(rep, f"raises{tag}#{k}", cand, b, month, f"{type(r.exc).__name__}: {r.exc}", r.constraints)
            continue
        ok_paths += 1
        t, jd, t2 = r.out
        for name, goal in _goals(t, jd, t2).items():
            v = solve(fp.sliced(r.path, goal) + [z3.Not(goal)], 120000)
            rep._item(f"{name}{tag}#{k}", "prove", v)
            rep.sample({"obligation": f"{name}{tag}", "verdict": v.status, "what": "julianDateToDatetime(datetimeToJulianDate(t)) == t and |jd - exact| <= 2^-31 d for every whole second of the class"})
            if v.status == "unsat":
                continue
            if v.status == "unknown":
                rep.undecided(f"{name}{tag}#{k}", v.reason)
                continue
            _ladder(rep, f"{name}{tag}#{k}", _inputs(b, month)(v.model), b, month, "relaxed-rounding candidate", r.constraints + [z3.Not(goal)])
    if ok_paths == 0:
        rep.error(f"reach{tag}", "no path returned normally")


def _ladder(rep, label, cand, b, month, why, cand_constraints):
    """A relaxed-mode candidate: replay; if it does not replay, decide the candidate's calendar day in the exact encoding."""
    reproduced, detail = replay_roundtrip(cand)
    if reproduced:
        rep.items[-1]["counterexample"] = cand if rep.items else None
        rep.concrete_violation(label, cand, detail)
        return
    pin = {"a": (cand["year"] - 1901 - b) // 4, "day": cand["day"]}
    with fp.mode("exact"):
        res = explore(lambda: _run_roundtrip(b, month, pin), max_paths=200, max_depth=200, branch_timeout_ms=20000)
    for k, r in enumerate(res):
        if r.exc is not None:
            continue
        t, jd, t2 = r.out
        for name, goal in _goals(t, jd, t2).items():
            v = solve(r.constraints + [z3.Not(goal)], 120000)
            rep._item(f"{label}:exact-{name}#{k}", "prove", v)
            if v.status == "sat":
                c2 = _inputs(b, month)(v.model)
                rp, det = replay_roundtrip(c2)
                if rp:
                    rep.concrete_violation(f"{label}:exact", c2, det)
                else:
                    rep.error(f"{label}:exact", f"bit-exact counterexample does not reproduce: {det}")
                return
            if v.status == "unknown":
                rep.undecided(f"{label}:exact-{name}#{k}", v.reason)
                return
    # the candidate's day is decided (no violation in the exact encoding).  If the relaxed candidate set contains no other day, the
    # relaxed path/violation was an artefact of the over-approximation on that single day and the class is decided.
    only = solve(list(cand_constraints) + [z3.Or(z3.Int("a") != pin["a"], z3.Int("day") != pin["day"])], 60000)
    rep._item(f"{label}:only-that-day", "prove", only)
    if only.status == "unsat":
        rep.note(f"{label}: relaxed-only candidate on {cand['year']}-{cand['month']}-{cand['day']} refuted in the exact encoding; no other day admits it")
        return
    rep.undecided(label, f"relaxed candidate {cand} ({why}) is spurious for its day in the exact encoding; the class is not decided")


# ---------------------------------------------------------------------------------------------
def o_monotone(rep):
    """jd-accuracy for two instants implies strict monotonicity (pure arithmetic, discharged by the solver)."""
    k1, k2 = z3.Int("k1"), z3.Int("k2")
    j1, j2 = z3.Real("j1"), z3.Real("j2")
    ulp = rv(Fraction(1, 2 ** 31))
    aff = lambda k: rv(JD_1901) + z3.ToReal(k) / 86400  # noqa: E731
    cons = [k1 < k2, j1 - aff(k1) <= ulp, aff(k1) - j1 <= ulp, j2 - aff(k2) <= ulp, aff(k2) - j2 <= ulp]
    rep.reachable("monotone-assumptions", cons)
    rep.prove("monotone", j1 < j2, cons, sample="two whole-second instants k1 < k2 whose Julian dates are accurate to 2^-31 d have jd1 < jd2")


def replay_sround(d):
    from resonaate.physics.time.stardate import JulianDate, ScenarioTime

    js, t = JulianDate(d["jd_start"]), ScenarioTime(d["t"])
    back = t.convertToJulianDate(js).convertToScenarioTime(js)
    return abs(float(back) - d["t"]) >= 1e-3, {"t": d["t"], "back": float(back)}


def o_scenario_seconds(rep):
    def run():
        with time_env() as ns:
            js = ns.JulianDate(fp.fresh_float("js", Fraction(4830041, 2), Fraction(4976837, 2), -31))
            ti = integer("t")
            assume(ti.t >= 0, ti.t <= 30 * 86400)
            t = ns.ScenarioTime(fp.from_int(ti.t, 0, 30 * 86400))
            back = t.convertToJulianDate(js).convertToScenarioTime(js)
        return js, t, back

    with fp.mode("relaxed"):
        res = explore(run, max_paths=8)
    for k, r in enumerate(res):
        if r.exc is not None:
            rep.error("exception", repr(r.exc))
            continue
        js, t, back = r.out
        tol = rv(Fraction(1, 1000))
        rep.prove(f"scenario-seconds#{k}", z3.And(back.t - t.t < tol, t.t - back.t < tol), r.constraints,
                  inputs=lambda m: {"jd_start": fp.mfloat(m, z3.Real("js")) if False else float(mval(m, z3.Real("js"))), "t": float(mval(m, z3.Int("t")))},
                  replay=replay_sround, sample="|convertToScenarioTime(convertToJulianDate(t)) - t| < 1 ms for t in 0..30 d, any start date")
        tight = rv(Fraction(1, 10000))
        rep.prove(f"scenario-seconds-tight#{k}", z3.And(back.t - t.t < tol / 10, t.t - back.t < tight), r.constraints, sample="the same within 0.1 ms")


# ---------------------------------------------------------------------------------------------
def replay_target_date(d):
    from resonaate.physics.time.conversions import getTargetJulianDate
    from resonaate.physics.time.stardate import datetimeToJulianDate

    t0 = _dt.datetime(1901, 1, 1) + _dt.timedelta(days=d["n0"], seconds=d["sod0"])
    delta = _dt.timedelta(seconds=d["D"])
    got = float(getTargetJulianDate(datetimeToJulianDate(t0), delta))
    want = float(datetimeToJulianDate(t0 + delta))
    # the two may legitimately differ by the round trip of the start date only if that round trip is broken (C05 roundtrip); compare within one second
    return abs(got - want) > 0.5 / 86400, {"start": t0.isoformat(), "duration_s": d["D"], "target_jd": got, "expected_jd": want, "difference_s": (got - want) * 86400}


def o_target_date(rep):
    """getTargetJulianDate(jd, delta) = Julian date of (julianDateToDatetime(jd) + delta), second included."""
    def run():
        with time_env() as ns:
            n, sod, dd = integer("n0"), integer("sod0"), integer("D")
            assume(n.t >= 0, n.t <= 72683 - 31, sod.t >= 0, sod.t <= 86399, dd.t >= 0, dd.t <= 30 * 86400)
            t0 = SDateTime._of(n.t, sod.t)
            seen = []

            def provider(jd):
                seen.append(jd)
                return t0

            js = ns.JulianDate(fp.fresh_float("js", Fraction(4830041, 2), Fraction(4976837, 2), -31))
            with shadow(ns.conversions, julianDateToDatetime=provider):
                out = ns.conversions.getTargetJulianDate(js, STimeDelta(seconds=dd))
            want = ns.stardate.datetimeToJulianDate(t0 + STimeDelta(seconds=dd))
        return js, seen, out, want

    with fp.mode("relaxed"):
        res = explore(run, max_paths=64, max_depth=100, branch_timeout_ms=20000)
    n = 0
    for k, r in enumerate(res):
        if r.exc is not None:
            rep.error("exception", repr(r.exc))
            continue
        js, seen, out, want = r.out
        n += 1
        goal = z3.And(out.t == want.t, z3.BoolVal(len(seen) == 1), seen[0].t == js.t if seen else z3.BoolVal(False))
        inputs = lambda m: {"n0": mval(m, z3.Int("n0")), "sod0": mval(m, z3.Int("sod0")), "D": mval(m, z3.Int("D"))}  # noqa: E731
        v = solve(list(r.constraints) + [z3.Not(goal)], 120000)
        rep._item(f"target-date#{k}", "prove", v)
        rep.sample({"obligation": f"target-date#{k}", "verdict": v.status, "what": "getTargetJulianDate(jd, D) is the Julian date of (calendar instant of jd) + D, computed from all six fields"})
        if v.status == "unknown":
            rep.undecided(f"target-date#{k}", v.reason)
        elif v.status == "sat":
            # the two dates are not the same term any more; in the relaxed encoding that alone is satisfiable (two roundings), so
            # ask for a difference no rounding explains (half a second), or a start date that is not passed through
            half = rv(Fraction(1, 2 * 86400))
            big = z3.Or(out.t - want.t >= half, want.t - out.t >= half, z3.BoolVal(len(seen) != 1), z3.Not(seen[0].t == js.t) if seen else z3.BoolVal(True))
            v2 = solve(list(r.constraints) + [big], 120000)
            rep._item(f"target-date#{k}:half-second", "prove", v2)
            if v2.status == "sat":
                cand = inputs(v2.model)
                reproduced, detail = replay_target_date(cand)
                rep.items[-1]["counterexample"], rep.items[-1]["replay"] = cand, {"reproduced": reproduced, "detail": detail}
                if reproduced:
                    rep.concrete_violation(f"target-date#{k}", cand, detail)
                else:
                    rep.error(f"target-date#{k}", f"counterexample does not reproduce on the real code: {detail}")
            else:
                rep.undecided(f"target-date#{k}", f"the target date is no longer the same expression as datetimeToJulianDate(start + D) and a half-second difference is {v2.status}")
    if not n:
        rep.error("reach", "no path")


# names shadowed in the scenario/clock modules while propagateTo / ticToc run on symbolic doubles
SC_ENV = [("resonaate.scenario.scenario", {"around": fp.fp_around, "int": fp.fp_int, "float": fp.fp_float, "round": fp.fp_round}),
          ("resonaate.scenario.clock", {"int": fp.fp_int, "float": fp.fp_float, "round": fp.fp_round})]


class _Stop(Exception):
    pass


def _scenario(ns, dt, out_step, t_now, js, loop):
    """object.__new__(Scenario) with a real clock (constructed without the DB side effect)."""
    from resonaate.scenario import clock as CK
    from resonaate.scenario import scenario as SC

    clock = object.__new__(CK.ScenarioClock)
    clock.julian_date_start = js
    clock.dt_step = ns.ScenarioTime(dt)
    clock.time = ns.ScenarioTime(t_now)
    clock.initial_time = ns.ScenarioTime(0)
    sc = object.__new__(SC.Scenario)
    sc.clock = clock
    sc.logger = types.SimpleNamespace(info=lambda *a, **k: None, error=lambda *a, **k: None, debug=lambda *a, **k: None, warning=lambda *a, **k: None)
    sc.scenario_config = types.SimpleNamespace(propagation=types.SimpleNamespace(truth_simulation_only=True),
                                               time=types.SimpleNamespace(physics_step_sec=dt, output_step_sec=out_step))
    log = {"steps": 0, "saves": [], "count": None}

    def step():
        log["steps"] += 1
        clock.ticToc()

    sc.stepForward = step
    sc.saveDatabaseOutput = lambda: log["saves"].append(clock.time)
    return sc, log


def replay_count(d):
    """Real Scenario.propagateTo on a bare object with real JulianDate/ScenarioTime and a real clock."""
    from resonaate.physics.time.stardate import JulianDate, ScenarioTime
    from resonaate.scenario.clock import ScenarioClock
    from resonaate.scenario.scenario import Scenario

    clock = object.__new__(ScenarioClock)
    clock.julian_date_start = JulianDate(d["jd_start"])
    clock.dt_step, clock.time, clock.initial_time = ScenarioTime(d["dt"]), ScenarioTime(d["t_now"]), ScenarioTime(0)
    sc = object.__new__(Scenario)
    sc.clock = clock
    sc.logger = types.SimpleNamespace(info=lambda *a, **k: None, error=lambda *a, **k: None)
    out_step = d.get("out", d["dt"])
    sc.scenario_config = types.SimpleNamespace(propagation=types.SimpleNamespace(truth_simulation_only=True), time=types.SimpleNamespace(physics_step_sec=d["dt"], output_step_sec=out_step))
    n = [0]
    saves = []

    def step():
        n[0] += 1
        clock.ticToc()

    sc.stepForward, sc.saveDatabaseOutput = step, lambda: saves.append(float(clock.time))
    try:
        sc.propagateTo(JulianDate(d["jd_target"]))
        raised = None
    except ValueError as e:
        raised = repr(e)
    want = (d["D"] - d["t_now"]) // d["dt"]
    want_saves = [float(d["t_now"] + (i + 1) * d["dt"]) for i in range(want) if (d["t_now"] + (i + 1) * d["dt"]) % out_step == 0]
    bad = n[0] != want or float(clock.time) != d["t_now"] + want * d["dt"] or (raised is not None and want >= 1) or saves != want_saves
    return bad, {"steps_made": n[0], "steps_expected": want, "clock_time": float(clock.time), "raised": raised, "outputs_at": saves, "outputs_expected_at": want_saves}


def o_step_count(rep, dt):
    """int(steps) requested from range() == floor((D - t_now)/dt) for every D; ValueError iff D - t_now < dt."""
    from resonaate.scenario import scenario as SC

    def run():
        with time_env(SC_ENV) as ns:
            js = ns.JulianDate(fp.fresh_float("js", Fraction(4830041, 2), Fraction(4976837, 2), -31))
            jt = ns.JulianDate(fp.fresh_float("jt", Fraction(4830041, 2), Fraction(4976837 + 62, 2), -31))
            dd, kk = integer("D"), integer("k0")
            assume(kk.t >= 0, dd.t >= 0, dd.t <= 30 * 86400, kk.t * dt <= dd.t)
            # what the jd-accuracy obligations establish for both dates
            eps = rv(Fraction(1, 2 ** 30))
            assume(jt.t - js.t - z3.ToReal(dd.t) / 86400 <= eps, z3.ToReal(dd.t) / 86400 - (jt.t - js.t) <= eps)
            hint = fp.declare_enclosure(jt.t - js.t, -Fraction(1, 2 ** 30), 30 + Fraction(1, 2 ** 30))
            t_now = fp.from_int(kk.t * dt, 0, 30 * 86400)
            sc, log = _scenario(ns, dt, dt, t_now, js, False)
            log["hint"] = hint

            def rng(n):
                log["count"] = n
                raise _Stop()

            raised = None
            with shadow(SC, range=rng):
                try:
                    sc.propagateTo(jt)
                except _Stop:
                    pass
                except ValueError as e:
                    raised = e
        return dd, kk, log, raised

    with fp.mode("relaxed"):
        res = explore(run, max_paths=16, branch_timeout_ms=20000, catch=(Exception,))

    def inputs(m):
        return {"jd_start": float(mval(m, z3.Real("js"))), "jd_target": float(mval(m, z3.Real("jt"))), "D": mval(m, z3.Int("D")), "t_now": mval(m, z3.Int("k0")) * dt, "dt": dt}

    kinds = set()
    for k, r in enumerate(res):
        if r.exc is not None:
            rep.error(f"exception[dt={dt}]", repr(r.exc))
            continue
        dd, kk, log, raised = r.out
        rem = dd.t - kk.t * dt
        if raised is not None:
            kinds.add("raise")
            rep.prove(f"too-short-raises[dt={dt}]#{k}", rem < dt, fp.sliced(r.path, rem < dt), inputs=inputs, replay=replay_count, sample="ValueError only when the remaining duration is shorter than one step")
        else:
            kinds.add("count")
            n = log["count"]
            nt = n.as_int_term() if isinstance(n, fp.SFloat) else z3.IntVal(int(n))
            goal = z3.And(nt == rem / dt, rem >= dt)
            lemmas = [(f"rounded-delta#{i}", n_ == rem) for i, (key, n_) in enumerate(r.path.trig.items()) if key[0] == "rhe"]
            rep.prove(f"step-count[dt={dt}]#{k}", goal, fp.sliced(r.path, goal), lemmas=[(a, b) for a, (b) in lemmas], inputs=inputs, replay=replay_count, timeout_ms=120000,
                      sample="propagateTo asks for exactly floor((D - t_now)/dt) steps, for every D up to 30 days and every start date")
    if kinds != {"raise", "count"}:
        rep.error(f"reach[dt={dt}]", f"expected both outcomes, got {kinds}")


def o_loop(rep, dt, out_step):
    """The loop itself, unrolled: n steps tick the clock to t_now + n*dt; output exactly at multiples of output_step."""
    def run():
        with time_env(SC_ENV) as ns:
            js = ns.JulianDate(fp.fresh_float("js", Fraction(4830041, 2), Fraction(4976837, 2), -31))
            jt = ns.JulianDate(fp.fresh_float("jt", Fraction(4830041, 2), Fraction(4976837 + 62, 2), -31))
            dd, kk = integer("D"), integer("k0")
            assume(kk.t >= 0, kk.t <= 1000, dd.t >= 0, dd.t <= 30 * 86400, kk.t * dt <= dd.t, dd.t - kk.t * dt < 4 * dt)
            eps = rv(Fraction(1, 2 ** 30))
            assume(jt.t - js.t - z3.ToReal(dd.t) / 86400 <= eps, z3.ToReal(dd.t) / 86400 - (jt.t - js.t) <= eps)
            fp.declare_enclosure(jt.t - js.t, -Fraction(1, 2 ** 30), 30 + Fraction(1, 2 ** 30))
            t_now = fp.from_int(kk.t * dt, 0, 30 * 86400)
            sc, log = _scenario(ns, dt, out_step, t_now, js, True)
            raised = None
            try:
                sc.propagateTo(jt)
            except ValueError as e:
                raised = e
        return dd, kk, log, raised, sc.clock.time

    with fp.mode("relaxed"):
        res = explore(run, max_paths=64, branch_timeout_ms=20000, catch=(Exception,))
    seen = set()
    for k, r in enumerate(res):
        if r.exc is not None:
            rep.error(f"exception[dt={dt}]", repr(r.exc))
            continue
        dd, kk, log, raised, tm = r.out
        rem = dd.t - kk.t * dt
        n = log["steps"]
        seen.add(n)
        goals = [rem / dt == n, tm.t == z3.ToReal(kk.t * dt + n * dt)]
        # outputs: exactly the visited times that are multiples of out_step, each once, in order
        visited = [kk.t * dt + (i + 1) * dt for i in range(n)]
        saves = [s.t for s in log["saves"]]
        j = 0
        path_saves = []
        for v in visited:
            path_saves.append(v % out_step == 0)
        # the recorded saves must be the sub-sequence of visited times with time % out_step == 0
        m = solve(r.constraints, 20000)
        if m.status != "sat":
            continue
        want = [z3.ToReal(v) for v, c in zip(visited, path_saves) if z3.is_true(m.model.eval(c, model_completion=True))]
        cond = z3.And(*[c if z3.is_true(m.model.eval(c, model_completion=True)) else z3.Not(c) for c in path_saves]) if path_saves else z3.BoolVal(True)
        goals.append(z3.Implies(cond, z3.And(z3.BoolVal(len(want) == len(saves)), *[a == b for a, b in zip(want, saves)])))
        goals.append(cond)  # the save pattern is determined by the path (saves are decided by branches on time % output_step)
        lemmas = [(f"rounded-delta#{i}", n_ == rem) for i, (key, n_) in enumerate(r.path.trig.items()) if key[0] == "rhe"]
        def inputs(mm, dt=dt, out_step=out_step):
            return {"jd_start": float(mval(mm, z3.Real("js"))), "jd_target": float(mval(mm, z3.Real("jt"))), "D": mval(mm, z3.Int("D")), "t_now": mval(mm, z3.Int("k0")) * dt, "dt": dt, "out": out_step}

        rep.prove(f"loop[dt={dt},out={out_step}]#{k}(n={n})", z3.And(*goals), fp.sliced(r.path, z3.And(*goals)), timeout_ms=60000, lemmas=lemmas, inputs=inputs, replay=replay_count,
                  sample="after propagateTo the clock reads t_now + floor((D - t_now)/dt)*dt; saveDatabaseOutput ran exactly at the visited times that are multiples of the output step")
    if not {1, 2, 3} <= seen:
        rep.error(f"reach[dt={dt}]", f"loop counts reached: {sorted(seen)}")


# ---------------------------------------------------------------------------------------------
def o_dtmodel(rep):
    """Differential validation of the calendar model and of the double encoding against CPython on pinned instants (solver-checked)."""
    from resonaate.physics.time.stardate import datetimeToJulianDate

    pins = [_dt.datetime(1901, 1, 1, 0, 0, 0), _dt.datetime(1999, 12, 31, 23, 59, 59), _dt.datetime(2000, 2, 29, 12, 0, 1), _dt.datetime(2021, 3, 30, 16, 0, 1),
            _dt.datetime(2099, 12, 31, 23, 59, 59), _dt.datetime(2020, 3, 1, 0, 0, 0), _dt.datetime(2018, 12, 1, 12, 0, 0), _dt.datetime(1964, 1, 17, 12, 23, 3)]
    for i, d in enumerate(pins):
        for md in ("exact", "relaxed"):
            def run(d=d):
                with time_env() as ns:
                    t = SDateTime(d.year, d.month, d.day, d.hour, d.minute, d.second)
                    jd = ns.stardate.datetimeToJulianDate(t)
                    t3 = t + STimeDelta(seconds=(86400 * 59 + 1) if d.year < 2099 else -(86400 * 59 + 1))
                    return t, jd, t3, (t3.year, t3.month, t3.day, t3.hour, t3.minute, t3.second)

            with fp.mode(md):
                res = explore(run, max_paths=4)
            r = res[0]
            t, jd, t3, f3 = r.out
            real_jd = float(datetimeToJulianDate(d))
            d3 = d + _dt.timedelta(seconds=(86400 * 59 + 1) if d.year < 2099 else -(86400 * 59 + 1))
            delta = d - _dt.datetime(1901, 1, 1)
            goals = [t.n == delta.days, t.sod == delta.seconds]
            goals += [x.t == v for x, v in zip(f3, (d3.year, d3.month, d3.day, d3.hour, d3.minute, d3.second))]
            if md == "exact":
                goals.append(jd.t == rv(Fraction(real_jd)))
            else:
                goals.append(z3.And(jd.t - rv(Fraction(real_jd)) <= rv(Fraction(1, 2 ** 31)), rv(Fraction(real_jd)) - jd.t <= rv(Fraction(1, 2 ** 31))))
            rep.reachable(f"pin{i}-{md}-sat", r.constraints)
            rep.prove(f"pin{i}-{md}", z3.And(*goals), r.constraints, sample="pinned instant: model day number / fields and the encoded Julian date equal CPython's (bit-equal in exact mode)")


# ---------------------------------------------------------------------------------------------
# the entry point: runResonaate(init, sim_time_hours=H) from any start instant
def _hours_run(q, nmax, dt, drive):
    """Execute the real runResonaate on H = rn(n / q) hours (n a solver integer: H is the double the command line's float() makes of
    the typed text n/q).  drive=True: the application is a bare real Scenario with a real clock whose real propagateTo runs
    (range() records the requested number of steps); drive=False: propagateTo only records its argument."""
    import resonaate
    import resonaate.scenario as RS
    from resonaate.scenario import scenario as SC

    def run():
        with time_env(SC_ENV) as ns:
            n, tot0 = integer("n"), integer("tot0")
            assume(n.t >= 1, n.t <= nmax, tot0.t >= 0, tot0.t < (72683 - 31) * 86400)
            hours = fp.rn(z3.ToReal(n.t) / q, Fraction(1, q), Fraction(nmax, q))
            t0 = X.TrackedDT.of_total(tot0.t)  # the start instant: any whole second 1901 .. 2099-11-30
            log = {"targets": [], "seen": [], "built": [], "shutdown": 0, "count": None}
            JDc = X.jd_contract(ns.JulianDate, on_call=lambda jd, tot: log["targets"].append((jd, tot)))
            # the start date of the clock: the Julian date of t0 (accuracy as proved by roundtrip-*: jd-accuracy)
            js = JDc(fp.fresh_float("js", Fraction(4830041, 2), Fraction(4976837, 2), -31))
            exact0 = rv(JD_1901) + z3.ToReal(tot0.t) / 86400
            assume(js.t - exact0 <= rv(Fraction(1, 2 ** 31)), exact0 - js.t <= rv(Fraction(1, 2 ** 31)))
            sc, slog = _scenario(ns, dt, dt, fp.SFloat(0), js, False)
            sc.shutdown = lambda *a, **k: log.__setitem__("shutdown", log["shutdown"] + 1)
            if not drive:
                sc.propagateTo = lambda target: log.__setitem__("count", "recorded")

            def provider(jd):  # julianDateToDatetime(start date) = t0: the roundtrip obligation
                log["seen"].append(jd)
                return t0

            def builder(*a, **k):
                log["built"].append((a, k))
                return sc

            def rng(k):
                log["count"] = k
                return range(0)

            entry = X.rebuilt(resonaate.runResonaate, modules={"datetime": X.DatetimeModuleUS, "math": X.MathShim()}, names={"int": fp.fp_int, "float": fp.fp_float, "round": fp.fp_round})
            raised = None
            with shadow(ns.conversions, julianDateToDatetime=provider, JulianDate=JDc), shadow(RS, buildScenarioFromConfigFile=builder), shadow(SC, range=rng):
                try:
                    entry("init.json", sim_time_hours=hours)
                except ValueError as e:
                    raised = e
        return n, tot0, js, log, raised

    return run


def replay_run_hours(d):
    """The real runResonaate (scenario builder patched as tests/test_run_resonaate.py does, but returning a bare real Scenario with a
    real ScenarioClock started at the given instant); counts the stepForward() calls."""
    import resonaate
    import resonaate.scenario as RS
    from resonaate.physics.time.stardate import ScenarioTime, datetimeToJulianDate
    from resonaate.scenario.clock import ScenarioClock
    from resonaate.scenario.scenario import Scenario

    n, q, dt = int(d["hours_num"]), int(d["hours_den"]), int(d["dt"])
    hours = n / q  # == float("<n/q as typed>"): both are the double nearest to the rational
    t0 = _dt.datetime(1901, 1, 1) + _dt.timedelta(seconds=int(d["start_s"]))
    clock = object.__new__(ScenarioClock)
    clock.datetime_start = t0
    clock.julian_date_start = datetimeToJulianDate(t0)
    clock.dt_step, clock.time, clock.initial_time = ScenarioTime(dt), ScenarioTime(0), ScenarioTime(0)
    sc = object.__new__(Scenario)
    sc.clock = clock
    sc.logger = types.SimpleNamespace(info=lambda *a, **k: None, error=lambda *a, **k: None, warning=lambda *a, **k: None, debug=lambda *a, **k: None)
    sc.scenario_config = types.SimpleNamespace(propagation=types.SimpleNamespace(truth_simulation_only=True), time=types.SimpleNamespace(physics_step_sec=dt, output_step_sec=dt))
    steps, epochs, downs = [0], [], [0]

    def step():
        steps[0] += 1
        clock.ticToc()
        epochs.append(float(clock.time))

    sc.stepForward, sc.saveDatabaseOutput = step, lambda: None
    sc.shutdown = lambda *a, **k: downs.__setitem__(0, downs[0] + 1)
    raised = None
    with shadow(RS, buildScenarioFromConfigFile=lambda *a, **k: sc):
        try:
            resonaate.runResonaate("replay.json", sim_time_hours=hours)
        except ValueError as e:
            raised = repr(e)
    want = (3600 * n) // (q * dt)
    bad = steps[0] != want or (raised is not None and want >= 1) or epochs != [float((k + 1) * dt) for k in range(want)]
    return bad, {"start": t0.isoformat(), "sim_time_hours": hours, "typed": f"{n}/{q}", "requested_duration_s": float(Fraction(3600 * n, q)), "step_s": dt, "steps_made": steps[0],
                 "steps_expected": want, "last_epoch_s": epochs[-1] if epochs else 0.0, "raised": raised}


def _hours_inputs(q, dt):
    return lambda m: {"hours_num": mval(m, z3.Int("n")), "hours_den": q, "dt": dt, "start_s": mval(m, z3.Int("tot0"))}


def o_run_hours(rep, q, nmax, dt):
    """runResonaate(sim_time_hours = n/q) advances exactly floor(D/dt) steps, D = 3600 n / q seconds (what timedelta(hours=...) makes of it)."""
    import math

    import resonaate.common.behavioral_config  # noqa: F401  (PRELOAD: imported inside runResonaate)
    import resonaate.scenario  # noqa: F401
    from resonaate.scenario import clock as _ck  # noqa: F401
    from resonaate.scenario import scenario as _sc  # noqa: F401

    tag = f"[H=n/{q},dt={dt}]"
    what = "the number of steps runResonaate requests is floor(D/dt), D = 3600 n/q s, for every n and every start second; ValueError only when D < dt"
    with fp.mode("relaxed"):
        res = explore(_hours_run(q, nmax, dt, True), max_paths=16, branch_timeout_ms=20000, catch=(Exception,))
    want_n = lambda n: (3600 * n.t) / (q * dt)  # noqa: E731  (Int division = floor)
    secs = lambda n: (3600 * n.t) / q  # noqa: E731
    kinds, cands = set(), []
    for k, r in enumerate(res):
        if r.exc is not None:
            rep.error(f"exception{tag}#{k}", repr(r.exc))
            continue
        n, tot0, js, log, raised = r.out
        shape = z3.BoolVal(len(log["built"]) == 1 and len(log["seen"]) == 1 and len(log["targets"]) == 1 and log["shutdown"] == 1 and (raised is not None or log["count"] is not None))
        if raised is not None:
            kinds.add("raise")
            goal = z3.And(shape, want_n(n) == 0)
        else:
            kinds.add("count")
            c = log["count"]
            ct = c.as_int_term() if isinstance(c, fp.SFloat) else z3.IntVal(int(c))
            goal = z3.And(shape, ct == want_n(n), want_n(n) >= 1)
        cons = list(r.constraints)
        rep.reachable(f"path{tag}#{k}", cons)
        # lemma chain (each proved from the path before it is used): the requested target instant, then the rounded delta
        lemmas = [("target-instant", tot == tot0.t + secs(n)) for _jd, tot in log["targets"]]
        lemmas += [("start-date-passed", z3.And(*[s_.t == js.t for s_ in log["seen"]]))]
        lemmas += [(f"rounded-delta#{i}", n_ == secs(n)) for i, (key, n_) in enumerate(r.path.trig.items()) if key[0] == "rhe"]
        for lname, lem in lemmas:
            lv = solve(cons + [z3.Not(lem)], 20000)
            rep._item(f"run-hours{tag}#{k}:lemma:{lname}", "lemma", lv)
            if lv.status == "unsat":
                cons.append(lem)
        v = solve(cons + [z3.Not(goal)], 120000)
        rep._item(f"run-hours{tag}#{k}", "prove", v)
        rep.sample({"obligation": f"run-hours{tag}", "verdict": v.status, "what": what})
        if v.status == "unknown":
            rep.undecided(f"run-hours{tag}#{k}", v.reason)
        elif v.status == "sat":
            cands.append((k, _hours_inputs(q, dt)(v.model)))
    need = {"count"} | ({"raise"} if (3600 // q) < dt else set())
    if not cands and not need <= kinds:
        rep.error(f"reach{tag}", f"expected outcomes {need}, got {kinds}")
    if not cands:
        return
    # relaxed-rounding candidates: replay; one that reproduces is a violation
    for k, cand in cands:
        reproduced, detail = replay_run_hours(cand)
        rep.items[-1].setdefault("candidates", []).append({"inputs": cand, "reproduced": reproduced})
        if reproduced:
            rep.concrete_violation(f"run-hours{tag}#{k}", cand, detail)
            return
    # none reproduced: the relaxed encoding cannot tell on which side of a whole second a double product falls.  Decide the
    # hours -> target-instant part in the bit-exact encoding (binade by binade of H), asking for a different step count.
    with fp.mode("exact"):
        res2 = explore(_hours_run(q, nmax, dt, False), max_paths=16, branch_timeout_ms=20000, catch=(Exception,))
    verdicts = []
    for k, r in enumerate(res2):
        if r.exc is not None:
            rep.error(f"exception-exact{tag}#{k}", repr(r.exc))
            return
        n, tot0, js, log, raised = r.out
        if len(log["targets"]) != 1:
            rep.error(f"exact{tag}#{k}", f"{len(log['targets'])} target dates requested")
            return
        bad = (log["targets"][0][1] - tot0.t) / dt != want_n(n)
        cons = fp.sliced(r.path, bad)
        for b in range(math.floor(math.log2(1 / q)) - 1, math.floor(math.log2(nmax / q)) + 2):
            lo, hi = Fraction(2) ** b * q, Fraction(2) ** (b + 1) * q
            if hi <= 1 or lo > nmax:
                continue
            v = solve(cons + [z3.ToReal(n.t) >= rv(lo), z3.ToReal(n.t) < rv(hi), bad], 60000)
            rep._item(f"run-hours{tag}:exact#{k}:binade{b}", "prove", v)
            verdicts.append(v.status)
            if v.status == "sat":
                cand = _hours_inputs(q, dt)(v.model)
                reproduced, detail = replay_run_hours(cand)
                rep.items[-1]["counterexample"] = cand
                rep.items[-1]["replay"] = {"reproduced": reproduced, "detail": detail}
                if reproduced:
                    rep.concrete_violation(f"run-hours{tag}:exact", cand, detail)
                else:
                    rep.error(f"run-hours{tag}:exact", f"bit-exact counterexample does not reproduce: {detail}")
                return
    rep.undecided(f"run-hours{tag}", f"relaxed candidates {[c for _k, c in cands]} do not reproduce and the bit-exact search of the duration conversion found nothing ({verdicts})")


def o_tdmodel(rep):
    """Differential validation of the timedelta(float) model (symx.ext_c05.TimeDeltaUS) against CPython's constructor: the hours value is
    a solver variable pinned by an assumption; the model's microseconds must equal the real ones (both rounding encodings)."""
    pins = [(205, 100), (113, 100), (29, 100), (2399, 100), (50, 100), (71999, 100), (1, 3600), (86399, 3600), (7, 1), (1, 3), (123457, 1000)]
    for i, (a, q) in enumerate(pins):
        real_us = X.real_total_us(_dt.timedelta(hours=a / q))
        for md in ("exact", "relaxed"):
            def run(a=a, q=q):
                n = integer("n")
                assume(n.t == a)
                h = fp.rn(z3.ToReal(n.t) / q, Fraction(a, q) / 2, Fraction(a, q) * 2)
                return X.TimeDeltaUS(hours=h)

            with fp.mode(md):
                res = explore(run, max_paths=4)
            for k, r in enumerate(res):
                if r.exc is not None:
                    rep.error(f"pin{i}-{md}", repr(r.exc))
                    continue
                td = r.out
                rep.reachable(f"td-pin{i}-{md}-sat#{k}", r.constraints)
                rep.prove(f"td-pin{i}-{md}#{k}", z3.And(td.us == real_us, td.s == real_us // 10 ** 6), r.constraints,
                          sample="timedelta(hours=h) model: total microseconds equal CPython's for the pinned h (h a constrained solver variable)")
    # constant arguments of several units, including exact ties (1/2048 h = 1757812.5 us) with an odd and an even running total
    cases = [dict(hours=1 / 2048), dict(hours=3 / 2048), dict(hours=2049 / 2048), dict(microseconds=1, hours=1 / 2048), dict(microseconds=1, hours=3 / 2048), dict(minutes=0.1, seconds=0.7, hours=2.05),
             dict(days=0.3, weeks=0.01), dict(seconds=7380), dict(seconds=1e-7), dict(milliseconds=0.0005), dict(seconds=2.5, milliseconds=1.5)]
    for i, kw in enumerate(cases):
        real_us = X.real_total_us(_dt.timedelta(**kw))
        with fp.mode("exact"):
            res = explore(lambda kw=kw: X.TimeDeltaUS(**kw), max_paths=4)
        for k, r in enumerate(res):
            if r.exc is not None:
                rep.error(f"const{i}", repr(r.exc))
                continue
            rep.reachable(f"td-const{i}-sat#{k}", r.constraints)
            rep.prove(f"td-const{i}#{k}", r.out.us == real_us, r.constraints, sample="timedelta(**floats) model equals CPython's constructor (ties to an even total)")


REPLAYS = {}

QUICK_CLASSES = [(b, m) for b in range(4) for m in (1, 2, 3, 12)]
ALL_CLASSES = [(b, m) for b in range(4) for m in range(1, 13)]
# (q, largest n, dt): sim_time_hours = n/q for n = 1..nmax (up to 30 days)
RUN_HOURS_QUICK = [(100, 72000, 60), (100, 72000, 180), (3600, 30 * 86400, 1), (3600, 30 * 86400, 300)]
RUN_HOURS_ALL = RUN_HOURS_QUICK + [(100, 72000, 1), (100, 72000, 3080), (10, 7200, 60), (1000, 720000, 7), (60, 43200, 60), (4, 2880, 300), (1, 720, 3600), (3600, 30 * 86400, 45)]


def obligations(tier):
    obs = [Ob("dtmodel", o_dtmodel, "calendar model and double encoding agree with CPython on pinned instants", 300)]
    for b, m in (QUICK_CLASSES if tier == "quick" else ALL_CLASSES):
        name = f"roundtrip-y{(1901 + b) % 4}-m{m}"
        obs.append(Ob(name, (lambda b, m: lambda rep: o_roundtrip(rep, b, m))(b, m), f"round trip and Julian-date accuracy, years = {1901 + b} mod 4, month {m}", 900))
        REPLAYS[name] = replay_roundtrip
    obs.append(Ob("monotone", o_monotone, "strict monotonicity from accuracy", 60))
    obs.append(Ob("scenario-seconds", o_scenario_seconds, "scenario seconds round-trip through Julian dates", 300))
    REPLAYS["scenario-seconds"] = replay_sround
    REPLAYS["target-date"] = replay_target_date
    obs.append(Ob("target-date", o_target_date, "getTargetJulianDate data flow", 600))
    for dt in ((1, 60, 300, 3080) if tier == "quick" else (1, 2, 7, 45, 60, 300, 3080, 86400)):
        obs.append(Ob(f"step-count-dt{dt}", (lambda dt: lambda rep: o_step_count(rep, dt))(dt), f"timed run: number of steps, dt={dt}", 600))
        REPLAYS[f"step-count-dt{dt}"] = replay_count
    for dt, out in ((60, 60), (60, 300), (300, 300)) if tier == "quick" else ((60, 60), (60, 300), (300, 300), (1, 60), (3080, 3080), (45, 90)):
        obs.append(Ob(f"loop-dt{dt}-out{out}", (lambda dt, out: lambda rep: o_loop(rep, dt, out))(dt, out), f"timed run: loop unrolled, dt={dt}, output step={out}", 600))
    obs.append(Ob("tdmodel", o_tdmodel, "timedelta(float hours) model agrees with CPython's constructor on pinned values", 300))
    for q, nmax, dt in (RUN_HOURS_QUICK if tier == "quick" else RUN_HOURS_ALL):
        name = f"run-hours-q{q}-dt{dt}"
        obs.append(Ob(name, (lambda q, nmax, dt: lambda rep: o_run_hours(rep, q, nmax, dt))(q, nmax, dt), f"runResonaate(sim_time_hours = n/{q}) makes floor(D/dt) steps, dt={dt}", 900))
        REPLAYS[name] = replay_run_hours
    return obs


obligations("thorough")  # fills REPLAYS for `--replay` (which does not build the obligation list)
