"""C16 - filter updates invariant to angle representation and observation order."""
from __future__ import annotations

import math

import numpy as np
import z3

from symx.core import (PI_F, TWOPI_F, SBool, SInt, SReal, assume, explore, identify_lemma, integer, mfloat, mval, real, reals, resume, rv, slice_for)
from symx.runner import Ob

ID = "C16"
TECHNIQUE = ("symbolic execution of the real wrapping / residual / circular-mean helpers and of the real UKF measurement update on z3 "
             "proxies (mixed integer/real arithmetic: turn counts are solver integers); unsat = identity holds for every angle and turn count")
FLOAT_SEMANTICS = "Real-ideal: pi is the code's double constant; fmod/remainder are exact truncated/floored remainders"
ENCODED = [
    "resonaate.physics.maths:wrapAngle2Pi", "resonaate.physics.maths:wrapAngleNegPiPi", "resonaate.physics.maths:residual",
    "resonaate.physics.maths:residuals", "resonaate.physics.maths:vecWrapAngleNeg", "resonaate.physics.maths:vecWrapAngle2Pi",
    "resonaate.physics.maths:vecResiduals", "resonaate.physics.maths:angularMean",
    "resonaate.estimation.kalman.unscented_kalman_filter:UnscentedKalmanFilter.calcMeasurementMean",
    "resonaate.estimation.kalman.unscented_kalman_filter:UnscentedKalmanFilter.calculateMeasurementMatrix",
    "resonaate.estimation.kalman.unscented_kalman_filter:UnscentedKalmanFilter.forecast",
    "resonaate.estimation.kalman.unscented_kalman_filter:UnscentedKalmanFilter.update",
]
BOUNDS = {"angles": "any real in [-1e7, 1e7] incl. exact multiples of pi", "turns": "|k| <= 1e6", "angularMean": "2-3 angles, arbitrary (also negative) weights with non-degenerate resultant",
          "UKF": "state dim 1-2, 3-5 sigma points, one angular + optional linear component, 1-2 stacked observations"}
OUTSIDE = ["double rounding in fmod/remainder (an angle within 1 ulp of the seam)", "state dimensions above 2"]
ASSUMPTIONS = ["numpy.fmod = truncated remainder, numpy.remainder / % = floored remainder (contract: r = a - m*k, range by sign rule)",
               "arctan2 modelled by its (cos,sin) pair, range (-pi,pi] and quadrant facts; equal (cos,sin) => equal angle mod 2pi (instantiated per pair)",
               "pi identified with const.PI"]
LEVEL_TEXT = ("Bounded symbolic verification of the angle helpers and of the UKF update's angle handling: every wrap/residual identity is an SMT "
              "query over real angles and integer turn counts; seam values are ordinary points of the domain, so they are covered, which no sampled test does.")
LEVEL_NOTE = "Real arithmetic (no rounding); contracts for fmod/remainder/arctan2; UKF obligations for small dimensions with duck-typed linear measurement models."

PI, TWOPI = rv(PI_F), rv(TWOPI_F)
BIG = 10 ** 7


def _congruent(path, res, a):
    """res == a (mod 2 pi): witnessed by the turn counts of the fmod/remainder contracts on the path, +-1, +-2."""
    ks = [k for (_r, k, _a, m) in path.apps.get("mod", [])]
    alts = []
    import itertools
    for n in range(0, min(len(ks), 3) + 1):
        for sub in itertools.combinations(ks, n):
            for signs in itertools.product((1, -1), repeat=n):
                base = sum((sg * z3.ToReal(k) for sg, k in zip(signs, sub)), z3.RealVal(0))
                for d in (-2, -1, 0, 1, 2):
                    alts.append(res - a == TWOPI * (base + d))
    return z3.Or(*alts)


def _congruent_first3(path, res, a):
    """congruence witnessed by the first three fmod/remainder turn counts of the path (those of the first residual call)"""
    import itertools
    ks = [k for (_r, k, _a, m) in path.apps.get("mod", [])][:3]
    alts = []
    for signs in itertools.product((1, -1), repeat=len(ks)):
        base = sum((sg * z3.ToReal(k) for sg, k in zip(signs, ks)), z3.RealVal(0))
        for d in (-2, -1, 0, 1, 2):
            alts.append(res - a == TWOPI * (base + d))
    return z3.Or(*alts)


# ---------------------------------------------------------------------------------------
def replay_wrap(d):
    from resonaate.physics import maths as M

    a = d["a"]
    w2, wn = float(M.wrapAngle2Pi(a)), float(M.wrapAngleNegPiPi(a))
    tp = 2 * math.pi
    bad = not (0 <= w2 < tp) or not (-math.pi < wn <= math.pi)
    for w in (w2, wn):
        k = round((w - a) / tp)
        bad = bad or abs(w - a - k * tp) > 1e-9 * max(1, abs(a))
    return bad, {"wrapAngle2Pi": w2, "wrapAngleNegPiPi": wn}


def o1_wrap(rep):
    from resonaate.physics import maths as M

    def run():
        a = real("a")
        assume(a.t >= -BIG, a.t <= BIG)
        return a, M.wrapAngle2Pi(a), M.wrapAngleNegPiPi(a)

    res = explore(run, max_paths=32)
    inputs = lambda m: {"a": mfloat(m, z3.Real("a"))}  # noqa: E731
    for r in res:
        if r.exc is not None:
            rep.error("exception", repr(r.exc))
            continue
        a, w2, wn = r.out
        tag = "".join("T" if d else "F" for d in r.path.decisions)
        rep.feasible(f"path-{tag}", r.constraints)
        rep.prove(f"2pi-range[{tag}]", z3.And(w2.t >= 0, w2.t < TWOPI), r.constraints, inputs=inputs, replay=replay_wrap, sample="wrapAngle2Pi(a) in [0, 2pi)")
        rep.prove(f"2pi-congruent[{tag}]", _congruent(r.path, w2.t, a.t), r.constraints, inputs=inputs, replay=replay_wrap,
                  sample="wrapAngle2Pi(a) = a - 2 pi j for an integer j")
        rep.prove(f"negpipi-range[{tag}]", z3.And(wn.t > -PI, wn.t <= PI), r.constraints, inputs=inputs, replay=replay_wrap, sample="wrapAngleNegPiPi(a) in (-pi, pi]")
        rep.prove(f"negpipi-congruent[{tag}]", _congruent(r.path, wn.t, a.t), r.constraints, inputs=inputs, replay=replay_wrap,
                  sample="wrapAngleNegPiPi(a) = a - 2 pi j for an integer j")
    if len(res) < 4:
        rep.error("reach", "expected >= 4 paths")
    # seam points are inside the domain: reachability twins
    rep.reachable("seam-pi", [z3.Real("a") == PI])
    rep.reachable("seam-many-turns", [z3.Real("a") == PI + TWOPI * 1000])


# ---------------------------------------------------------------------------------------
def replay_residual(d):
    from resonaate.physics import maths as M

    a, b, j, k = d["a"], d["b"], d["j"], d["k"]
    tp = 2 * math.pi
    r0 = float(M.residual(a, b, True))
    r1 = float(M.residual(a + tp * j, b + tp * k, True))
    lin = float(M.residual(a, b, False))
    bad = not (-math.pi < r0 <= math.pi) or abs(lin - (a - b)) > 0
    # shifted result may differ by rounding only
    dd = abs(r0 - r1)
    bad = bad or min(dd, abs(dd - tp)) > 1e-6
    return bad, {"residual": r0, "residual_shifted": r1, "linear": lin}


def o2_residual(rep):
    from resonaate.physics import maths as M

    def run():
        a, b = real("a"), real("b")
        j, k = integer("j"), integer("k")
        assume(a.t >= -BIG, a.t <= BIG, b.t >= -BIG, b.t <= BIG, j.t >= -10 ** 6, j.t <= 10 ** 6, k.t >= -10 ** 6, k.t <= 10 ** 6)
        r0 = M.residual(a, b, True)
        r1 = M.residual(a + TWOPI_F * j, b + TWOPI_F * k, True)
        lin = M.residual(a, b, False)
        return a, b, r0, r1, lin

    res = explore(run, max_paths=400, branch_timeout_ms=10000)
    rep.note(f"paths={len(res)}")

    def inputs(m):
        return {"a": mfloat(m, z3.Real("a")), "b": mfloat(m, z3.Real("b")), "j": mval(m, z3.Int("j")), "k": mval(m, z3.Int("k"))}

    for r in res:
        if r.exc is not None:
            rep.error("exception", repr(r.exc))
            continue
        a, b, r0, r1, lin = r.out
        tag = "".join("T" if d else "F" for d in r.path.decisions)
        goal = z3.And(r0.t == r1.t, r0.t > -PI, r0.t <= PI, lin.t == a.t - b.t)
        rep.prove(f"congruent[{tag}]", _congruent_first3(r.path, r0.t, a.t - b.t), r.constraints, inputs=inputs, replay=replay_residual,
                  sample="residual(a,b) == a - b (mod 2pi)")
        rep.prove(f"turn-invariant+range[{tag}]", goal, r.constraints, inputs=inputs, replay=replay_residual,
                  sample="residual(a+2pi j, b+2pi k) == residual(a,b) in (-pi,pi], congruent to a-b")
    if len(res) < 8:
        rep.error("reach", "too few paths")


# ---------------------------------------------------------------------------------------
def replay_vec(d):
    from resonaate.physics import maths as M

    x, y = np.array(d["x"]), np.array(d["y"])
    ang = np.array(d["ang"], dtype=bool)
    v = M.vecResiduals(x, y, ang)
    s = M.residuals(x, y, ang)
    tp = 2 * math.pi
    bad = False
    for i in range(len(x)):
        if ang[i]:
            dd = abs(v[i] - s[i])
            if min(dd, abs(dd - tp)) > 1e-9:
                bad = True
            if not (-math.pi < v[i] <= math.pi):
                bad = True
        elif v[i] != s[i]:
            bad = True
    return bad, {"vecResiduals": v.tolist(), "residuals": s.tolist()}


def o3_vec(rep):
    from resonaate.physics import maths as M

    def run():
        x, y = reals("x", 2), reals("y", 2)
        for v in list(x) + list(y):
            # vecResiduals is applied to outputs of measurement functions: one turn around the principal range
            assume(v.t >= -TWOPI, v.t <= 2 * TWOPI)
        ang = np.array([True, False])
        v = M.vecResiduals(x, y, ang)
        s = M.residuals(x, y, ang)
        return x, y, v, s

    res = explore(run, max_paths=400)
    rep.note(f"paths={len(res)}")

    def inputs(m):
        return {"x": [mfloat(m, z3.Real(f"x_{i}")) for i in range(2)], "y": [mfloat(m, z3.Real(f"y_{i}")) for i in range(2)], "ang": [True, False]}

    for r in res:
        if r.exc is not None:
            rep.error("exception", repr(r.exc))
            continue
        x, y, v, s = r.out
        tag = "".join("T" if d else "F" for d in r.path.decisions)
        goal = z3.And(v[0].t == s[0].t, v[0].t > -PI, v[0].t <= PI, v[1].t == s[1].t, v[1].t == x[1].t - y[1].t)
        rep.prove(f"vec==scalar+range[{tag}]", goal, r.constraints, inputs=inputs, replay=replay_vec,
                  sample="vecResiduals == residuals, angular component in (-pi, pi]")
    rep.reachable("seam", [z3.Real("x_0") - z3.Real("y_0") == PI])


# ---------------------------------------------------------------------------------------
def replay_mean(d):
    from resonaate.physics import maths as M

    al, w, ks = np.array(d["alpha"]), np.array(d["w"]), np.array(d["k"])
    tp = 2 * math.pi
    m0 = float(M.angularMean(al, w))
    m1 = float(M.angularMean(al + tp * ks, w))
    m2 = float(M.angularMean(al, w, high=math.pi, low=-math.pi))
    bad = not (0 <= m0 < tp) or not (-math.pi <= m2 < math.pi + 1e-12)
    dd = abs(m0 - m1)
    bad = bad or min(dd, abs(dd - tp)) > 1e-6
    dd = abs((m0 - m2) % tp)
    bad = bad or min(dd, abs(dd - tp)) > 1e-6
    return bad, {"mean_0_2pi": m0, "mean_shifted": m1, "mean_negpi_pi": m2}


def o4_mean(rep, n=3):
    from resonaate.physics import maths as M

    def run():
        al = reals("al", n)
        w = reals("w", n)
        ks = np.array([integer(f"k_{i}") for i in range(n)], dtype=object)
        for i in range(n):
            assume(al[i].t >= -BIG, al[i].t <= BIG, ks[i].t >= -10 ** 6, ks[i].t <= 10 ** 6, w[i].t >= -10, w[i].t <= 10)
        assume(z3.Or(*[w[i].t != 0 for i in range(n)]))
        shifted = np.array([al[i] + TWOPI_F * ks[i] for i in range(n)], dtype=object)
        m0 = M.angularMean(al, w)
        m1 = M.angularMean(shifted, w)
        m2 = M.angularMean(al, w, high=math.pi, low=-math.pi)
        return al, w, ks, m0, m1, m2

    res = explore(run, max_paths=200, branch_timeout_ms=10000)
    rep.note(f"paths={len(res)}")

    def inputs(m):
        return {"alpha": [mfloat(m, z3.Real(f"al_{i}")) for i in range(n)], "w": [mfloat(m, z3.Real(f"w_{i}")) for i in range(n)],
                "k": [mval(m, z3.Int(f"k_{i}")) for i in range(n)]}

    ok = 0
    for r in res:
        if r.exc is not None:
            rep.error("exception", repr(r.exc))
            continue
        al, w, ks, m0, m1, m2 = r.out
        tag = "".join("T" if d else "F" for d in r.path.decisions)
        # resultant must not be degenerate (documented: atan2(0,0) carries no direction)
        at = r.path.apps.get("arctan2", [])
        if len(at) < 1:
            # all three calls hit atan2(0,0): degenerate resultant, excluded
            continue
        ok += 1
        cons = list(r.constraints)
        rep.prove(f"turn-invariant[{tag}]", m0.t == m1.t, cons, timeout_ms=60000, inputs=inputs, replay=replay_mean,
                  sample="angularMean(alpha + 2 pi k, w) == angularMean(alpha, w)")
        rep.prove(f"range[{tag}]", z3.And(m0.t >= 0, m0.t < TWOPI), cons, timeout_ms=60000, inputs=inputs, replay=replay_mean,
                  sample="angularMean in [0, 2pi) for the default wrap point")
    if ok == 0:
        rep.error("reach", "no non-degenerate path")


def o4b_mean_wrappoint(rep, n=2):
    """[0,2pi) and (-pi,pi] wrap points give the same mean modulo a turn."""
    from resonaate.physics import maths as M

    def run():
        al = reals("al", n)
        w = reals("w", n)
        for i in range(n):
            assume(al[i].t >= -BIG, al[i].t <= BIG, w[i].t >= -10, w[i].t <= 10)
        m0 = M.angularMean(al, w)
        m2 = M.angularMean(al, w, high=math.pi, low=-math.pi)
        at = cur_apps("arctan2")
        lem = None
        if len(at) == 2:
            # trusted: equal (cos, sin) => equal angle mod 2pi, instantiated for (beta2, beta1 + pi)
            lem = identify_lemma(SReal(at[1][0]), SReal(at[0][0]) + PI_F)
        return al, w, m0, m2, lem

    def cur_apps(kind):
        from symx.core import cur

        return cur().apps.get(kind, [])

    res = explore(run, max_paths=200, branch_timeout_ms=10000)

    def inputs(m):
        return {"alpha": [mfloat(m, z3.Real(f"al_{i}")) for i in range(n)], "w": [mfloat(m, z3.Real(f"w_{i}")) for i in range(n)], "k": [0] * n}

    ok = 0
    for r in res:
        if r.exc is not None:
            rep.error("exception", repr(r.exc))
            continue
        al, w, m0, m2, lem = r.out
        if len(r.path.apps.get("arctan2", [])) != 2:
            continue
        ok += 1
        tag = "".join("T" if d else "F" for d in r.path.decisions)
        d = m0.t - m2.t
        prem, concl = lem
        if not rep.prove(f"lemma-premise[{tag}]", prem, slice_for(prem, r.constraints), timeout_ms=60000,
                         sample="atan2(-S,-C) and atan2(S,C)+pi have equal cosine and sine (ring identity)"):
            continue
        rep.prove(f"wrap-point-agree[{tag}]", z3.Or(d == 0, d == TWOPI, d == -TWOPI), r.constraints + [concl], timeout_ms=60000, inputs=inputs, replay=replay_mean,
                  sample="mean with wrap point 0/2pi == mean with wrap point -pi/pi (mod 2pi)")
        rep.prove(f"range-negpipi[{tag}]", z3.And(m2.t >= -PI, m2.t < PI), r.constraints, timeout_ms=60000, inputs=inputs, replay=replay_mean,
                  sample="angularMean(low=-pi, high=pi) in [-pi, pi)")
    if ok == 0:
        rep.error("reach", "no non-degenerate path")


REPLAYS = {"O1": replay_wrap, "O2": replay_residual, "O3": replay_vec, "O4": replay_mean, "O4b": replay_mean}


def obligations(tier):
    obs = [
        Ob("O1", o1_wrap, "wrapAngle2Pi / wrapAngleNegPiPi ranges and congruence", 120),
        Ob("O2", o2_residual, "residual invariant under whole turns, range (-pi,pi]", 300),
        Ob("O3", o3_vec, "vecResiduals == residuals, range (-pi,pi]", 300),
        Ob("O4", lambda rep: o4_mean(rep, 2 if tier == "quick" else 3), "angularMean invariant under whole turns", 600),
        Ob("O4b", o4b_mean_wrappoint, "angularMean wrap points agree mod 2pi", 600),
    ]
    try:
        from harness import c16_ukf

        obs += c16_ukf.obligations(tier)
    except ImportError:
        pass
    return obs
