#!/bin/sh
# dev/self-test helper: run one property's check against a scratch worktree of /repo with a seeded patch applied.
#   tools/seedrun.sh C14 /verif/seeded/C14a/patch.diff [tier]
# The worktree lives under /tmp and is removed afterwards; evidence/replays are redirected so that the
# committed evidence (which must come from /repo itself) is not touched.
ID=$1; PATCH=$2; TIER=${3:-quick}
WT=/tmp/seedwt_$$_$ID
git -C /repo worktree add -q --detach $WT HEAD || exit 3
( cd $WT && git apply "$PATCH" ) || { git -C /repo worktree remove --force $WT; echo "PATCH DOES NOT APPLY"; exit 3; }
OUT=/tmp/seedout_$$; mkdir -p $OUT
cd /verif
VERIF_EVIDENCE_DIR=$OUT VERIF_REPLAY_DIR=$OUT/replays PYTHONDONTWRITEBYTECODE=1 PYTHONPATH=/verif/.deps:/verif:$WT/src /venv/bin/python -m symx.runner $ID --tier $TIER 2>&1 | grep -E "^(VIOLATION|KNOWN-FINDING|HARNESS-ERROR|UNDECIDED|  obligation|C[0-9]+ )" | cut -c1-600
RC=$?
git -C /repo worktree remove --force $WT
rm -rf $OUT
