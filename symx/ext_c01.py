"""symx.ext_c01: helpers of the C01 harness (nothing here is specific to one patch).

Tolerance comparisons on symbolic doubles
-----------------------------------------
`math.isclose` / `numpy.isclose` / `numpy.allclose` cannot run on proxies (`math.isclose` calls `float()`, numpy's
calls the ufunc `isfinite`, which has no object-dtype loop).  Code that asks "is this event at the current time?" through one
of them would only produce a harness error.  Whenever one of the analysed modules binds one of these functions (directly, or
through `import math` / `import numpy as np`), the binding is shadowed by the function's *documented* semantics evaluated with the
double operations of symx.fp, as ONE solver term (the calling `if` then forks on it like on any other comparison):

    math.isclose(a, b, rel_tol=1e-9, abs_tol=0.0)   = a == b  or  |b - a| <= |rel_tol * b|  or  |b - a| <= |rel_tol * a|  or  |b - a| <= abs_tol
                                                      (CPython Modules/mathmodule.c; = |a-b| <= max(rel_tol * max(|a|,|b|), abs_tol))
    numpy.isclose(a, b, rtol=1e-5, atol=1e-8)       = a == b  or  |a - b| <= atol + rtol * |b|            (numpy/_core/numeric.py; finite operands)

All subtractions / products are the rounded double operations of SFloat (relaxed or exact according to fp.MODE).
"""
from __future__ import annotations

import math

import numpy as np
import z3

from . import fp
from .core import SBool, SInt, SReal
from .stubs import shadow


def _is_sym(x):
    return isinstance(x, (fp.SFloat, SInt, SReal))


class _RealOps:
    """Operands of the Real-ideal engine (symx.core.SReal): the defining formulas are evaluated in exact real arithmetic."""

    def __init__(self, x):
        self.x = x if isinstance(x, SReal) else SReal(x)
        self.hi = 0  # tolerances are concrete and checked by the caller's own code

    def _w(self, o):
        return o.x if isinstance(o, _RealOps) else o

    def __sub__(self, o):
        return _RealOps(self.x - self._w(o))

    def __add__(self, o):
        return _RealOps(self.x + self._w(o))

    def __mul__(self, o):
        return _RealOps(self.x * self._w(o))

    def __abs__(self):
        t = self.x.t
        return _RealOps(SReal(z3.If(t >= 0, t, -t)))

    def __eq__(self, o):
        return SBool(self.x.t == self._w(o).t)

    def __le__(self, o):
        return SBool(self.x.t <= self._w(o).t)

    __hash__ = None


def _lift(x, real=False):
    if isinstance(x, SReal) or real:
        return _RealOps(x)
    if isinstance(x, SInt):
        raise fp.Unsupported("isclose of a symbolic integer without enclosure")
    r = fp.SFloat.lift(x)
    if r is None:
        raise fp.Unsupported(f"isclose operand {type(x).__name__}")
    return r


def _bt(c):
    """z3 Bool term of a comparison result (SBool or a python bool decided by the static enclosures)."""
    return c.t if isinstance(c, SBool) else z3.BoolVal(bool(c))


def fp_math_isclose(a, b, *, rel_tol=1e-09, abs_tol=0.0):
    if not any(_is_sym(v) for v in (a, b, rel_tol, abs_tol)):
        return math.isclose(a, b, rel_tol=rel_tol, abs_tol=abs_tol)
    real = any(isinstance(v, SReal) for v in (a, b))
    a, b, r, t = _lift(a, real), _lift(b, real), _lift(rel_tol, real), _lift(abs_tol, real)
    if r.hi < 0 or t.hi < 0:
        raise ValueError("tolerances must be non-negative")
    diff = abs(b - a)
    c = z3.Or(_bt(a == b), _bt(diff <= abs(r * b)), _bt(diff <= abs(r * a)), _bt(diff <= t))
    return SBool(z3.simplify(c))


def _np_isclose1(a, b, rtol, atol):
    real = any(isinstance(v, SReal) for v in (a, b))
    a, b, r, t = _lift(a, real), _lift(b, real), _lift(rtol, real), _lift(atol, real)
    return SBool(z3.simplify(z3.Or(_bt(a == b), _bt(abs(a - b) <= t + r * abs(b)))))


def _has_sym(*xs):
    for x in xs:
        if _is_sym(x):
            return True
        if isinstance(x, np.ndarray) and x.dtype == object and any(_is_sym(v) for v in x.flat):
            return True
        if isinstance(x, (list, tuple)) and any(_has_sym(v) for v in x):
            return True
    return False


def fp_np_isclose(a, b, rtol=1e-05, atol=1e-08, equal_nan=False):
    if not _has_sym(a, b, rtol, atol):
        return np.isclose(a, b, rtol=rtol, atol=atol, equal_nan=equal_nan)
    arrs = np.broadcast_arrays(*[np.asarray(v, dtype=object) for v in (a, b, rtol, atol)])
    out = np.empty(arrs[0].shape, dtype=object)
    for idx in np.ndindex(*out.shape):
        out[idx] = _np_isclose1(*[v[idx] for v in arrs])
    return out[()]


def fp_np_allclose(a, b, rtol=1e-05, atol=1e-08, equal_nan=False):
    r = fp_np_isclose(a, b, rtol=rtol, atol=atol, equal_nan=equal_nan)
    flat = list(np.asarray(r, dtype=object).flat)
    if not any(isinstance(v, SBool) for v in flat):
        return bool(np.all(r))
    return SBool(z3.simplify(z3.And(*[_bt(v) for v in flat])))


class ModView:
    """Stands for a module object (`import math`, `import numpy as np`) with some attributes replaced."""

    def __init__(self, mod, **over):
        self.__dict__["_mod"], self.__dict__["_over"] = mod, over

    def __getattr__(self, name):
        over = self.__dict__["_over"]
        return over[name] if name in over else getattr(self.__dict__["_mod"], name)


def closeness_names(mod):
    """{global name: replacement} for every binding of the module to math.isclose / numpy.isclose / numpy.allclose or to the
    modules `math` / `numpy` themselves.  Empty when the module uses none of them (nothing is shadowed then)."""
    model = {id(math.isclose): fp_math_isclose, id(np.isclose): fp_np_isclose, id(np.allclose): fp_np_allclose}
    spaces = {id(math): lambda: ModView(math, isclose=fp_math_isclose), id(np): lambda: ModView(np, isclose=fp_np_isclose, allclose=fp_np_allclose)}
    out = {}
    for name, val in list(vars(mod).items()):
        if name.startswith("__"):
            continue
        if id(val) in model:
            out[name] = model[id(val)]
        elif id(val) in spaces:
            out[name] = spaces[id(val)]()
    return out


def closeness_shadows(modules):
    """shadow() context managers for closeness_names of each module."""
    return [shadow(m, **names) for m in modules for names in [closeness_names(m)] if names]
