"""Regenerates MANIFEST.json from the harness modules that exist (keeps it valid at all times)."""
import importlib, json, os, sys
sys.path[:0] = ["/verif/.deps", "/verif", "/repo/src"]
ALL = [f"C{i:02d}" for i in range(1, 21)]
NA_REASON = {}
try:
    NA_REASON = json.load(open("/verif/not_applicable.json"))
except FileNotFoundError:
    pass
CLAIMED = set(open("/verif/claimed.txt").read().split())  # properties whose harness is finished and committed
checks, na = [], []
for pid in ALL:
    path = f"/verif/harness/{pid.lower()}.py"
    if not os.path.exists(path) or pid in NA_REASON or pid not in CLAIMED:
        na.append({"property_id": pid, "reason": NA_REASON.get(pid, "check not built yet in this round (solver-based harness pending); nothing is claimed")})
        continue
    h = importlib.import_module(f"harness.{pid.lower()}")
    checks.append({
        "property_id": pid,
        "quick_cmd": f"./check {pid} --tier quick",
        "thorough_cmd": f"./check {pid} --tier thorough",
        "evidence_file": f"/verif/evidence/{pid}.json",
        "replay_cmd_template": f"./check {pid} --replay {{path}}",
        "engine": "symx",
        "level_claimed": {"category": "other", "text": h.LEVEL_TEXT, "design_ref": f"DESIGN.md section 3, {pid}"},
        "level_note": h.LEVEL_NOTE,
        "technique": getattr(h, "TECHNIQUE_SHORT", "symbolic execution of the real Python functions on z3 proxies; SMT (z3) decides each obligation within stated bounds; counterexamples replayed on the real code"),
    })
m = {
    "version": 1,
    "setup_cmd": "sh -c 'test -d /verif/.deps/z3 || PIP_NO_INDEX=1 /venv/bin/python -m pip install -q --no-index --find-links /opt/veriftools/wheels --target /verif/.deps z3-solver jsonschema'",
    "hooks": {"guard": "RESONAATE_VERIF", "enable": "no source hooks: all instrumentation is module-global shadowing from /verif at run time (the variable is exported by ./check but nothing in /repo reads it)",
              "baseline_off_cmd": "cd /repo && /venv/bin/python -m pytest -ra -q -p no:cacheprovider --timeout=900 --continue-on-collection-errors", "source_commits": [], "add_only": True},
    "engines": [{"name": "symx", "path": "/verif/symx", "serves_properties": [c["property_id"] for c in checks],
                 "kind_free_text": "symbolic execution of the repository's own Python functions on z3-backed proxy values (numpy object arrays, module-global shadowing for stubs), path exploration by re-execution, SMT queries per obligation, counterexample replay on the unmodified code"}],
    "checks": checks,
    "not_applicable": na,
    "notes": "Solver-based checking of the real code only. Exit 0 = held on everything explored; 1 = VIOLATION (replayed on real code); 2 = harness error (nothing claimed). Known findings: /verif/known_findings.json.",
}
json.dump(m, open("/verif/MANIFEST.json", "w"), indent=1)
import jsonschema
jsonschema.validate(m, json.load(open("/root/.vp/MANIFEST.schema.json")))
print("MANIFEST ok:", len(checks), "checks,", len(na), "not applicable")
