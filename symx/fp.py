"""symx.fp: bit-exact IEEE-754 double semantics on top of z3 Real/Int terms.

An SFloat is a z3 Real term that, under the path's constraints, always denotes a
value representable as a double, together with three *static* facts that are
maintained by interval/grid arithmetic:

  lo, hi : Fractions with lo <= value <= hi            (a static enclosure)
  g      : int or None; the value is an integer multiple of 2**g

Every arithmetic result is rn(exact result) with rn = round-to-nearest-even.
rn is *elided* when (grid, magnitude) show the exact result is representable
(|v| <= 2**(g+53)); otherwise it is encoded relationally: fresh r: Real, q: Int
and a disjunction over the binades the enclosure allows of

    2^b <= |e| < 2^(b+1)  and  r = q*2^(b-52)  and  |e - r| <= 2^(b-53)  and  (tie => q even)

(plus the zero case).  The same exact term always gets the same rounded variable
(functional consistency), so two evaluations of one expression are one term.

Validated on every run by harness obligations that pin inputs to constants and
compare the model value with CPython's own float result bit for bit.
Overflow, subnormals, NaN and infinities are outside the supported range
(enclosures are checked to stay within 2**-900 .. 2**900).
"""
from __future__ import annotations

import math
from fractions import Fraction

import numpy as np
import z3

from .core import SBool, SInt, SReal, Unsupported, cur, rv

TWO = Fraction(2)


def _pow2(k):
    return TWO ** k


def _grid_of(fr: Fraction):
    """Largest g with fr an integer multiple of 2^g (fr != 0); denominators must be powers of two."""
    if fr == 0:
        return 10 ** 6  # zero is a multiple of everything
    d = fr.denominator
    if d & (d - 1):
        return None
    g = -(d.bit_length() - 1)
    n = abs(fr.numerator)
    while n % 2 == 0:
        n //= 2
        g += 1
    return g


def _binade(fr: Fraction):
    """floor(log2(|fr|)) for fr != 0."""
    fr = abs(fr)
    b = fr.numerator.bit_length() - fr.denominator.bit_length()
    if _pow2(b) > fr:
        b -= 1
    elif _pow2(b + 1) <= fr:
        b += 1
    return b


def _rn_frac(fr: Fraction, up: bool):
    """A double-representable bound of fr (outward)."""
    if fr == 0:
        return fr
    b = _binade(fr)
    u = _pow2(b - 52)
    q = fr / u
    qi = math.floor(q)
    if qi == q:
        return fr
    return (qi + 1) * u if up else qi * u


class SFloat:
    """A symbolic IEEE double (see module docstring)."""

    __slots__ = ("t", "lo", "hi", "g", "src")

    def __init__(self, t, lo=None, hi=None, g=None):
        self.src = None  # for floor results: id of the term that was floored
        if isinstance(t, SFloat):
            self.t, self.lo, self.hi, self.g, self.src = t.t, t.lo, t.hi, t.g, t.src
            return
        if isinstance(t, (int, float, np.integer, np.floating, Fraction)) and not isinstance(t, bool):
            fr = Fraction(float(t)) if isinstance(t, (float, np.floating)) else Fraction(int(t)) if not isinstance(t, Fraction) else t
            if isinstance(t, (int, np.integer)) and abs(int(t)) > 2 ** 53:
                raise Unsupported("integer constant beyond 2**53")
            self.t, self.lo, self.hi, self.g = rv(fr), fr, fr, _grid_of(fr)
            return
        if isinstance(t, SInt):
            raise Unsupported("SInt -> SFloat needs an enclosure: use fp.from_int(term, lo, hi)")
        self.t = t
        self.lo, self.hi, self.g = Fraction(lo), Fraction(hi), g

    # ---- helpers ------------------------------------------------------------
    @staticmethod
    def lift(x):
        if isinstance(x, SFloat):
            return x
        if isinstance(x, (bool, np.bool_)):
            return SFloat(int(x))
        if isinstance(x, (int, float, np.integer, np.floating, Fraction)):
            return SFloat(x)
        if isinstance(x, np.ndarray) and x.ndim == 0:
            return SFloat.lift(x.item())
        return None

    @property
    def mag(self):
        return max(abs(self.lo), abs(self.hi))

    def is_const(self):
        return self.lo == self.hi

    def is_integer(self):
        return self.g is not None and self.g >= 0

    def _mk(self, e, lo, hi, g, minmag=None):
        """Result of an operation whose exact value is the term e in [lo, hi] on grid g."""
        M = max(abs(lo), abs(hi))
        if M > _pow2(900):
            raise Unsupported("fp: magnitude out of the supported range")
        if g is not None and (M == 0 or M <= _pow2(g + 53)):
            return SFloat(e, lo, hi, g)  # exactly representable: no rounding
        return rn(e, lo, hi, g, minmag)

    # ---- arithmetic -----------------------------------------------------------
    def __add__(self, o):
        o = SFloat.lift(o)
        if o is None:
            return NotImplemented
        g = None if self.g is None or o.g is None else min(self.g, o.g)
        return self._mk(self.t + o.t, self.lo + o.lo, self.hi + o.hi, g)

    __radd__ = __add__

    def __sub__(self, o):
        o = SFloat.lift(o)
        if o is None:
            return NotImplemented
        g = None if self.g is None or o.g is None else min(self.g, o.g)
        if o.src is not None and o.src == self.t.get_id():
            # x - floor(x): in [0, 1), and exactly representable (Sterbenz-type: same grid, smaller magnitude)
            hi = 1 - _pow2(self.g) if self.g is not None and self.g < 0 else Fraction(1)
            return SFloat(self.t - o.t, 0, hi, self.g) if self.g is not None else rn(self.t - o.t, 0, 1, None, None)
        return self._mk(self.t - o.t, self.lo - o.hi, self.hi - o.lo, g)

    def __rsub__(self, o):
        o = SFloat.lift(o)
        if o is None:
            return NotImplemented
        return o.__sub__(self)

    def __neg__(self):
        return SFloat(-self.t, -self.hi, -self.lo, self.g)

    def __pos__(self):
        return self

    def __abs__(self):
        lo = 0 if self.lo <= 0 <= self.hi else min(abs(self.lo), abs(self.hi))
        return SFloat(z3.If(self.t >= 0, self.t, -self.t), lo, self.mag, self.g)

    def __mul__(self, o):
        o = SFloat.lift(o)
        if o is None:
            return NotImplemented
        c = [self.lo * o.lo, self.lo * o.hi, self.hi * o.lo, self.hi * o.hi]
        g = None if self.g is None or o.g is None else self.g + o.g
        if g is not None and g > 10 ** 5:
            g = 10 ** 6
        return self._mk(self.t * o.t, min(c), max(c), g)

    __rmul__ = __mul__

    def __truediv__(self, o):
        o = SFloat.lift(o)
        if o is None:
            return NotImplemented
        if o.lo <= 0 <= o.hi:
            if o.is_const():
                raise ZeroDivisionError("float division by zero")
            raise Unsupported("fp: divisor enclosure contains zero")
        if o.is_const():
            inv = 1 / o.lo
            gi = _grid_of(inv)
            if gi is not None and abs(inv.numerator) == 1:  # power of two: exact scaling
                return self * SFloat(inv)
        c = [self.lo / o.lo, self.lo / o.hi, self.hi / o.lo, self.hi / o.hi]
        # a non-zero quotient is at least (grid of numerator) / (largest divisor) in magnitude
        minmag = None
        if self.g is not None and self.g < 10 ** 5:
            minmag = _pow2(self.g) / o.mag
        return rn(self.t / o.t, min(c), max(c), None, minmag)

    def __rtruediv__(self, o):
        o = SFloat.lift(o)
        if o is None:
            return NotImplemented
        return o.__truediv__(self)

    def __mod__(self, o):
        """Python float %: for integer-valued operands with a positive constant modulus (exact)."""
        o = SFloat.lift(o)
        if o is None:
            return NotImplemented
        if not (self.is_integer() and o.is_integer() and o.is_const() and o.lo > 0):
            raise Unsupported("fp: % is supported for integer values and a positive constant modulus")
        m = int(o.lo)
        return SFloat(z3.ToReal(z3.ToInt(self.t) % m), 0, m - 1, 0)

    def __pow__(self, e):
        if isinstance(e, int) and 0 <= e <= 4:
            r = SFloat(1)
            for _ in range(e):
                r = r * self
            return r
        raise Unsupported("fp: power")

    # ---- comparisons (exact) ----------------------------------------------------
    def _cmp(self, o, f):
        o = SFloat.lift(o)
        if o is None:
            return NotImplemented
        # decided by the static enclosures?  (sound: the enclosures hold on every path)
        all_corner = [f(a, b) for a in (self.lo, self.hi) for b in (o.lo, o.hi)]
        if self.hi < o.lo or self.lo > o.hi:
            if all(all_corner) or not any(all_corner):
                return SBool(z3.BoolVal(bool(all_corner[0])))
        return SBool(f(self.t, o.t))

    def __lt__(self, o):
        return self._cmp(o, lambda a, b: a < b)

    def __le__(self, o):
        return self._cmp(o, lambda a, b: a <= b)

    def __gt__(self, o):
        return self._cmp(o, lambda a, b: a > b)

    def __ge__(self, o):
        return self._cmp(o, lambda a, b: a >= b)

    def __eq__(self, o):
        return self._cmp(o, lambda a, b: a == b)

    def __ne__(self, o):
        return self._cmp(o, lambda a, b: a != b)

    def __hash__(self):
        return hash(self.t)

    def __bool__(self):
        return cur().branch(self.t != 0)

    # ---- integer-ish ----------------------------------------------------------
    def floor(self):
        if self.is_integer():
            return SFloat(self)
        r = SFloat(z3.ToReal(z3.ToInt(self.t)), math.floor(self.lo), math.floor(self.hi), 0)
        r.src = self.t.get_id()
        cur().keep.append(self.t)
        return r

    def trunc(self):
        """int(x) of a float: truncation toward zero (returned as an integer-valued SFloat)."""
        if self.is_integer():
            return SFloat(self)
        t = self.t
        lo = math.floor(self.lo) if self.lo >= 0 else -math.floor(-self.lo)
        hi = math.floor(self.hi) if self.hi >= 0 else -math.floor(-self.hi)
        if self.lo >= 0:
            return SFloat(z3.ToReal(z3.ToInt(t)), lo, hi, 0)
        return SFloat(z3.ToReal(z3.If(t >= 0, z3.ToInt(t), -z3.ToInt(-t))), lo, hi, 0)

    def round_half_even(self):
        """Python's round(x) (no ndigits) / numpy around: nearest integer, ties to even."""
        if self.is_integer():
            return SFloat(self)
        t = self.t
        f = z3.ToInt(t)
        fr = t - z3.ToReal(f)
        half = rv(Fraction(1, 2))
        r = z3.If(fr < half, f, z3.If(fr > half, f + 1, z3.If(f % 2 == 0, f, f + 1)))
        return SFloat(z3.ToReal(r), math.floor(self.lo), math.floor(self.hi) + 1, 0)

    def as_int_term(self):
        if not self.is_integer():
            raise Unsupported("fp: integer value expected")
        return z3.ToInt(self.t)

    def __index__(self):
        return self.concretize()

    def concretize(self):
        """Fork over the feasible values of an integer-valued SFloat."""
        s = z3.simplify(self.t)
        if z3.is_rational_value(s) and s.denominator_as_long() == 1:
            return s.numerator_as_long()
        if not self.is_integer():
            raise Unsupported("fp: concretize of a non-integer")
        return SInt(z3.ToInt(self.t)).concretize()

    def __float__(self):
        raise Unsupported("float() of a symbolic double (shadow `float` in the analysed module)")

    def __int__(self):
        raise Unsupported("int() of a symbolic double (shadow `int` in the analysed module)")

    def __repr__(self):
        return f"SFloat({self.t} in [{float(self.lo)}, {float(self.hi)}] g={self.g})"


def rn(e, lo, hi, g=None, minmag=None):
    """Round the exact real term e (enclosure [lo, hi], grid g or a minimal non-zero magnitude) to double."""
    p = cur()
    es = z3.simplify(e)
    key = ("rn", es.get_id())
    if key in p.trig:
        return SFloat(*p.trig[key])
    p.keep.append(es)
    lo, hi = Fraction(lo), Fraction(hi)
    M = max(abs(lo), abs(hi))
    if M == 0:
        return SFloat(0)
    bmax = _binade(M)
    has_zero = lo <= 0 <= hi
    if not has_zero:
        bmin = _binade(min(abs(lo), abs(hi)))
    else:
        if g is not None and g < 10 ** 5:
            mm = _pow2(g)
        elif minmag is not None:
            mm = Fraction(minmag)
        else:
            raise Unsupported("fp.rn: enclosure contains 0 and no minimal magnitude is known")
        bmin = _binade(mm)
        if _pow2(bmin) > mm:
            bmin -= 1
    if bmin < -900 or bmax > 900:
        raise Unsupported("fp.rn: outside the supported exponent range")
    if bmax - bmin > 80:
        raise Unsupported(f"fp.rn: {bmax - bmin + 1} binades (enclosure too wide)")
    p.fresh += 1
    r = z3.Real(f"rn!{p.fresh}")
    q = z3.Int(f"rq!{p.fresh}")
    ae = z3.If(e >= 0, e, -e) if lo < 0 < hi else (e if lo >= 0 else -e)
    cases = []
    for b in range(bmin, bmax + 1):
        u = rv(_pow2(b - 52))
        hu = rv(_pow2(b - 53))
        d = e - z3.ToReal(q) * u
        ad = z3.If(d >= 0, d, -d)
        cases.append(z3.And(ae >= rv(_pow2(b)), ae < rv(_pow2(b + 1)), r == z3.ToReal(q) * u, ad <= hu, z3.Implies(ad == hu, q % 2 == 0)))
    if has_zero:
        cases.append(z3.And(e == 0, r == 0, q == 0))
    p.assume(z3.Or(*cases))
    rlo, rhi = _rn_frac(lo, False), _rn_frac(hi, True)
    p.assume(z3.And(r >= rv(rlo), r <= rv(rhi)))
    res = (r, rlo, rhi, bmin - 52)
    p.trig[key] = res
    p.apps.setdefault("rn", []).append((r, e))
    return SFloat(*res)


def from_int(t, lo, hi):
    """Integer-valued double from a z3 Int term (or SInt) with a static enclosure."""
    if isinstance(t, SInt):
        t = t.t
    if max(abs(lo), abs(hi)) > 2 ** 53:
        raise Unsupported("integer beyond 2**53")
    return SFloat(z3.ToReal(t), lo, hi, 0)


def fresh_float(name, lo, hi, g):
    """A free double variable that is a multiple of 2^g inside [lo, hi] (constraint added to the path)."""
    p = cur()
    x = z3.Real(name)
    k = z3.Int(name + "!k")
    p.assume(z3.And(x == z3.ToReal(k) * rv(_pow2(g)), x >= rv(Fraction(lo)), x <= rv(Fraction(hi))))
    if max(abs(Fraction(lo)), abs(Fraction(hi))) > _pow2(g + 53):
        raise Unsupported("fresh_float: not every grid point is a double")
    return SFloat(x, lo, hi, g)


# ---- replacements for names the analysed modules use -------------------------------
def fp_floor(x):
    x = SFloat.lift(x)
    return x.floor()


def fp_int(x, *a):
    if isinstance(x, SFloat):
        return x.trunc()
    if isinstance(x, SInt):
        return x
    return int(x, *a)


def fp_round(x, nd=None):
    if isinstance(x, SFloat):
        if nd is not None:
            raise Unsupported("round(x, ndigits) of a symbolic double")
        return x.round_half_even()
    return round(x, nd) if nd is not None else round(x)


def fp_around(x, decimals=0):
    if isinstance(x, SFloat):
        if decimals != 0:
            raise Unsupported("around(x, decimals)")
        return x.round_half_even()
    return np.around(x, decimals)


def fp_float(x=0.0):
    """float(x): strips a float subclass (JulianDate/ScenarioTime) down to the plain double."""
    if isinstance(x, SFloat):
        return SFloat(x.t, x.lo, x.hi, x.g)
    if isinstance(x, SInt):
        raise Unsupported("float(SInt): enclosure unknown")
    return float(x)


def fp_remainder(x, m):
    x = SFloat.lift(x)
    return x % m


def mfloat(model, x):
    """The Python float denoted by an SFloat in a model (exact: the term is a double)."""
    t = x.t if isinstance(x, SFloat) else x
    v = model.eval(t, model_completion=True)
    if z3.is_int_value(v):
        return float(v.as_long())
    if z3.is_rational_value(v):
        fr = Fraction(v.numerator_as_long(), v.denominator_as_long())
        f = float(fr)
        if Fraction(f) != fr:
            raise Unsupported(f"model value {fr} is not a double")
        return f
    raise Unsupported(f"cannot evaluate {t}")
