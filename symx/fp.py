"""symx.fp: bit-exact IEEE-754 double semantics on top of z3 Real/Int terms.

An SFloat is a z3 Real term that, under the path's constraints, always denotes a
value representable as a double, together with three *static* facts that are
maintained by interval/grid arithmetic:

  lo, hi : Fractions with lo <= value <= hi            (a static enclosure)
  g      : int or None; the value is an integer multiple of 2**g

Every arithmetic result is rn(exact result) with rn = round-to-nearest-even.
rn is *elided* when (grid, magnitude) show the exact result is representable
(|v| <= 2**(g+53)); otherwise it is encoded relationally: fresh r: Real, q: Int
and a disjunction over the binades the enclosure allows of

    2^b <= |e| < 2^(b+1)  and  r = q*2^(b-52)  and  |e - r| <= 2^(b-53)  and  (tie => q even)

(plus the zero case).  The same exact term always gets the same rounded variable
(functional consistency), so two evaluations of one expression are one term.

Validated on every run by harness obligations that pin inputs to constants and
compare the model value with CPython's own float result bit for bit.
Overflow, subnormals, NaN and infinities are outside the supported range
(enclosures are checked to stay within 2**-900 .. 2**900).
"""
from __future__ import annotations

import math
from fractions import Fraction

import numpy as np
import z3

from .core import SBool, SInt, SReal, Unsupported, cur, rv

TWO = Fraction(2)


def _pow2(k):
    return TWO ** k


def _grid_of(fr: Fraction):
    """Largest g with fr an integer multiple of 2^g (fr != 0); denominators must be powers of two."""
    if fr == 0:
        return 10 ** 6  # zero is a multiple of everything
    d = fr.denominator
    if d & (d - 1):
        return None
    g = -(d.bit_length() - 1)
    n = abs(fr.numerator)
    while n % 2 == 0:
        n //= 2
        g += 1
    return g


def _binade(fr: Fraction):
    """floor(log2(|fr|)) for fr != 0."""
    fr = abs(fr)
    b = fr.numerator.bit_length() - fr.denominator.bit_length()
    if _pow2(b) > fr:
        b -= 1
    elif _pow2(b + 1) <= fr:
        b += 1
    return b


def _rn_frac(fr: Fraction, up: bool):
    """A double-representable bound of fr (outward)."""
    if fr == 0:
        return fr
    b = _binade(fr)
    u = _pow2(b - 52)
    q = fr / u
    qi = math.floor(q)
    if qi == q:
        return fr
    return (qi + 1) * u if up else qi * u


class SFloat:
    """A symbolic IEEE double (see module docstring)."""

    __slots__ = ("t", "lo", "hi", "g", "src")

    def __init__(self, t, lo=None, hi=None, g=None):
        self.src = None  # for floor results: id of the term that was floored
        if isinstance(t, SFloat):
            self.t, self.lo, self.hi, self.g, self.src = t.t, t.lo, t.hi, t.g, t.src
            return
        if isinstance(t, (int, float, np.integer, np.floating, Fraction)) and not isinstance(t, bool):
            fr = Fraction(float(t)) if isinstance(t, (float, np.floating)) else Fraction(int(t)) if not isinstance(t, Fraction) else t
            if isinstance(t, (int, np.integer)) and abs(int(t)) > 2 ** 53:
                raise Unsupported("integer constant beyond 2**53")
            self.t, self.lo, self.hi, self.g = rv(fr), fr, fr, _grid_of(fr)
            return
        if isinstance(t, SInt):
            raise Unsupported("SInt -> SFloat needs an enclosure: use fp.from_int(term, lo, hi)")
        self.t = t
        self.lo, self.hi, self.g = Fraction(lo), Fraction(hi), g

    # ---- helpers ------------------------------------------------------------
    @staticmethod
    def lift(x):
        if isinstance(x, SFloat):
            return x
        if isinstance(x, (bool, np.bool_)):
            return SFloat(int(x))
        if isinstance(x, (int, float, np.integer, np.floating, Fraction)):
            return SFloat(x)
        if isinstance(x, np.ndarray) and x.ndim == 0:
            return SFloat.lift(x.item())
        return None

    @property
    def mag(self):
        return max(abs(self.lo), abs(self.hi))

    def is_const(self):
        return self.lo == self.hi

    def is_integer(self):
        return self.g is not None and self.g >= 0

    def _mk(self, e, lo, hi, g, minmag=None):
        """Result of an operation whose exact value is the term e in [lo, hi] on grid g."""
        h = cur().trig.get(("encl", z3.simplify(e).get_id()))
        if h is not None:  # a relational enclosure declared (and separately proved) by the harness
            lo, hi = max(lo, h[0]), min(hi, h[1])
        M = max(abs(lo), abs(hi))
        if M > _pow2(900):
            raise Unsupported("fp: magnitude out of the supported range")
        if g is not None and (M == 0 or M <= _pow2(g + 53)):
            return SFloat(e, lo, hi, g)  # exactly representable: no rounding
        return rn(e, lo, hi, g, minmag)

    # ---- arithmetic -----------------------------------------------------------
    def __add__(self, o):
        o = SFloat.lift(o)
        if o is None:
            return NotImplemented
        g = None if self.g is None or o.g is None else min(self.g, o.g)
        return self._mk(self.t + o.t, self.lo + o.lo, self.hi + o.hi, g)

    __radd__ = __add__

    def __sub__(self, o):
        o = SFloat.lift(o)
        if o is None:
            return NotImplemented
        g = None if self.g is None or o.g is None else min(self.g, o.g)
        if o.src is not None and o.src == self.t.get_id():
            # x - floor(x): in [0, 1), and exactly representable (Sterbenz-type: same grid, smaller magnitude)
            hi = 1 - _pow2(self.g) if self.g is not None and self.g < 0 else Fraction(1)
            return SFloat(self.t - o.t, 0, hi, self.g) if self.g is not None else rn(self.t - o.t, 0, 1, None, None)
        return self._mk(self.t - o.t, self.lo - o.hi, self.hi - o.lo, g)

    def __rsub__(self, o):
        o = SFloat.lift(o)
        if o is None:
            return NotImplemented
        return o.__sub__(self)

    def __neg__(self):
        return SFloat(-self.t, -self.hi, -self.lo, self.g)

    def __pos__(self):
        return self

    def __abs__(self):
        lo = 0 if self.lo <= 0 <= self.hi else min(abs(self.lo), abs(self.hi))
        return SFloat(z3.If(self.t >= 0, self.t, -self.t), lo, self.mag, self.g)

    fabs = __abs__
    absolute = __abs__

    def __mul__(self, o):
        o = SFloat.lift(o)
        if o is None:
            return NotImplemented
        c = [self.lo * o.lo, self.lo * o.hi, self.hi * o.lo, self.hi * o.hi]
        g = None if self.g is None or o.g is None else self.g + o.g
        if g is not None and g > 10 ** 5:
            g = 10 ** 6
        return self._mk(self.t * o.t, min(c), max(c), g)

    __rmul__ = __mul__

    def __truediv__(self, o):
        o = SFloat.lift(o)
        if o is None:
            return NotImplemented
        if o.lo <= 0 <= o.hi:
            if o.is_const():
                raise ZeroDivisionError("float division by zero")
            raise Unsupported("fp: divisor enclosure contains zero")
        if o.is_const():
            inv = 1 / o.lo
            gi = _grid_of(inv)
            if gi is not None and abs(inv.numerator) == 1:  # power of two: exact scaling
                return self * SFloat(inv)
        c = [self.lo / o.lo, self.lo / o.hi, self.hi / o.lo, self.hi / o.hi]
        # a non-zero quotient is at least (grid of numerator) / (largest divisor) in magnitude
        minmag = None
        if self.g is not None and self.g < 10 ** 5:
            minmag = _pow2(self.g) / o.mag
        return rn(self.t / o.t, min(c), max(c), None, minmag)

    def __rtruediv__(self, o):
        o = SFloat.lift(o)
        if o is None:
            return NotImplemented
        return o.__truediv__(self)

    def __mod__(self, o):
        """Python float %: for integer-valued operands with a positive constant modulus (exact)."""
        o = SFloat.lift(o)
        if o is None:
            return NotImplemented
        if not (self.is_integer() and o.is_integer() and o.is_const() and o.lo > 0):
            raise Unsupported("fp: % is supported for integer values and a positive constant modulus")
        m = int(o.lo)
        return SFloat(z3.ToReal(z3.ToInt(self.t) % m), 0, m - 1, 0)

    def __pow__(self, e):
        if isinstance(e, int) and 0 <= e <= 4:
            r = SFloat(1)
            for _ in range(e):
                r = r * self
            return r
        raise Unsupported("fp: power")

    # ---- comparisons (exact) ----------------------------------------------------
    def _cmp(self, o, f):
        o = SFloat.lift(o)
        if o is None:
            return NotImplemented
        # decided by the static enclosures?  (sound: the enclosures hold on every path)
        all_corner = [f(a, b) for a in (self.lo, self.hi) for b in (o.lo, o.hi)]
        if self.hi < o.lo or self.lo > o.hi:
            if all(all_corner) or not any(all_corner):
                return SBool(z3.BoolVal(bool(all_corner[0])))
        return SBool(f(self.t, o.t))

    def __lt__(self, o):
        return self._cmp(o, lambda a, b: a < b)

    def __le__(self, o):
        return self._cmp(o, lambda a, b: a <= b)

    def __gt__(self, o):
        return self._cmp(o, lambda a, b: a > b)

    def __ge__(self, o):
        return self._cmp(o, lambda a, b: a >= b)

    def __eq__(self, o):
        return self._cmp(o, lambda a, b: a == b)

    def __ne__(self, o):
        return self._cmp(o, lambda a, b: a != b)

    def __hash__(self):
        return hash(self.t)

    def __bool__(self):
        return cur().branch(self.t != 0)

    # ---- integer-ish ----------------------------------------------------------
    def floor(self):
        if self.is_integer():
            return SFloat(self)
        r = SFloat(z3.ToReal(int_floor(self.t)), math.floor(self.lo), math.floor(self.hi), 0)
        r.src = self.t.get_id()
        cur().keep.append(self.t)
        return r

    def trunc(self):
        """int(x) of a float: truncation toward zero (returned as an integer-valued SFloat)."""
        if self.is_integer():
            return SFloat(self)
        t = self.t
        lo = math.floor(self.lo) if self.lo >= 0 else -math.floor(-self.lo)
        hi = math.floor(self.hi) if self.hi >= 0 else -math.floor(-self.hi)
        if self.lo >= 0:
            return SFloat(z3.ToReal(int_floor(t)), lo, hi, 0)
        return SFloat(z3.ToReal(z3.If(t >= 0, int_floor(t), -int_floor(-t))), lo, hi, 0)

    def round_half_even(self):
        """Python's round(x) (no ndigits) / numpy around: nearest integer, ties to even (relational: fresh Int)."""
        if self.is_integer():
            return SFloat(self)
        p = cur()
        key = ("rhe", z3.simplify(self.t).get_id())
        if key not in p.trig:
            p.fresh += 1
            n = z3.Int(f"rnd!{p.fresh}")
            d = self.t - z3.ToReal(n)
            half = rv(Fraction(1, 2))
            _define(p, n, z3.And(d <= half, d >= -half, z3.Implies(z3.Or(d == half, d == -half), n % 2 == 0)))
            p.trig[key] = n
            p.keep.append(z3.simplify(self.t))
        return SFloat(z3.ToReal(p.trig[key]), math.floor(self.lo), math.floor(self.hi) + 1, 0)

    def as_int_term(self):
        if not self.is_integer():
            raise Unsupported("fp: integer value expected")
        return z3.ToInt(self.t)

    def __index__(self):
        return self.concretize()

    def concretize(self):
        """Fork over the feasible values of an integer-valued SFloat."""
        s = z3.simplify(self.t)
        if z3.is_rational_value(s) and s.denominator_as_long() == 1:
            return s.numerator_as_long()
        if not self.is_integer():
            raise Unsupported("fp: concretize of a non-integer")
        return SInt(z3.ToInt(self.t)).concretize()

    def __float__(self):
        raise Unsupported("float() of a symbolic double (shadow `float` in the analysed module)")

    def __int__(self):
        raise Unsupported("int() of a symbolic double (shadow `int` in the analysed module)")

    def __repr__(self):
        return f"SFloat({self.t} in [{float(self.lo)}, {float(self.hi)}] g={self.g})"


def _define(p, var, c):
    """Add a constraint that *defines* the fresh variable `var` (used by sliced() to drop definitions nothing depends on)."""
    p.assume(c)
    p.apps.setdefault("fpdef", []).append((str(var), p.assumes[-1]))


def sliced(path, goal, extra=()):
    """The path's constraints without the definitions of fresh rounding/floor variables that neither the goal, the path
    condition nor the harness's own assumptions (transitively) mention.  Dropping hypotheses is sound for proving."""
    from .core import free_vars

    defs = {}
    for v, c in path.apps.get("fpdef", []):
        defs.setdefault(v, []).append(c)
    def_ids = {c.get_id() for cs in defs.values() for c in cs}
    keep = [c for c in path.constraints() if c.get_id() not in def_ids]
    seen, todo = set(), set()
    for t in [goal, *keep, *extra]:
        todo |= free_vars(t)
    out = list(keep)
    while todo:
        v = todo.pop()
        if v in seen:
            continue
        seen.add(v)
        for c in defs.get(v, []):
            out.append(c)
            todo |= free_vars(c) - seen
    return out


MODE = ["exact"]  # "exact": relational round-to-nearest-even; "relaxed": |r - e| <= half an ulp of the largest binade (sound over-approximation)


class mode:
    """with fp.mode("relaxed"): ... selects the rounding encoding for the code run inside."""

    def __init__(self, m):
        assert m in ("exact", "relaxed")
        self.m = m

    def __enter__(self):
        self.prev = MODE[0]
        MODE[0] = self.m

    def __exit__(self, *a):
        MODE[0] = self.prev
        return False


def rn(e, lo, hi, g=None, minmag=None):
    """Round the exact real term e (enclosure [lo, hi], grid g or a minimal non-zero magnitude) to double."""
    p = cur()
    es = z3.simplify(e)
    if z3.is_rational_value(es):  # constant folding: CPython's own rounding
        fr = Fraction(es.numerator_as_long(), es.denominator_as_long())
        return SFloat(float(fr))
    key = ("rn", es.get_id())
    if key in p.trig:
        return SFloat(*p.trig[key])
    p.keep.append(es)
    lo, hi = Fraction(lo), Fraction(hi)
    M = max(abs(lo), abs(hi))
    if M == 0:
        return SFloat(0)
    bmax = _binade(M)
    has_zero = lo <= 0 <= hi
    if not has_zero:
        bmin = _binade(min(abs(lo), abs(hi)))
    else:
        if g is not None and g < 10 ** 5:
            mm = _pow2(g)
        elif minmag is not None:
            mm = Fraction(minmag)
        else:
            raise Unsupported("fp.rn: enclosure contains 0 and no minimal magnitude is known")
        bmin = _binade(mm)
    if bmin < -900 or bmax > 900:
        raise Unsupported("fp.rn: outside the supported exponent range")
    rlo, rhi = _rn_frac(lo, False), _rn_frac(hi, True)
    p.fresh += 1
    if MODE[0] == "relaxed" or bmax - bmin > 64:
        # (also used in exact mode for operations spanning more than 64 binades: still sound, only weaker)
        # every double result differs from the exact one by at most half an ulp of its own binade <= half an ulp of the largest
        r = z3.Real(f"rx!{p.fresh}")
        hu = rv(_pow2(bmax - 53))
        _define(p, r, z3.And(r - e <= hu, e - r <= hu, r >= rv(rlo), r <= rv(rhi)))
        if M <= 2 ** 53:
            # integers below 2^53 are doubles and rounding is monotone: floor(e) <= rn(e) <= ceil(e), and rn(e) = e when e is an integer
            _define(p, r, z3.And(r >= z3.ToReal(int_floor(e)), r <= -z3.ToReal(int_floor(-e))))
    else:
        r = z3.Real(f"rn!{p.fresh}")
        q = z3.Int(f"rq!{p.fresh}")
        ae = z3.If(e >= 0, e, -e) if lo < 0 < hi else (e if lo >= 0 else -e)
        cases = []
        for b in range(bmin, bmax + 1):
            u = rv(_pow2(b - 52))
            hu = rv(_pow2(b - 53))
            d = e - z3.ToReal(q) * u
            ad = z3.If(d >= 0, d, -d)
            cases.append(z3.And(ae >= rv(_pow2(b)), ae < rv(_pow2(b + 1)), r == z3.ToReal(q) * u, ad <= hu, z3.Implies(ad == hu, q % 2 == 0)))
        if has_zero:
            cases.append(z3.And(e == 0, r == 0, q == 0))
        _define(p, r, z3.Or(*cases))
        _define(p, r, z3.And(r >= rv(rlo), r <= rv(rhi)))
    res = (r, rlo, rhi, bmin - 52)
    p.trig[key] = res
    p.apps.setdefault("rn", []).append((r, e))
    return SFloat(*res)


def declare_enclosure(e, lo, hi):
    """Relational enclosure for an exact term that interval arithmetic cannot see (e.g. the difference of two
    dates that the assumptions keep close).  It is *also* added as a constraint, so it can never enlarge the set of
    behaviours; the harness proves that it follows from its other assumptions (no vacuity)."""
    p = cur()
    es = z3.simplify(e)
    p.keep.append(es)
    p.trig[("encl", es.get_id())] = (Fraction(lo), Fraction(hi))
    p.assume(z3.And(e >= rv(Fraction(lo)), e <= rv(Fraction(hi))))
    return z3.And(e >= rv(Fraction(lo)), e <= rv(Fraction(hi)))


def int_floor(e):
    """z3 Int term equal to floor(e).  When e is a rational-linear form over integer-valued atoms the defining
    inequalities are stated over the integers (L*fl <= L*e < L*fl + L with L clearing the denominators): z3 decides those
    at once, whereas the same fact phrased through to_int/to_real of a quotient sends it into a long search (measured)."""
    from .core import _lin

    p = cur()
    es = z3.simplify(e)
    if z3.is_rational_value(es):
        return z3.IntVal(math.floor(Fraction(es.numerator_as_long(), es.denominator_as_long())))
    key = ("ifloor", es.get_id())
    if key in p.trig:
        return p.trig[key]
    p.keep.append(es)
    atoms, const = _lin(es)
    ints = []
    ok = True
    for _i, (term, c) in atoms.items():
        if z3.is_app(term) and term.decl().kind() == z3.Z3_OP_TO_REAL:
            ints.append((term.children()[0], c))
        elif term.sort() == z3.IntSort():
            ints.append((term, c))
        else:
            ok = False
            break
    if not ok:
        res = z3.ToInt(e)
    else:
        L = 1
        for _t, c in ints:
            L = L * c.denominator // math.gcd(L, c.denominator)
        L = L * const.denominator // math.gcd(L, const.denominator)
        p.fresh += 1
        fl = z3.Int(f"fl!{p.fresh}")
        tot = z3.IntVal(0)
        for t, c in ints:
            tot = tot + int(c * L) * t
        # L*const may be fractional only if const's denominator does not divide L (it does, by construction)
        tot = tot + int(const * L)
        _define(p, fl, z3.And(L * fl <= tot, tot < L * fl + L))
        res = fl
    p.trig[key] = res
    return res


def from_int(t, lo, hi):
    """Integer-valued double from a z3 Int term (or SInt) with a static enclosure."""
    if isinstance(t, SInt):
        t = t.t
    if max(abs(lo), abs(hi)) > 2 ** 53:
        raise Unsupported("integer beyond 2**53")
    return SFloat(z3.ToReal(t), lo, hi, 0)


def fresh_float(name, lo, hi, g, encode_grid=True):
    """A free double variable that is a multiple of 2^g inside [lo, hi] (constraint added to the path).
    encode_grid=False leaves the grid out of the SMT encoding (an over-approximation; the static grid fact,
    which is true of the real values, is still used to elide roundings)."""
    p = cur()
    x = z3.Real(name)
    k = z3.Int(name + "!k")
    if encode_grid and MODE[0] == "exact":
        p.assume(x == z3.ToReal(k) * rv(_pow2(g)))
    p.assume(z3.And(x >= rv(Fraction(lo)), x <= rv(Fraction(hi))))
    if max(abs(Fraction(lo)), abs(Fraction(hi))) > _pow2(g + 53):
        raise Unsupported("fresh_float: not every grid point is a double")
    return SFloat(x, lo, hi, g)


# ---- replacements for names the analysed modules use -------------------------------
def fp_floor(x):
    x = SFloat.lift(x)
    return x.floor()


def fp_int(x, *a):
    if isinstance(x, SFloat):
        return x.trunc()
    if isinstance(x, SInt):
        return x
    return int(x, *a)


def fp_round(x, nd=None):
    if isinstance(x, SFloat):
        if nd is not None:
            raise Unsupported("round(x, ndigits) of a symbolic double")
        return x.round_half_even()
    return round(x, nd) if nd is not None else round(x)


def fp_around(x, decimals=0):
    if isinstance(x, SFloat):
        if decimals != 0:
            raise Unsupported("around(x, decimals)")
        return x.round_half_even()
    return np.around(x, decimals)


def fp_float(x=0.0):
    """float(x): strips a float subclass (JulianDate/ScenarioTime) down to the plain double."""
    if isinstance(x, SFloat):
        return SFloat(x.t, x.lo, x.hi, x.g)
    if isinstance(x, SInt):
        raise Unsupported("float(SInt): enclosure unknown")
    return float(x)


def fp_remainder(x, m):
    x = SFloat.lift(x)
    return x % m


def mfloat(model, x):
    """The Python float denoted by an SFloat in a model (exact: the term is a double)."""
    t = x.t if isinstance(x, SFloat) else x
    v = model.eval(t, model_completion=True)
    if z3.is_int_value(v):
        return float(v.as_long())
    if z3.is_rational_value(v):
        fr = Fraction(v.numerator_as_long(), v.denominator_as_long())
        f = float(fr)
        if Fraction(f) != fr:
            raise Unsupported(f"model value {fr} is not a double")
        return f
    raise Unsupported(f"cannot evaluate {t}")
