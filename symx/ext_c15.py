"""Contract stub for ``scipy.integrate.solve_ivp`` (+ ``numpy.spacing``) for symbolic execution of code that
drives the integrator with event functions (Celestial.propagate / propagateBulk restart loops, finite thrusts,
impulses, station keeping).

The adaptive Runge-Kutta stepping itself cannot be encoded; what the calling code depends on is the *event
protocol* of solve_ivp, and that is what this class reproduces, with every quantity the real integrator chooses
freely (number of steps, step end times, the brentq iterate returned as the root, the spacing of a double) left
to the SOLVER as a constrained fresh variable.  The calling code's own callables (right-hand side, event
functions) are the REAL ones and are executed on the symbolic times/states the stub hands them.

Use (inside symx.core.explore / single_path; see harness/c15.py `_World` for the other shadows SpecialPerturbations needs):

    ivp = SolveIvpContract(steps=(2,), max_calls=8, max_retrigger=1)
    with shadow(resonaate.dynamics.celestial, solve_ivp=ivp, spacing=ivp.spacing):      # propagateBulk: also zeros=sym_zeros, array=object array
        x1 = dyn.propagate(t0, t1, x0, scheduled_events=[...])                            # real restart loop, real event objects
    ivp.log   # per call: t0, tf, steps [(t_old, t, derivative)], terminal root, status, active events

Pinned to the installed scipy 1.18.1, /venv/lib/python3.12/site-packages/scipy/integrate/_ivp/ivp.py
(``pin_scipy()`` below compares the SHA-256 of the functions relied on, so that a scipy upgrade that changes
them turns the harness into a harness error instead of silently proving things about another integrator):

  prepare_events        l.29-49   ``terminal`` None/0/False -> max_events = inf; True -> 1; int n -> n;
                                  ``direction`` = getattr(event, 'direction', 0)
  solve_event_equation  l.52-77   root = brentq(lambda t: event(t, sol(t)), t_old, t, xtol=4*EPS, rtol=4*EPS)
  handle_events         l.80-131  roots of ALL active events; if any active event reached its max count the
                                  roots are sorted (ascending for forward integration), everything after the
                                  first terminal one is dropped, terminate = True
  find_active_events    l.134-157 up = (g <= 0) & (g_new >= 0); down = (g >= 0) & (g_new <= 0);
                                  mask = up & (direction > 0) | down & (direction < 0) | (up | down) & (direction == 0)
  solve_ivp             l.651     g = [event(t0, y0) for event in events]         (first evaluation is at t0)
                        l.659-699 per step: status 'finished' -> 0; g_new = [event(t, y) ...] at the step END (l.679);
                                  active events -> event_count += 1 (l.685), handle_events (l.686), t_events /
                                  y_events appended (l.690-692); terminate -> status = 1, t = roots[-1],
                                  y = sol(t) (l.694-697); g = g_new (l.699)
                        l.701-709 without t_eval every step end (or the terminal root) is appended to ts / ys
                        l.711-728 with t_eval: the values t_eval[i] with t_prev < t_eval[i] <= t (searchsorted
                                  side='right') are emitted with the dense output
                        l.758-760 OdeResult(t, y, sol, t_events, y_events, ..., status, message, success=status >= 0)
  rk.py l.138-139 RungeKutta._step_impl: ``if self.direction * (t_new - self.t_bound) > 0: t_new = self.t_bound`` - the last
                                  step ends EXACTLY on tf (this is what makes an event function that is zero only
                                  at one instant fire when that instant is the end of the propagation call).
  scipy.optimize.brentq (C, scipy/optimize/Zeros/brentq.c; documented in scipy.optimize.brentq): evaluates both
                                  end points first and returns the left one if f(a) == 0, else the right one if
                                  f(b) == 0; otherwise iterates on a bracket [xblk, xcur] with f(xblk) f(xcur) < 0
                                  and returns xcur when f(xcur) == 0 or |xblk - xcur| < xtol + rtol |xcur|.

CONTRACT (everything below is an assumption of a harness that uses the stub; the weakest thing the sources above allow,
plus three stated restrictions R1, R2, R3):

  steps      each call takes n steps, n chosen (by forking) from ``steps``; the step ends are fresh solver variables
             t0 < tau_1 < ... < tau_n = tf.
  state      one explicit stage per step: y_new = y_old + (t - t_old) * fun(t_old, y_old); dense output linear in
             between.  (Numerical accuracy of RK45 is outside every claim made with this stub; callers use the state
             only to carry what the right-hand side returned, e.g. whether a thrust term was in it.)
  events     exactly the protocol above.  Root of an active event, by the brentq facts:
               g(t_old) == 0                      -> root = t_old
               g(t) == 0                          -> root = t
               strict sign change                 -> fresh ra <= root <= rb inside [t_old, t] with
                                                     rb - ra <= 4 EPS (1 + |root|) + plateau, sign g(ra) = sign g(t_old),
                                                     sign g(rb) = sign g(t) (both strict; the REAL event function is
                                                     evaluated at ra and rb on the dense output).
             R1: brentq never returns an *isolated* zero of an event function that is not a sign change (an event
                 function that is zero on an interval of width ~1e-15 around some instant, like fpe_equals-guarded
                 ones, is hit there by an iterate with probability ~1e-15/step).  ``plateau`` is the width of such
                 zero plateaus AT sign changes (2 * finfo(float).resolution for fpe_equals).
             R3: the step ends the integrator chooses itself (all but the last, clipped one) are generic: no event function
                 is EXACTLY zero there (an fpe_equals-guarded event function is zero on a set of measure ~1e-15).  Only the
                 clipped final step end tf and the restart instants of the calling code can coincide with such zeros.
  t_eval     supported after l.711-728 (values in (previous t, t] are emitted from the linear dense output); exercised so far only by a
             smoke run of Celestial.propagateBulk without events.
  budget     more than ``max_calls`` calls on one path raise ContractBudget (an UnwindingFailure: nothing may be claimed); its ``log`` lets a
             harness decide whether the caller's restart loop stalled.
  spacing    numpy.spacing(t) -> fresh eps, eps_lo <= eps <= eps_hi (default 2^-300 .. 2^-33: every spacing of a double in [0, 2^20]).
             R2: the calling code restarts at root + spacing(root); if root < the crossing the same crossing can
                 fire again (really: a chain of at most ~12 one-ulp restarts).  At most ``max_retrigger`` consecutive
                 re-triggers are explored; after that the solver's choice is constrained so that the restart lies
                 beyond the last bracket (t0 > rb).
"""
from __future__ import annotations

import hashlib
import inspect
from fractions import Fraction
from types import SimpleNamespace

import numpy as np
import z3

from .core import PathAbort, SBool, SReal, UnwindingFailure, _real_term, cur, rv

EPS = Fraction(2) ** -52  # numpy.finfo(float).eps, as in scipy/integrate/_ivp/common.py
PINNED_SCIPY = "1.18.1"
PINNED_SHA = {  # sha256[:16] of inspect.getsource(...) in the pinned scipy
    "prepare_events": "22bc91927b08498a", "solve_event_equation": "841f2945af0ff38f", "handle_events": "a24953a7ad679c68",
    "find_active_events": "d54ef0cde60cac49", "solve_ivp": "9d26deb6c922044f",
}


class ContractBudget(UnwindingFailure):
    """More solve_ivp calls on one path than the stub was told to allow: nothing may be claimed for that path.
    ``log`` is the stub's call log, so that a harness can ask whether the calling code's restart loop stalled."""

    def __init__(self, msg, log=()):
        super().__init__(msg)
        self.log = list(log)


def _t(x):
    """z3 Real term of a scalar (proxy, number or 0-d array)."""
    t = _real_term(x)
    if t is None:
        raise TypeError(f"not a scalar: {x!r}")
    return t


def _S(x):
    return x if isinstance(x, SReal) else SReal(_t(x))


def _b(x):
    """python bool / numpy bool / SBool -> z3 Bool."""
    if isinstance(x, SBool):
        return x.t
    return z3.BoolVal(bool(x))


def source_pins():
    """sha256[:16] of the scipy functions the contract was read from."""
    from scipy.integrate._ivp import ivp

    return {n: hashlib.sha256(inspect.getsource(getattr(ivp, n)).encode()).hexdigest()[:16] for n in PINNED_SHA}


def pin_scipy():
    """(ok, detail): is the installed scipy the one the contract was read from?"""
    import scipy

    got = source_pins()
    bad = {n: (got[n], PINNED_SHA[n]) for n in got if PINNED_SHA[n] is not None and got[n] != PINNED_SHA[n]}
    return (scipy.__version__ == PINNED_SCIPY and not bad), {"scipy": scipy.__version__, "pinned": PINNED_SCIPY, "changed": bad}


class SolveIvpContract:
    """Callable replacement for ``solve_ivp`` in the analysed module's globals (see module docstring).

    ``log`` (one dict per call: t0, tf, steps [(t_old, t, thrust-agnostic derivative)], terminal root, status) is for
    reachability guards and notes of a harness; oracles should be stated over what the analysed code returns.
    """

    def __init__(self, steps=(2,), max_calls=8, max_retrigger=1, plateau=Fraction(2, 10 ** 15), eps_lo=Fraction(2) ** -300,
                 eps_hi=Fraction(2) ** -33, name="ivp"):
        self.steps = tuple(steps)
        self.max_calls = max_calls
        self.max_retrigger = max_retrigger
        self.plateau = Fraction(plateau)
        self.eps_lo, self.eps_hi = Fraction(eps_lo), Fraction(eps_hi)
        self.name = name
        self.calls = 0
        self.log = []
        self.spacings = []
        self._last = {}  # event index -> (rb of the last strict-sign-change terminal root, chain length term)

    # ---- numpy.spacing ---------------------------------------------------------------------------------------------
    def spacing(self, t):
        p = cur()
        e = p.new(f"{self.name}_eps")
        p.assume(z3.And(e >= rv(self.eps_lo), e <= rv(self.eps_hi)))
        self.spacings.append(e)
        return SReal(e)

    # ---- pieces of the protocol ------------------------------------------------------------------------------------
    @staticmethod
    def _prepare_events(events):
        # ivp.py l.29-49
        if callable(events):
            events = (events,)
        max_events, direction = [], []
        for ev in events:
            terminal = getattr(ev, "terminal", None)
            direction.append(float(getattr(ev, "direction", 0)))
            if terminal is None or terminal == 0:
                max_events.append(float("inf"))
            elif int(terminal) == terminal and terminal > 0:
                max_events.append(float(terminal))
            else:
                raise ValueError("The `terminal` attribute of each event must be a boolean or positive integer.")
        return list(events), max_events, direction

    @staticmethod
    def _active(g, g_new, direction):
        # ivp.py l.134-157, one event; returns SBool/bool
        g, g_new = _t(g), _t(g_new)
        up = z3.And(g <= 0, g_new >= 0)
        down = z3.And(g >= 0, g_new <= 0)
        if direction > 0:
            m = up
        elif direction < 0:
            m = down
        else:
            m = z3.Or(up, down)
        return SBool(z3.simplify(m))

    def _root(self, ev, idx, sol, t_old, t, g_old, g_new):
        """solve_event_equation (l.52-77) by the brentq facts; returns (root, rb or None)."""
        p = cur()
        if bool(SBool(z3.simplify(_t(g_old) == 0))):
            return _S(t_old), None
        if bool(SBool(z3.simplify(_t(g_new) == 0))):
            return _S(t), None
        ra, ro, rb = p.new(f"{self.name}_ra"), p.new(f"{self.name}_root"), p.new(f"{self.name}_rb")
        tol = 4 * rv(EPS) * (1 + z3.If(ro >= 0, ro, -ro)) + rv(self.plateau)
        p.assume(z3.And(_t(t_old) <= ra, ra <= ro, ro <= rb, rb <= _t(t), ra < rb, rb - ra <= tol))
        neg_first = bool(SBool(z3.simplify(_t(g_old) < 0)))
        for x, first in ((ra, True), (rb, False)):
            v = ev(SReal(x), sol(SReal(x)))
            vt = _t(v)
            want_neg = neg_first if first else not neg_first
            c = z3.simplify(vt < 0 if want_neg else vt > 0)
            if z3.is_false(c):
                raise PathAbort("event function is zero where the bracket needs a strict sign")
            p.assume(c)
        return SReal(ro), rb

    # ---- the call --------------------------------------------------------------------------------------------------
    def __call__(self, fun, t_span, y0, method="RK45", t_eval=None, dense_output=False, events=None, vectorized=False,
                 args=None, **options):
        p = cur()
        self.calls += 1
        if self.calls > self.max_calls:
            raise ContractBudget(f"more than {self.max_calls} solve_ivp calls on one path", self.log)
        if args is not None or dense_output or vectorized:
            raise NotImplementedError("solve_ivp contract: args / dense_output / vectorized are not modelled")
        t0, tf = _S(t_span[0]), _S(t_span[1])
        y0 = np.asarray(y0, dtype=object)
        p.assume(t0.t < tf.t)  # callers guard this themselves (`while initial_time < final_time`); forward integration only
        rec = {"t0": t0, "tf": tf, "steps": [], "root": None, "status": None, "active": []}
        self.log.append(rec)

        if events is not None:
            events, max_events, direction = self._prepare_events(events)
            event_count = [0] * len(events)
            g = [ev(t0, y0) for ev in events]  # l.651
            t_events = [[] for _ in events]
            y_events = [[] for _ in events]
            # R2: bounded re-trigger chains
            for i in range(len(events)):
                if i in self._last:
                    rb, chain = self._last[i]
                    p.assume(z3.Implies(chain >= self.max_retrigger, t0.t > rb))
        else:
            events = None
            t_events = y_events = None

        te = None
        if t_eval is not None:
            te = [_S(x) for x in list(t_eval)]
            te_i = 0
            ts, ys = [], []
        else:
            ts, ys = [t0], [y0]

        # number of steps
        n = self.steps[-1]
        for cand in self.steps[:-1]:
            if p.branch(p.new(f"{self.name}_n{cand}", "bool")):
                n = cand
                break

        t_old, y_old = t0, y0
        status = None
        for k in range(n):
            if k == n - 1:
                t = tf  # rk.py: the last step is clipped to t_bound exactly
            else:
                tau = p.new(f"{self.name}_tau")
                p.assume(z3.And(t_old.t < tau, tau < tf.t))
                t = SReal(tau)
            f = np.asarray(fun(t_old, y_old), dtype=object)
            h = t - t_old
            y = y_old + h * f
            rec["steps"].append((t_old, t, f))

            def sol(s, _t0=t_old, _y0=y_old, _f=f):
                return _y0 + (_S(s) - _t0) * _f

            if k == n - 1:
                status = 0
            if events is not None:
                g_new = [ev(t, y) for ev in events]  # l.679
                if k < n - 1:
                    # R3: a step end chosen by the integrator itself is generic - it is not an exact zero of an event function
                    for v in g_new:
                        c = z3.simplify(_t(v) != 0)
                        if z3.is_false(c):
                            raise PathAbort("R3: interior step end on an exact zero of an event function")
                        p.assume(c)
                active = [i for i in range(len(events)) if bool(self._active(g[i], g_new[i], direction[i]))]  # l.680
                if active:
                    roots, brackets = [], []
                    for i in active:
                        event_count[i] += 1  # l.685
                        r, rb = self._root(events[i], i, sol, t_old, t, g[i], g_new[i])
                        roots.append(r)
                        brackets.append(rb)
                    terminate = False
                    if any(event_count[i] >= max_events[i] for i in active):  # l.116
                        order = list(range(len(active)))
                        # insertion sort by root (l.118), forking on the comparisons
                        for a in range(1, len(order)):
                            b = a
                            while b > 0 and bool(roots[order[b]] < roots[order[b - 1]]):
                                order[b], order[b - 1] = order[b - 1], order[b]
                                b -= 1
                        active = [active[j] for j in order]
                        roots = [roots[j] for j in order]
                        brackets = [brackets[j] for j in order]
                        cut = next(j for j, i in enumerate(active) if event_count[i] >= max_events[i])  # l.123
                        active, roots, brackets = active[:cut + 1], roots[:cut + 1], brackets[:cut + 1]
                        terminate = True
                    for i, r in zip(active, roots):  # l.690-692
                        t_events[i].append(r)
                        y_events[i].append(sol(r))
                    rec["active"].append(list(active))
                    if terminate:  # l.694-697
                        status = 1
                        t = roots[-1]
                        y = sol(t)
                        rec["root"] = t
                        i, rb = active[-1], brackets[-1]
                        if rb is not None:
                            prev = self._last.get(i)
                            chain = z3.If(t0.t <= prev[0], prev[1] + 1, z3.IntVal(0)) if prev is not None else z3.IntVal(0)
                            self._last[i] = (rb, chain)
                        else:
                            self._last.pop(i, None)
                g = g_new  # l.699
            if te is None:
                ts.append(t)
                ys.append(y)
            else:
                # l.711-728: emit the t_eval values in (previous t, t]
                while te_i < len(te) and bool(te[te_i] <= t):
                    ts.append(te[te_i])
                    ys.append(sol(te[te_i]))
                    te_i += 1
            if status == 1:
                break
            t_old, y_old = t, y
        rec["status"] = status

        res = SimpleNamespace()
        res.t = np.array(ts, dtype=object)
        res.y = np.array([list(v) for v in ys], dtype=object).T if ys else np.empty((len(y0), 0), dtype=object)
        if t_events is not None:
            res.t_events = [np.array(x, dtype=object) for x in t_events]
            res.y_events = [np.array([list(v) for v in x], dtype=object).reshape(len(x), len(y0)) for x in y_events]
        else:
            res.t_events = res.y_events = None
        res.sol = None
        res.status = status
        res.success = status >= 0
        res.message = {0: "The solver successfully reached the end of the integration interval.", 1: "A termination event occurred."}[status]
        res.nfev = res.njev = res.nlu = 0
        return res



def sym_max(*args, **kw):
    """builtin max on symbolic reals without forking (an if-then-else term); plain max otherwise."""
    import z3

    from .core import SReal, _real_term

    if kw:
        return max(*args, **kw)
    if len(args) == 1:
        args = tuple(args[0])
    if not any(isinstance(a, SReal) for a in args):
        return max(*args)
    out = args[0] if isinstance(args[0], SReal) else SReal(_real_term(args[0]))
    for a in args[1:]:
        t = _real_term(a)
        out = SReal(z3.If(out.t >= t, out.t, t))
    return out
