"""C03 - orbit propagation: batch consistency, restart loop / output grid of propagate and propagateBulk, epoch bookkeeping (derivative, dynamics
factory on a running clock), history independence of a reused dynamics object, Lagrange-coefficient algebra of the universal-variable Kepler
solver.  (Numerical accuracy of the integration is outside.)"""
from __future__ import annotations

import copy
from fractions import Fraction

import numpy as np
import z3

from symx.core import (SReal, _real_term, assume, cur, explore, marray, mfloat, real, reals, refute, rv, single_path)
from symx.ext_c15 import ContractBudget, SolveIvpContract, pin_scipy, sym_max
from symx.runner import Ob
from symx.stubs import shadow, shadow_attr, sym_zeros

ID = "C03"
TECHNIQUE = ("the real Celestial.propagate / propagateBulk / _prepEvents / _applyEvents / _nextThrustBoundary, TwoBody._differentialEquation, "
             "SpecialPerturbations._differentialEquation, ScheduledImpulse.__call__/getStateChange, ScheduledFiniteThrust.__call__, Agent.prunePropagateEvents and "
             "solveKeplerProblemUniversal are executed on z3 Real proxies (numpy object arrays); scipy's solve_ivp is replaced by the hash-pinned contract stub of "
             "symx/ext_c15.py whose step ends, event roots and numpy.spacing are solver variables, so start/end times, output grids, event times, states and impulses are "
             "all solver variables and every feasible path of the restart loops is explored; per path z3 proves a ring identity that exposes the integrated span, the "
             "number of times each impulse was applied and when, and then decides the claims about them in linear arithmetic; batch-vs-separate and epoch-split "
             "invariance are decided as equalities of the terms returned by the real propagate(); the real dynamicsFactory() is run on a real ScenarioClock object whose "
             "start date and elapsed time are solver variables (ScenarioTime / JulianDate re-based onto the Real proxy) and the dynamics it returns is propagated; a used "
             "dynamics object is compared with a fresh one over two arbitrary intervals (every path of the real code, so hidden per-object state shows up as a fork); the Kepler solver's returned state is decomposed into its Lagrange "
             "coefficients, f*gdot - fdot*g = 1 is decided by nlsat over scalar cut variables (Stumpff values constrained by their defining identity) and "
             "conservation of angular momentum follows by a ring identity; counterexamples are replayed on the real code with the real scipy")
FLOAT_SEMANTICS = ("Real-ideal for states and times (the code's own floating-point guards are kept: fpe_equals compares with finfo(float).resolution, numpy.spacing and "
                   "brentq's tolerance are bounded solver variables); O3-epoch-fp: IEEE doubles in the relaxed (sound over-approximating) rounding mode of symx/fp.py")
ENCODED = [
    "resonaate.dynamics.celestial:Celestial.propagate",
    "resonaate.dynamics.celestial:Celestial.propagateBulk",
    "resonaate.dynamics.celestial:Celestial._prepEvents",
    "resonaate.dynamics.celestial:Celestial._applyEvents",
    "resonaate.dynamics.celestial:Celestial._nextThrustBoundary",
    "resonaate.dynamics.celestial:checkEarthCollision",
    "resonaate.dynamics.two_body:TwoBody._differentialEquation",
    "resonaate.dynamics.special_perturbations:SpecialPerturbations._differentialEquation",
    "resonaate.dynamics.special_perturbations:SpecialPerturbations._getSolarRadiationPressureAcceleration",
    "resonaate.dynamics.special_perturbations:_getThirdBodyAcceleration",
    "resonaate.dynamics.special_perturbations:_getGeneralRelativityAcceleration",
    "resonaate.dynamics:dynamicsFactory",
    "resonaate.dynamics.special_perturbations:SpecialPerturbations.__init__",
    "resonaate.dynamics.special_perturbations:calcSatRatio",
    "resonaate.scenario.clock:ScenarioClock.julian_date_epoch",
    "resonaate.physics.time.stardate:ScenarioTime.convertToJulianDate",
    "resonaate.dynamics.integration_events.scheduled_impulse:ScheduledImpulse.__call__",
    "resonaate.dynamics.integration_events.scheduled_impulse:ScheduledImpulse.__init__",
    "resonaate.dynamics.integration_events.scheduled_impulse:ScheduledECIImpulse.getStateChange",
    "resonaate.dynamics.integration_events.finite_thrust:ScheduledFiniteThrust.__call__",
    "resonaate.dynamics.integration_events.finite_thrust:ScheduledFiniteThrust.getStateChangeCallback",
    "resonaate.agents.agent_base:Agent.prunePropagateEvents",
    "resonaate.physics.maths:fpe_equals",
    "resonaate.physics.orbits.kepler:solveKeplerProblemUniversal",
]

RES_D = 1e-15  # numpy.finfo(float).resolution, the threshold inside fpe_equals
ETA = Fraction(4, 10 ** 9)  # an event time is either exactly on a grid time or at least this far from it
TOL_T = Fraction(1, 10 ** 6)  # s: tolerance on integrated spans / event application times
T_MIN, T_MAX = 0, 2 ** 20
DT_MIN = 1
EPOCH_TOL = Fraction(1, 10 ** 9)  # days

BOUNDS = {
    "times": f"all real start/end/output/event times in [{T_MIN}, {T_MAX}] s; consecutive grid times (t0 < tf, output times, split point) at least {DT_MIN} s apart; an event time "
             f"is either exactly equal to a grid time or at least {float(ETA)} s away from every grid time (zones: before / on / between ... / after, each shown inhabited)",
    "batch": "O1: K = 1, 2, 3 states per call (perturbed: K = 1, 2 in the quick tier; thorough: TwoBody also with two integrator stages); O2: K = 1 and 2; propagateBulk: 3 output times (thorough: 4)",
    "integrator": "solve_ivp contract: quick 2 steps per call (O1: 1 step), thorough 1|2 and 3 steps; <= 8 calls per path; no re-trigger of a crossing after a restart (R2 with chain 0)",
    "events": "O2: one or two ECI impulses (state independent, impulse times at least 1 s apart), one finite burn (inert under TwoBody; its start/end at least 1 s from the impulse) next to "
              f"an impulse; the integrated span, the application count of each impulse and its application time are compared within {float(TOL_T)} s. An impulse exactly on the START "
              "instant of a window may be applied or not (0 or 1 times, state consistent with the count): which window the instant belongs to is the caller's convention",
    "states": "O1: |r| in [R+200 km, 10 R], velocity components in [-12, 12] km/s; O2: every real state (free-motion world); O3: jd0 in [2400000.5, 2500000.5], t in [0, 2^20] s",
    "factory": "O3-factory: spacecraft under special perturbations (Sun + Moon, SRP, relativity, EGM96 4x4: the real configuration objects, concrete); clock start date jd0 in "
               "[2400000.5, 2500000.5], clock reading D in [0, t0], start-date shift s in [-2^20, D] s, t0 < tf in [0, 2^20] s, one integrator step per call, K = 1",
    "reuse": "O3-reuse: first call propagate (K = 1; thorough also K = 2 and propagateBulk with one intermediate output time) over any [t0, tf], second call propagate over any [u0, uf] "
             "(before, inside, after the first; all times in [0, 2^20] s), other state; no events; one integrator step per call",
    "kepler": "O4: bound orbits with alpha = 2/|r| - v^2/mu >= 1e-5 /km (a <= 1e5 km), |r| in [6500, 1e5] km, |v| in [0.1, 12] km/s, any r.v, tof in [1, 86400] s, mu in [1e3, 1e6]; "
              "exit of the Newton loop at its first test with an exact fixed point",
}
OUTSIDE = [
    "numerical accuracy of the integration (RK45/DOP853 error control): composability of the numerical result within integrator tolerance, agreement with the closed-form Kepler "
    "solution and conservation of energy / angular momentum by the integrated trajectory are NOT decided (one explicit stage per step in the stub)",
    "convergence of the Newton iteration in solveKeplerProblemUniversal and exits after more than one iteration (nlsat gives no verdict on the two-iteration terms); the parabolic and "
    "hyperbolic initial guesses (arctan/log); energy conservation of the returned state (|r2| needs a nested square root: no verdict in 120 s); alpha exactly +-1e-6 leaves `chi` "
    "unbound (UnboundLocalError; a = 1e6 km, outside the property's orbits)",
    "state-dependent discrete events in a batch: _applyEvents evaluates getStateChange on column 0 only and adds it to every column (NTW impulses, station keeping), so a batch equals "
    "separate calls only for state-independent (ECI) impulses; station keeping events",
    "two events within 4e-9 s of each other or of a grid time without being exactly on it: which side the brentq iterate falls on decides the reported state (== comparisons in propagateBulk)",
    "two impulses at exactly the same instant (solve_ivp keeps only the first terminal root of a step)",
    "times above 2^20 s (times from 0 are inside: numpy.spacing is any value in (0, 2^-33])",
    "1-D states in propagateBulk with events (documented input is (6, K)); the integrator method strings (RK45/DOP853 are passed through to solve_ivp untouched: checked concretely in O2-noevent)",
    "the values of the providers inside the perturbed derivative (ephemerides, reduction, geopotential: C13/C04); O3 decides only which epoch they are asked for",
    "O3-factory: the calendar attributes of the clock (datetime_start / datetime_epoch: the symbolic clock has none, a factory that reads them for a spacecraft ends in the no-exception item "
    "and is judged by the replay); ground facilities (Terrestrial: C04/C09); who calls the factory when (Scenario.addTarget / addSensor, event handling)",
    "O3-reuse: state carried between calls through scheduled events / finite burns (O2 builds a new TwoBody per case); module-level caches of the providers (lru_cache in the ephemeris / "
    "EOP loaders: provider stubs are pure functions of their arguments); a carried state whose effect stays below 1e-9 km in the replay (e.g. a memo at most a few seconds old)",
]
ASSUMPTIONS = [
    "solve_ivp -> symx.ext_c15.SolveIvpContract (event protocol of scipy 1.18.1 ivp.py, hash-pinned; one explicit stage per step, linear dense output; R1 brentq never returns an isolated "
    "zero that is not a sign change; R2 no re-trigger of the same crossing after the restart (chain bound 0); R3 step ends chosen by the integrator are never exact zeros of an event "
    "function); numpy.spacing -> eps in [2^-49, 2^-33]",
    "O2 free-motion world: in resonaate.dynamics.two_body Earth.mu -> 0, norm -> 1, checkEarthCollision -> no-op, empty_like -> object array: the real TwoBody derivative becomes (v, 0), for "
    "which the one-stage integrator model is exact, so the returned state encodes integrated span, impulse count and impulse time; EventStack.pushEvent (Ray log) -> list append",
    "O1: norm -> sqrt contract of the sum of squares (one variable per distinct argument); SpecialPerturbations providers (JulianDate, julianDateToDatetime, ReductionParams.build, "
    "_getRotationMatrix, <body>.getPosition, nonSphericalAcceleration, calculateSunVizFraction) -> memoised symbolic outputs: the same output for provably equal epoch arguments / "
    "equal other arguments, a fresh one otherwise (weakest functional contract)",
    "O2-compose driver mirrors PropagateRegistration: prunePropagateEvents before each call, same event queue object",
    "O1 / O3: the solve_ivp calls that are compared take the same steps (the k-th interior step end of every call on a path is one solver variable)",
    "counterexample search only (never a proof): when nlsat gives no verdict on an open equality of O1 / O3, states and provider outputs are pinned to ordinary rationals and the sqrt "
    "contracts are widened by 1e-12 (relative); O2: a refuted claim is searched again with event times >= 0.25 s away from grid times so that the replay's trajectory comparison sees it",
    "O3-factory: ScenarioClock built with object.__new__ (its constructor writes one Epoch row per step to the database) and the attributes the constructor sets (no calendar attributes in "
    "the symbolic run); ScenarioTime / JulianDate -> the real class bodies re-based onto the Real proxy (symx.timeenv.rebase), `float` inside stardate.py and resonaate/dynamics/__init__.py "
    "keeps proxies; the python float 1/(24*3600) inside convertToJulianDate is taken at its exact rational value, hence the 1e-9 d tolerance on epochs; configuration objects are real and concrete",
    "O3-reuse: counterexample search only: intervals pinned to four ordinary shapes (REUSE_PINS), states and provider outputs (pairwise different) pinned, sqrt contracts widened by 1e-12; "
    "each candidate is a solver model of the path; the first one the real code reproduces (else the last one) is the one reported",
    "O3-factory: counterexample search only: a refuted claim is searched again with jd0 inside the shipped EOP table, D >= 1 h, s and D - s >= 600 s so that the replay can run the real providers",
    "O3-epoch-fp: JulianDate -> capture of its argument (execution of _differentialEquation stops there)",
    "O4: norm(r0), norm(v0), vdot(r0, v0) -> scalar cut variables R0 > 0, V0 > 0, S with S^2 <= R0^2 V0^2; universalC2C3 -> cut variables c2, c3 with the Stumpff identity "
    "1 - 2 c2 + psi c2^2 - 2 psi c3 + psi^2 c3^2 = 0 (cos^2 + sin^2 = 1 resp. cosh^2 - sinh^2 = 1 written in c2, c3); numpy.isclose(a, b, rtol=0, atol) -> |a - b| <= atol, the loop's "
    "convergence test at an exact fixed point (a == b)",
    "replays: real TwoBody / SpecialPerturbations with the real scipy; a wrapper (not a replacement) around solve_ivp records the integrated spans and event roots; EventStack -> list",
]
LEVEL_TEXT = ("Bounded symbolic verification of the data flow around the integrator: layout/decoupling of batched states through the real propagate(), the restart loops of propagate and "
              "propagateBulk over all real start/end/output/event times under a contract model of solve_ivp, the epoch handed to the perturbation providers (also for dynamics built by "
              "dynamicsFactory on a clock that has advanced), independence of a call from the calls the object served before, and the Lagrange-coefficient "
              "algebra of the Kepler solver. The numerical integration itself is outside.")
LEVEL_NOTE = ("solve_ivp is a contract stub (hash-pinned); integration accuracy, Kepler-exactness and conservation of the integrated trajectory are outside; K <= 3, <= 4 output times, "
              "<= 3 integrator steps per call, times in [8, 2^20] s; O3-factory / O3-reuse: one integrator step per call, no events. Found with this harness (reported for repair): an impulse exactly on the boundary between two consecutive "
              "propagate() calls was applied twice (prunePropagateEvents kept it); propagateBulk raised ValueError as soon as one of >= 2 scheduled events fired.")


# ------------------------------------------------------------------------------------------------------------------------
# small helpers
# ------------------------------------------------------------------------------------------------------------------------
class _Ivp(SolveIvpContract):
    """The contract stub of symx/ext_c15.py plus one detail of scipy 1.18.1 that matters to propagateBulk (ivp.py l.744-749): with `t_eval`, when no
    output time was reached before a terminal event, `ts` / `ys` are never stacked and the result carries empty python LISTS in `.t` / `.y`."""

    def __call__(self, fun, t_span, y0, method="RK45", t_eval=None, **kw):
        res = super().__call__(fun, t_span, y0, method=method, t_eval=t_eval, **kw)
        if t_eval is not None and len(res.t) == 0:
            res.t, res.y = [], []
        return res


class _Tok:
    def __init__(self, **k):
        self.__dict__.update(k)


class _Log:
    def __init__(self):
        self.records = []

    def pushEvent(self, rec):
        self.records.append(rec)


def _el(a, dtype=None, **k):
    return np.empty(np.shape(a), dtype=object)


def _nrm(v, *a, **k):
    """norm -> sqrt contract of the sum of squares (symx.core.SReal.sqrt keeps one variable per argument term)."""
    v = np.asarray(v, dtype=object).ravel()
    s = v[0] * v[0]
    for x in v[1:]:
        s = s + x * x
    return s.sqrt() if isinstance(s, SReal) else float(np.sqrt(float(s)))


def _zt(x):
    t = _real_term(x)
    if t is None:
        raise TypeError(f"not a scalar: {x!r}")
    return t


def _near(x, y, tol):
    return z3.And(x - y <= tol, y - x <= tol)


def _earth_R():
    from resonaate.physics.bodies import Earth

    return float(Earth.radius)


X_LEO = [6878.0, 120.0, -350.0, 0.3, 7.1, 2.6]
DV_REPLAY = [[0.01, -0.02, 0.03], [-0.02, 0.015, 0.01]]


# ------------------------------------------------------------------------------------------------------------------------
# O1: batch == separate calls, through the real propagate() (layout derived from propagate's own ravel/reshape)
# ------------------------------------------------------------------------------------------------------------------------
class _Memo:
    """Symbolic provider outputs: the same output for equal arguments (epochs: provably equal; others: equal after
    simplification, else provably equal), a fresh one otherwise."""

    def __init__(self):
        self.tab, self.n, self.epochs, self.asked = {}, 0, [], []

    def epoch(self, x, who="JulianDate"):
        xt = _zt(x)
        self.asked.append((who, xt))
        for i, y in enumerate(self.epochs):
            if refute(xt == y, [], 5000).status == "unsat":
                return i
        self.epochs.append(xt)
        return len(self.epochs) - 1

    def get(self, kind, args, shape):
        ts = [z3.simplify(_zt(a)) for a in args]
        p = cur()
        p.keep.extend(ts)
        key = (kind,) + tuple(t.get_id() for t in ts)
        if key not in self.tab:
            hit = None
            for k2, (ts2, v2) in self.tab.items():
                if k2[0] == kind and len(ts2) == len(ts):
                    if refute(z3.And(*[a == b for a, b in zip(ts, ts2)]), p.assumes, 3000).status == "unsat":
                        hit = v2
                        break
            if hit is None:
                self.n += 1
                hit = reals(f"{kind}{self.n}", *shape) if shape else real(f"{kind}{self.n}")
            self.tab[key] = (ts, hit)
        v = self.tab[key][1]
        return v.copy() if shape else v


class _SPWorld:
    """Shadows for the real SpecialPerturbations._differentialEquation: every provider is a memoised symbolic function."""

    def __init__(self, memo):
        self.memo = memo

    def __enter__(self):
        from resonaate.dynamics import special_perturbations as SP
        from resonaate.physics.bodies import Moon, Sun

        memo = self.memo

        def _key(v):
            """Memo key of an argument: epochs by their index (provably equal epochs share one), numbers as they are."""
            if isinstance(v, JD):
                return SReal(v.k)
            if isinstance(v, _Tok) and hasattr(v, "jd"):
                return SReal(v.jd.k)
            if v is None:
                return SReal(-1)
            return v

        class JD:
            """Opaque epoch: whatever the analysed code derives from it (calendar fields, a Julian date rebuilt from fields) is a memoised symbolic
            function of the epoch, so that state derived from the *start* date and carried into the derivative shows up as a dependence on the split."""

            def __init__(self, x):
                if isinstance(x, JD):
                    x = x.x
                self.x = x
                self.k = memo.epoch(x)

            @property
            def calendar_date(self):
                return tuple(memo.get("cal", [SReal(self.k)], (6,)))

            @staticmethod
            def getJulianDate(*args):
                return JD(memo.get("jdof", [_key(a) for a in args], ()))

            def __sub__(self, o):
                return self.x - (o.x if isinstance(o, JD) else o)

            def __rsub__(self, o):
                return o - self.x

            def __add__(self, o):
                return self.x + (o.x if isinstance(o, JD) else o)

            __radd__ = __add__

        def j2d(jd):
            if not isinstance(jd, JD):
                jd = JD(jd)
            return _Tok(jd=jd, year=memo.get("cal", [SReal(jd.k)], (6,))[0])

        class RP:
            @staticmethod
            def build(utc_date, eops=None):
                return _Tok(dt=utc_date, date_time=utc_date, jd=utc_date.jd)

        def rot(jd, red, *extra):
            return memo.get("E", [SReal(jd.k), SReal(red.dt.jd.k)] + [_key(e) for e in extra], (3, 3))

        def pos(name):
            def f(jd):
                return memo.get(name, [SReal(jd.k)], (3,))

            return staticmethod(f)

        def g(r_ecef, mu, R, c, s, deg, order):
            return memo.get("g", list(r_ecef), (3,))

        def viz(a, b):
            return memo.get("nu", list(a) + list(b), ())

        self.cms = [shadow(SP, empty_like=_el, JulianDate=JD, julianDateToDatetime=j2d, ReductionParams=RP, _getRotationMatrix=rot, nonSphericalAcceleration=g,
                           calculateSunVizFraction=viz, norm=_nrm),
                    shadow_attr(Sun, getPosition=pos("sun")), shadow_attr(Moon, getPosition=pos("moon"))]
        for c in self.cms:
            c.__enter__()
        return self

    def __exit__(self, *a):
        for c in reversed(self.cms):
            c.__exit__(*a)
        return False


_SP = [None]
SP_CFG = dict(third_bodies=["sun", "moon"], srp=True, gr=True, sat_ratio=0.02, jd0=2458207.010416667)


def _sp_dynamics(jd0=None, method=None):
    """A real SpecialPerturbations (real constructor: Sun + Moon third bodies, SRP, relativity), copied per use."""
    if _SP[0] is None:
        from resonaate.dynamics.special_perturbations import SpecialPerturbations
        from resonaate.physics.time.stardate import JulianDate
        from resonaate.scenario.config.geopotential_config import GeopotentialConfig
        from resonaate.scenario.config.perturbations_config import PerturbationsConfig

        _SP[0] = SpecialPerturbations(JulianDate(SP_CFG["jd0"]), GeopotentialConfig(),
                                      PerturbationsConfig(third_bodies=SP_CFG["third_bodies"], solar_radiation_pressure=SP_CFG["srp"], general_relativity=SP_CFG["gr"]),
                                      SP_CFG["sat_ratio"])
    d = copy.copy(_SP[0])
    d.finite_thrust = None
    if jd0 is not None:
        d.init_julian_date = jd0
    if method is not None:
        d._method = method
    return d


def _sp_dynamics_ctor(jd_start):
    """The real constructor (under whatever shadows are active), so that anything it derives from the start date is part of the run."""
    from resonaate.dynamics.special_perturbations import SpecialPerturbations
    from resonaate.scenario.config.geopotential_config import GeopotentialConfig
    from resonaate.scenario.config.perturbations_config import PerturbationsConfig

    d = SpecialPerturbations(jd_start, GeopotentialConfig(), PerturbationsConfig(third_bodies=SP_CFG["third_bodies"], solar_radiation_pressure=SP_CFG["srp"],
                                                                                general_relativity=SP_CFG["gr"]), SP_CFG["sat_ratio"])
    d.finite_thrust = None
    return d


def _o1_state(K):
    R0 = _earth_R()
    X = reals("x", 6, K)
    t0, tf = real("t0"), real("tf")
    assume(t0.t >= T_MIN, tf.t >= t0.t + DT_MIN, tf.t <= T_MAX)
    for j in range(K):
        n = _nrm(X[:3, j])
        assume(n.t >= rv(R0 + 200.0), n.t <= rv(10 * R0))
        for i in range(3, 6):
            assume(X[i, j].t >= -12, X[i, j].t <= 12)
    return X, t0, tf


def _tie_steps(ivp_log, groups):
    """Constraints: the interior step ends of the solve_ivp calls of one group coincide with those of the first call of the group
    (the integrator's step selection is its own business; the comparison is between calls that took the same steps)."""
    cs = []
    for grp in groups:
        ref = ivp_log[grp[0]]["steps"]
        for k in grp[1:]:
            st = ivp_log[k]["steps"]
            if len(st) != len(ref):
                raise RuntimeError("step counts differ")
            for (a0, a1, _f), (b0, b1, _g) in zip(ref, st):
                cs.append(_zt(a1) == _zt(b1))
    return cs


def _share_step_ends(p, ivp):
    """The k-th interior step end of every solve_ivp call on this path is one and the same solver variable (the calls that are compared take
    the same steps): the terms of the compared calls then coincide syntactically instead of through equalities nlsat would have to chase."""
    orig, state, tab = p.new, {"call": None, "k": 0}, {}

    def new(kind, sort="real"):
        if not kind.endswith("_tau"):
            return orig(kind, sort)
        if state["call"] != ivp.calls:
            state["call"], state["k"] = ivp.calls, 0
        state["k"] += 1
        if state["k"] not in tab:
            tab[state["k"]] = orig(kind, sort)
        return tab[state["k"]]

    p.new = new


def replay_batch(d):
    """Real code on floats: derivative of the batch vs derivative of each column (exact up to rounding), and the real propagate()
    with the real scipy for the batch vs each column (integrator tolerance)."""
    from resonaate.dynamics.two_body import TwoBody

    X = np.array(d["state"], dtype=float)
    if X.ndim == 1:
        X = X[:, None]
    K = X.shape[1]
    t0, tf = float(d["t0"]), float(d["tf"])
    tf = min(tf, t0 + 120.0)  # the layout does not depend on the span; keep the real integration short
    mk = (lambda: TwoBody()) if d["dyn"] == "twobody" else (lambda: _sp_dynamics())
    detail = {}
    bad = False
    try:
        D = np.array(mk()._differentialEquation(t0, X.ravel().copy()), dtype=float).reshape(6, K)
        e_der = 0.0
        for j in range(K):
            # the batch performs the same floating-point operations on column j as the single call: equal to the last bits
            dj = np.array(mk()._differentialEquation(t0, X[:, j].copy()), dtype=float)
            for blk in (slice(0, 3), slice(3, 6)):
                e_der = max(e_der, float(np.abs(D[blk, j] - dj[blk]).max() / max(1e-30, np.abs(dj[blk]).max())))
        detail["derivative batch-vs-column (relative, per block)"] = e_der
        bad = bad or e_der > 1e-13
        out = np.array(mk().propagate(t0, tf, X.copy()), dtype=float).reshape(6, K)
        e_pr = 0.0
        for j in range(K):
            oj = np.array(mk().propagate(t0, tf, X[:, j].copy()), dtype=float)
            if oj.shape != (6,):
                bad = True
                detail["shape"] = list(oj.shape)
            e_pr = max(e_pr, float(np.abs(out[:, j] - oj.ravel()).max() / np.abs(oj).max()))
        detail["propagate batch-vs-column (relative)"] = e_pr
        bad = bad or e_pr > 1e-6
    except Exception as e:  # noqa: BLE001
        return True, {"raised": f"{type(e).__name__}: {e}"[:300]}
    return bad, detail


def _pins(X, t0, tf, memo=None):
    """Partial concretisation for the counterexample search (sound: a model under pins is a model): a physically ordinary batch of states
    and ordinary values for the provider outputs (distinct per provider call)."""
    cs = [t0.t == 60, tf.t == 120]
    if memo is not None:
        base = {"E": [[Fraction(3, 5), Fraction(-4, 5), 0], [Fraction(4, 5), Fraction(3, 5), 0], [0, 0, 1]], "sun": [120000000, -80000000, -35000000],
                "moon": [250000, 260000, 110000], "g": [Fraction(-8, 10 ** 6), Fraction(3, 10 ** 6), Fraction(5, 10 ** 6)], "nu": 1}
        pyth = [(3, 4, 5), (5, 12, 13), (8, 15, 17), (7, 24, 25), (20, 21, 29), (9, 40, 41)]
        seen_e = {}
        for n, (key, (_ts, v)) in enumerate(memo.tab.items()):
            if key[0] not in base:
                continue  # quantities the code derives from an epoch beyond the modelled providers stay free
            b = np.array(base[key[0]], dtype=object)
            if key[0] in ("g", "nu"):
                b = b * Fraction(10 + n, 10 + 2 * n)
            if key[0] == "E":  # distinct rotation-matrix symbols get distinct rotations about the pole
                vid = _zt(np.asarray(v, dtype=object).ravel()[0]).get_id()
                a_, b_, c_ = pyth[seen_e.setdefault(vid, len(seen_e)) % len(pyth)]
                b = np.array([[Fraction(a_, c_), Fraction(-b_, c_), 0], [Fraction(b_, c_), Fraction(a_, c_), 0], [0, 0, 1]], dtype=object)
            for q, val in zip(np.asarray(v, dtype=object).ravel(), np.asarray(b, dtype=object).ravel()):
                cs.append(_zt(q) == rv(Fraction(val)))
    K = X.shape[1]
    for j in range(K):
        for i in range(6):
            sgn = -1 if (i + j) % 3 == 2 else 1
            cs.append(X[i, j].t == rv(Fraction(round(X_LEO[i] * 1000 * sgn * (1 + Fraction(7 * j + i, 100)))) / 1000))
    return cs


def _relaxed(path, cons, delta=Fraction(1, 10 ** 12)):
    """The constraints with every sqrt contract  r >= 0 & r*r == a  widened to  r > 0 & a(1-d) <= r*r <= a(1+d):  the feasible set gets an
    interior, so nlsat can pick rational sample points instead of towers of algebraic numbers.  An over-approximation: only for the
    counterexample search, whose result is replayed on the real code."""
    defs = {}
    for r, a in path.apps.get("sqrt", []):
        defs[z3.And(r >= 0, r * r == a).get_id()] = z3.And(r > 0, r * r >= a * rv(1 - delta), r * r <= a * rv(1 + delta))
    return [defs.get(c.get_id(), c) for c in cons]


def _prove_eq(rep, label, pairs, path, cons, pins, timeout_ms=30000, **kw):
    """Equality of terms produced by the real code.  unsat -> proved.  When nlsat gives no verdict on the open query, a counterexample is searched
    with the states and provider outputs pinned to ordinary rationals and the sqrt contracts widened by 1e-12 (relative), asking for a difference
    of more than 1e-9; a model found there is handed to Report.prove as a point and replayed like any other counterexample; no model there leaves
    the item undecided (never proved)."""
    goal = z3.And(*[x == y for x, y in pairs])
    v = refute(goal, cons, timeout_ms)
    if v.status == "sat":
        return rep.prove(label, goal, cons, timeout_ms=timeout_ms, **kw)
    if v.status == "unsat":
        rep._item(label, "prove", v)
        rep.sample({"obligation": f"{rep.ob}:{label}", "verdict": "unsat", "what": kw.get("sample")})
        return True
    thr = rv(Fraction(1, 10 ** 9))
    rel = _relaxed(path, cons) + list(pins)
    v2 = refute(z3.And(*[z3.And(x - y <= thr, y - x <= thr) for x, y in pairs]), rel, timeout_ms)
    if v2.status == "sat":
        point = []
        for dcl in v2.model.decls():
            val = v2.model[dcl]
            if dcl.arity() == 0 and z3.is_rational_value(val):
                point.append(dcl() == val)
        return rep.prove(label, goal, rel + point, timeout_ms=timeout_ms, **kw)
    rep.undecided(label, f"no verdict on the open query ({v.reason}); pinned, relaxed query: {v2.status}")
    return None


def _o1_inputs(dynname, X, t0, tf):
    def inputs(m):
        return {"_replay": "batch", "dyn": dynname, "state": marray(m, X), "t0": mfloat(m, t0.t), "tf": mfloat(m, tf.t)}

    return inputs


def o1_batch(dynname, Ks, nsteps):
    """propagate(t0, tf, X)[:, j] == propagate(t0, tf, X[:, j]) for every column, real propagate + real derivative, contract integrator."""

    def fn(rep):
        from resonaate.dynamics import celestial as CEL
        from resonaate.dynamics import two_body as TBD
        from resonaate.dynamics.dynamics_base import DynamicsErrorFlag

        ok, pin = pin_scipy()
        if not ok:
            rep.error("scipy-pin", f"the solve_ivp contract was read from another scipy: {pin}")
            return
        for K in Ks:
            name = f"{dynname}-K{K}-n{nsteps}"
            flags = DynamicsErrorFlag.COLLISION if nsteps == 1 else DynamicsErrorFlag(0)  # second-stage states are not range-bounded: collision check off there
            try:
                with single_path(branch_timeout_ms=10000) as p:
                    X, t0, tf = _o1_state(K)
                    ivp = SolveIvpContract(steps=(nsteps,), max_calls=2 * (K + 2))
                    _share_step_ends(p, ivp)
                    memo = _Memo()
                    with shadow(CEL, solve_ivp=ivp, spacing=ivp.spacing, max=sym_max):
                        if dynname == "twobody":
                            with shadow(TBD, empty_like=_el, norm=_nrm):
                                mk = TBD.TwoBody
                                out = mk().propagate(t0, tf, X, error_flags=flags)
                                single = [mk().propagate(t0, tf, X[:, j], error_flags=flags) for j in range(K)]
                                col = mk().propagate(t0, tf, X[:, :1], error_flags=flags)
                        else:
                            jd0 = real("jd0")
                            with _SPWorld(memo):
                                out = _sp_dynamics(jd0).propagate(t0, tf, X, error_flags=flags)
                                single = [_sp_dynamics(jd0).propagate(t0, tf, X[:, j], error_flags=flags) for j in range(K)]
                                col = _sp_dynamics(jd0).propagate(t0, tf, X[:, :1], error_flags=flags)
                    cons = p.constraints() + _tie_steps(ivp.log, [list(range(len(ivp.log)))])
            except Exception as e:  # noqa: BLE001  (the analysed code raised on symbolic input)
                Xc = np.array([[X_LEO[i] * (1 + 0.01 * j) for j in range(K)] for i in range(6)])
                d = {"_replay": "batch", "dyn": dynname, "state": Xc, "t0": 60.0, "tf": 120.0}
                rep.prove(f"{name}: raised {type(e).__name__}: {str(e)[:80]}", z3.BoolVal(False), [], inputs=lambda m, d=d: d, replay=replay_batch,
                          sample="propagate() of a batch does not raise inside the bounds")
                continue
            inputs = _o1_inputs(dynname, X, t0, tf)
            out = np.asarray(out, dtype=object)
            shape_ok = out.shape == ((6,) if K == 1 else (6, K)) and all(np.shape(s) == (6,) for s in single) and np.shape(col) == (6,)
            rep.prove(f"{name}: shapes", z3.BoolVal(bool(shape_ok)), [], inputs=inputs, replay=replay_batch,
                      sample="propagate returns (6, K) for a (6, K) batch and a flat (6,) vector for a single state")
            if not shape_ok:
                continue
            O = out.reshape(6, K)
            for j in range(K):
                pairs = [(_zt(O[i, j]), _zt(single[j][i])) for i in range(6)]
                _prove_eq(rep, f"{name}: column[{j}]", pairs, p, cons, _pins(X, t0, tf, memo), inputs=inputs, replay=replay_batch,
                          sample="column j of the batch result equals the result of propagating column j alone (same integrator steps): decoupled, layout consistent")
                if rep.status == "violation":
                    return  # fail fast: one replayed counterexample is enough
            goal = z3.And(*[_zt(col[i]) == _zt(single[0][i]) for i in range(6)])
            rep.prove(f"{name}: (6,1)==(6,)", goal, cons, timeout_ms=60000, inputs=inputs, replay=replay_batch, sample="a (6, 1) column gives the same state as the flat vector")
            rep.reachable(f"{name}: reach", cons, timeout_ms=30000)
            if dynname != "twobody":
                rep.note(f"{name}: provider outputs {len(memo.tab)}, distinct epochs {len(memo.epochs)}")

    return fn


# ------------------------------------------------------------------------------------------------------------------------
# O3: epoch bookkeeping of the perturbed derivative
# ------------------------------------------------------------------------------------------------------------------------
# (start date, elapsed s, shift s) pairs whose two start dates straddle a calendar seam inside the shipped EOP table: tried, after the model's own
# values, when the solver says the result can depend on the split through a calendar-derived quantity (an uninterpreted function of the start date)
SEAMS = [("new year after a leap year", 2459215.5), ("new year before a leap year", 2458849.5), ("leap day", 2458908.5), ("1 March of a leap year", 2458909.5),
         ("month end", 2458604.5), ("midnight", 2458300.5)]


def _epoch_pair(jd0, t, s, x):
    from resonaate.dynamics import special_perturbations as SP
    from resonaate.physics.time.stardate import JulianDate

    seen = []
    real_jd = SP.JulianDate

    class Spy(real_jd):
        def __new__(cls, v):
            seen.append(float(v))
            return real_jd.__new__(cls, v)

    with shadow(SP, JulianDate=Spy):
        a = np.array(_sp_dynamics_ctor(JulianDate(jd0))._differentialEquation(t, x.copy()), dtype=float)
        n = len(seen)
        b = np.array(_sp_dynamics_ctor(JulianDate(jd0 + s / 86400))._differentialEquation(t - s, x.copy()), dtype=float)
    want = jd0 + t / 86400
    inside = [v for v in seen[:n] if abs(v - want) < 0.5] or seen[:1]
    e_epoch = max(abs(v - want) for v in inside) if inside else float("inf")
    # perturbing accelerations change by < 1e-10 of the total per 1e-9 d; anything larger is a different epoch
    e_acc = float(np.abs(a - b).max() / np.abs(a[3:]).max())
    return (e_epoch > 2e-9 or e_acc > 1e-7), {"jd0": jd0, "t": t, "s": s, "epochs passed to JulianDate": seen[:6], "jd0 + t/86400": want, "epoch error (d)": e_epoch,
                                              "relative acceleration difference": e_acc}


def replay_epoch(d):
    """Real SpecialPerturbations (real constructor per start date) on floats: same absolute epoch split differently between start date and elapsed seconds."""
    x = np.array(d.get("state", X_LEO), dtype=float)
    cands = [("model", float(d["jd0"]), float(d["t"]), float(d["s"]))]
    if d.get("seams", True):
        cands += [(name, seam - 0.25, 8 * 3600.0, 7 * 3600.0) for name, seam in SEAMS]
    tried = []
    for name, jd0, t, s in cands:
        try:
            bad, det = _epoch_pair(jd0, t, s, x)
        except Exception as e:  # noqa: BLE001
            if name == "model" and "EOP" not in f"{type(e).__name__}{e}":
                return True, {"raised": f"{type(e).__name__}: {e}"[:300]}
            tried.append({"candidate": name, "raised": f"{type(e).__name__}: {e}"[:120]})
            continue
        det["candidate"] = name
        if bad:
            return True, det
        tried.append({"candidate": name, "relative acceleration difference": det["relative acceleration difference"], "epoch error (d)": det["epoch error (d)"]})
    return False, {"tried": tried}


def o3_epoch(rep):
    """Real-ideal: every provider is asked for jd0 + t/86400, and the result of propagate() is unchanged when the same absolute epoch is
    split as (jd0 + s/86400, t - s)."""
    from resonaate.dynamics import celestial as CEL

    for K in (1, 2):
        with single_path(branch_timeout_ms=10000) as p:
            X, t0, tf = _o1_state(K)
            jd0, s = real("jd0"), real("s")
            assume(jd0.t >= rv(2400000.5), jd0.t <= rv(2500000.5), s.t >= -T_MAX, s.t <= T_MAX)
            ivp = SolveIvpContract(steps=(1,), max_calls=4)
            memo = _Memo()
            with shadow(CEL, solve_ivp=ivp, spacing=ivp.spacing, max=sym_max), _SPWorld(memo):
                a = _sp_dynamics_ctor(jd0).propagate(t0, tf, X)
                n_first = len(memo.asked)
                b = _sp_dynamics_ctor(jd0 + s / 86400).propagate(t0 - s, tf - s, X)
            cons = p.constraints()

            def inputs(m, X=X, t0=t0, jd0=jd0, s=s):
                sv = mfloat(m, s.t)
                return {"_replay": "epoch", "jd0": mfloat(m, jd0.t), "t": mfloat(m, t0.t) + 3600.0, "s": sv if abs(sv) > 1.0 else 1800.0, "state": X_LEO}

            epoch = jd0.t + t0.t / 86400
            if not memo.asked:
                rep.error(f"K{K}: providers", "the epoch providers were not consulted")
                continue
            rep.prove(f"K{K}: epoch", z3.And(*[x == epoch for _w, x in memo.asked[:n_first]]), cons, inputs=inputs, replay=replay_epoch,
                      sample="every epoch-dependent provider inside the perturbed derivative is asked for init_julian_date + t/86400")
            if rep.status == "violation":
                return  # fail fast: one replayed counterexample is enough
            pairs = [(_zt(u), _zt(v)) for u, v in zip(np.asarray(a, dtype=object).ravel(), np.asarray(b, dtype=object).ravel())]
            _prove_eq(rep, f"K{K}: split-invariance", pairs, p, cons, _pins(X, t0, tf, memo), inputs=inputs, replay=replay_epoch,
                      sample="propagate() from (jd0, t) equals propagate() from (jd0 + s/86400, t - s): the result depends on the absolute epoch only")
            rep.prove(f"K{K}: one-epoch", z3.BoolVal(len(memo.epochs) == 1), [], inputs=inputs, replay=replay_epoch, sample="both splits consult the providers at one and the same epoch")
            rep.reachable(f"K{K}: reach", cons + [s.t >= 60], timeout_ms=30000)


def o3_epoch_fp(rep):
    """IEEE doubles (relaxed rounding): the epoch computed by the real line `JulianDate(self.init_julian_date + time / 86400)`."""
    from resonaate.dynamics import special_perturbations as SP
    from symx import fp

    class _Stop(Exception):
        pass

    def jd_capture(x):
        raise _Stop(x)

    def run_one(tag):
        jd0 = fp.fresh_float(f"jd0{tag}", Fraction(4800001, 2), Fraction(5000001, 2), -31)
        t = fp.fresh_float(f"t{tag}", 0, 2 ** 20, -33)
        dyn = _sp_dynamics(jd0)
        try:
            with shadow(SP, JulianDate=jd_capture):
                dyn._differentialEquation(t, np.array(X_LEO, dtype=float))
        except _Stop as e:
            return jd0, t, e.args[0]
        raise RuntimeError("JulianDate was not constructed")

    with fp.mode("relaxed"), single_path() as p:
        jda, ta, ea = run_one("a")
        jdb, tb, eb = run_one("b")
        if not isinstance(ea, fp.SFloat):
            rep.error("epoch", f"epoch is not a symbolic double: {ea!r}")
            return
        cons = p.constraints()
        tol = rv(EPOCH_TOL)
        exact_a, exact_b = jda.t + ta.t / 86400, jdb.t + tb.t / 86400

        def inputs(m):
            return {"_replay": "epoch", "jd0": float(mfloat(m, jda.t)), "t": float(mfloat(m, ta.t)), "s": 1800.0}

        rep.prove("epoch within 1e-9 d of jd0 + t/86400", _near(ea.t, exact_a, tol), cons, inputs=inputs, replay=replay_epoch,
                  sample="double arithmetic: the epoch used inside the perturbed derivative is within 1e-9 d (86 us) of init_jd + t/86400 for every start date and elapsed time")
        rep.prove("two splits of one epoch agree within 2.5e-9 d", z3.Implies(_near(exact_a, exact_b, rv(Fraction(1, 2) * EPOCH_TOL)), _near(ea.t, eb.t, rv(Fraction(5, 2) * EPOCH_TOL))), cons,
                  inputs=inputs, replay=replay_epoch,
                  sample="double arithmetic: two (start date, elapsed seconds) pairs whose exact epochs agree within 0.5e-9 d give epochs within 2.5e-9 d of each other")
        rep.reachable("reach: a one-hour shift", cons + [tb.t == ta.t - 3600, ta.t >= 7200, _near(exact_a, exact_b, rv(Fraction(1, 2) * EPOCH_TOL))])
        rep.feasible("tightness: 1e-10 d is exceeded", cons + [ea.t - exact_a > rv(Fraction(1, 10 ** 10))])


# ------------------------------------------------------------------------------------------------------------------------
# O3-factory: the dynamics object handed out by the real dynamicsFactory() for a clock that has already advanced
# ------------------------------------------------------------------------------------------------------------------------
JD_VIS = (2457000, 2459500)  # start dates for which the shipped EOP table has rows (counterexample search / replays only)
_CFG = [None]


def _factory_cfgs():
    """Real, concrete configuration objects of a spacecraft under special perturbations (Sun + Moon, SRP, relativity)."""
    if _CFG[0] is None:
        from resonaate.scenario.config.agent_config import AgentConfig
        from resonaate.scenario.config.geopotential_config import GeopotentialConfig
        from resonaate.scenario.config.perturbations_config import PerturbationsConfig
        from resonaate.scenario.config.propagation_config import PropagationConfig

        agent = AgentConfig(id=7, name="late", state={"type": "eci", "position": X_LEO[:3], "velocity": X_LEO[3:]}, platform={"type": "spacecraft"})
        pert = PerturbationsConfig(third_bodies=SP_CFG["third_bodies"], solar_radiation_pressure=SP_CFG["srp"], general_relativity=SP_CFG["gr"])
        _CFG[0] = (agent, PropagationConfig(), GeopotentialConfig(), pert)
    return _CFG[0]


def _bare_clock(jd_start, time):
    """A real ScenarioClock without its constructor's database traffic (one Epoch row per step): the attributes the constructor sets are set
    directly; the real properties (julian_date_epoch, ...) are what the factory reads.  The symbolic clock has no calendar attributes."""
    from resonaate.scenario.clock import ScenarioClock

    ST = type(time)
    clk = object.__new__(ScenarioClock)
    clk.julian_date_start = jd_start
    clk.time = time
    clk.initial_time = ST(0)
    clk.time_span = clk.stop_time = ST(2 * T_MAX)
    clk.dt_step = ST(60)
    clk.julian_date_stop = clk.stop_time.convertToJulianDate(jd_start)
    if isinstance(time, float):  # replays: the calendar attributes as well
        import logging
        from datetime import timedelta

        from resonaate.physics.time.stardate import julianDateToDatetime

        clk.datetime_start = julianDateToDatetime(jd_start)
        clk.datetime_stop = clk.datetime_start + timedelta(seconds=float(clk.time_span))
        clk.logger = logging.getLogger("resonaate")
    return clk


class _ClockWorld:
    """ScenarioTime / JulianDate (float subclasses) re-based onto SReal (real method bodies, symx.timeenv.rebase) so that the
    clock's elapsed time and start date are solver variables; `float` inside stardate.py keeps proxies."""

    def __enter__(self):
        import builtins

        from resonaate.physics.time import stardate as SD
        from symx.timeenv import rebase

        class _SR(SReal):
            __slots__ = ()

            def __init__(self, t):
                SReal.__init__(self, t.t if isinstance(t, SReal) else t)

        self.ST, self.JD = rebase(SD.ScenarioTime, base=_SR), rebase(SD.JulianDate, base=_SR)

        def fl(x):
            return SReal(x.t) if isinstance(x, SReal) else builtins.float(x)

        import resonaate.dynamics as DYN

        self.cms = [shadow(SD, float=fl, ScenarioTime=self.ST, JulianDate=self.JD), shadow(DYN, float=fl)]
        for c in self.cms:
            c.__enter__()
        return self

    def clock(self, jd_start, time):
        return _bare_clock(self.JD(jd_start), self.ST(time))

    def __exit__(self, *a):
        for c in reversed(self.cms):
            c.__exit__(*a)
        return False


def replay_factory(d):
    """Real dynamicsFactory on floats: a spacecraft created when the clock reads D seconds, its derivative at elapsed scenario time t >= D, against
    (1) the epoch jd_start + t/86400 the providers have to be asked for and (2) the same absolute epoch split differently: a scenario whose start date
    is shifted by s seconds (clock reading D - s) and a scenario that starts at the join epoch (clock reading 0), both through the same factory."""
    import resonaate.dynamics as DYN
    from resonaate.dynamics import special_perturbations as SP
    from resonaate.physics.time.stardate import JulianDate, ScenarioTime

    x = np.array(d.get("state", X_LEO), dtype=float).ravel()[:6]
    jd0, D, t, s = float(d["jd0"]), float(d["D"]), float(d["t"]), float(d["s"])
    cfgs = _factory_cfgs()
    seen = []
    real_jd = SP.JulianDate

    def spy(v):
        seen.append(float(v))
        return real_jd(v)

    try:
        dyn = DYN.dynamicsFactory(*cfgs, _bare_clock(JulianDate(jd0), ScenarioTime(D)))
        with shadow(SP, JulianDate=spy):
            a = np.array(dyn._differentialEquation(t, x.copy()), dtype=float)
        refs = {}
        for name, shift in (("start date shifted by s", s), ("scenario started at the join epoch", D)):
            if D - shift < 0:
                continue
            ref = DYN.dynamicsFactory(*cfgs, _bare_clock(JulianDate(jd0 + shift / 86400), ScenarioTime(D - shift)))
            refs[name] = np.array(ref._differentialEquation(t - shift, x.copy()), dtype=float)
    except Exception as e:  # noqa: BLE001
        if type(e).__name__ == "MissingEOP":  # the shipped EOP table has no row for this date: the input cannot be replayed (not a reproduction)
            return False, {"not replayable": f"{type(e).__name__}: {e}"[:300]}
        return True, {"raised": f"{type(e).__name__}: {e}"[:300]}
    want = jd0 + t / 86400
    e_epoch = max(abs(v - want) for v in seen) if seen else float("inf")
    e_acc = max([float(np.abs(a - b).max() / np.abs(a[3:]).max()) for b in refs.values()] or [0.0])
    return (e_epoch > 2e-9 or e_acc > 1e-7), {"clock": {"jd_start": jd0, "time": D}, "t": t, "epochs passed to JulianDate": seen, "jd_start + t/86400": want, "epoch error (d)": e_epoch,
                                              "relative acceleration difference to the other splits": e_acc, "splits compared": list(refs)}


def o3_factory(rep):
    """The perturbed dynamics the real dynamicsFactory() builds from a clock reading D >= 0 elapsed seconds: callers integrate over elapsed scenario
    seconds (Agent.time = clock.time), so every provider has to be asked for clock.julian_date_start + t/86400, and the result must not depend on how
    the absolute epoch is split between start date and clock reading, nor on whether the agent joined at D or was there from the start."""
    import resonaate.dynamics as DYN
    from resonaate.dynamics import celestial as CEL
    from resonaate.dynamics import two_body as TBD

    def run():
        X, t0, tf = _o1_state(1)
        jd0, D, s = real("jd0"), real("D"), real("s")
        assume(jd0.t >= rv(2400000.5), jd0.t <= rv(2500000.5), D.t >= 0, D.t <= t0.t, s.t >= -T_MAX, s.t <= D.t)
        ivp = SolveIvpContract(steps=(1,), max_calls=8)
        _share_step_ends(cur(), ivp)
        memo = _Memo()
        cfgs = _factory_cfgs()
        with _ClockWorld() as cw, shadow(CEL, solve_ivp=ivp, spacing=ivp.spacing, max=sym_max), _SPWorld(memo), shadow(TBD, empty_like=_el, norm=_nrm):
            late = DYN.dynamicsFactory(*cfgs, cw.clock(jd0, D))
            a = late.propagate(t0, tf, X)
            n_first = len(memo.asked)
            other = DYN.dynamicsFactory(*cfgs, cw.clock(jd0 + s / 86400, D - s))
            b = other.propagate(t0 - s, tf - s, X)
            first = DYN.dynamicsFactory(*cfgs, cw.clock(jd0, SReal(0)))
            c = first.propagate(t0, tf, X)
        return a, b, c, memo, n_first, (X, t0, tf, jd0, D, s), type(late).__name__

    res = explore(run, max_paths=16, max_depth=200, branch_timeout_ms=10000)
    done = 0
    for i, r in enumerate(res):
        lab = f"path#{i}"
        jd0v, Dv, t0v, sv = (z3.Real(n) for n in ("jd0", "D", "t0", "s"))

        def inputs(m, jd0v=jd0v, Dv=Dv, t0v=t0v, sv=sv):
            return {"_replay": "factory", "jd0": mfloat(m, jd0v), "D": mfloat(m, Dv), "t": mfloat(m, t0v), "s": mfloat(m, sv),
                    "state": [mfloat(m, z3.Real(f"x_{k}_0")) for k in range(6)]}

        in_table = [jd0v >= JD_VIS[0], jd0v <= JD_VIS[1], t0v <= 86400]
        visible = [in_table + [Dv >= 3600, sv >= 600, Dv - sv >= 600], in_table + [Dv - sv >= 600, sv <= -600], in_table]
        kw = dict(inputs=inputs, replay=replay_factory)
        if r.exc is not None:
            import traceback

            rep.note(f"{lab} raised: {''.join(traceback.format_exception(r.exc))[-500:]}")
            _decide(rep, f"{lab}: no-exception [{type(r.exc).__name__}]", z3.BoolVal(False), r.constraints, visible, sample="factory + propagate do not raise inside the bounds", **kw)
            if rep.status == "violation":
                return  # fail fast: one replayed counterexample is enough
            continue
        a, b, c, memo, n_first, (X, t0, tf, jd0, D, s), kind = r.out
        cons = r.constraints
        if not memo.asked[:n_first]:
            _decide(rep, f"{lab}: providers consulted [factory returned {kind}]", z3.BoolVal(False), cons, visible,
                    sample="the dynamics built for the special-perturbations model consults the epoch-dependent providers", **kw)
            if rep.status == "violation":
                return
            continue
        tol = rv(EPOCH_TOL)
        epoch = jd0.t + t0.t / 86400
        _decide(rep, f"{lab}: epoch", z3.And(*[_near(x, epoch, tol) for _w, x in memo.asked[:n_first]]), cons, visible,
                sample="dynamics built by dynamicsFactory while the clock reads D seconds: every provider inside the derivative at elapsed scenario time t is asked for "
                       "clock.julian_date_start + t/86400 (within 1e-9 d)", **kw)
        if rep.status == "violation":
            return  # fail fast: one replayed counterexample is enough
        for name, o in (("split-invariance", b), ("late-join", c)):
            pairs = [(_zt(u), _zt(v)) for u, v in zip(np.asarray(a, dtype=object).ravel(), np.asarray(o, dtype=object).ravel())]
            _decide(rep, f"{lab}: {name}", z3.And(*[x == y for x, y in pairs]), cons, visible,
                    sample={"split-invariance": "factory(clock(jd0, D)).propagate(t, ..) equals factory(clock(jd0 + s/86400, D - s)).propagate(t - s, ..)",
                            "late-join": "an agent created at clock reading D is propagated like one created at clock reading 0 of the same scenario"}[name], **kw)
            if rep.status == "violation":
                return
        rep.prove(f"{lab}: one-epoch", z3.BoolVal(len(memo.epochs) == 1), [], sample="all three dynamics objects consult the providers at one and the same epoch", **kw)
        rep.reachable(f"{lab}: reach (joined an hour after the start, start date shifted)", cons + [D.t >= 3600, s.t >= 600, t0.t >= D.t + 60], timeout_ms=30000)
        done += 1
    if not done and rep.status == "ok":
        rep.error("reach", "no completed path")


# ------------------------------------------------------------------------------------------------------------------------
# O3-reuse: a dynamics object that has already served a call behaves like a fresh one (no state carried between calls)
# ------------------------------------------------------------------------------------------------------------------------
# counterexample search only: (first interval [t0, tf], second interval [u0, uf]) shapes a replay with the real integrator can see
REUSE_PINS = [dict(t0=25200, tf=46800, u0=3600, uf=7200),  # the second interval lies hours before the first one
              dict(t0=3600, tf=25200, u0=3630, uf=7230),  # the second interval starts just after the first one started, hours before it ended
              dict(t0=3600, tf=3610, u0=3630, uf=7230),  # a short first interval, the second one starts within a minute of it
              dict(t0=3600, tf=7200, u0=25200, uf=28800)]  # the second interval lies hours after the first one


def replay_reuse(d):
    """Real SpecialPerturbations + real scipy: one object serves [t0, tf] and is then asked for [u0, uf]; a fresh object is asked for [u0, uf] only.
    The code is deterministic, so the two results agree to the last bit unless the object carries state from one call to the next."""
    from resonaate.physics.time.stardate import JulianDate

    jd0 = float(d["jd0"])
    t0, tf, u0, uf = (float(d[k]) for k in ("t0", "tf", "u0", "uf"))
    X, Y = np.array(d["first_state"], dtype=float), np.array(d["state"], dtype=float)
    X = X[:, 0] if X.ndim == 2 and X.shape[1] == 1 else X
    Y = Y[:, 0] if Y.ndim == 2 and Y.shape[1] == 1 else Y
    try:
        used = _sp_dynamics(JulianDate(jd0))
        if d.get("first") == "bulk":
            used.propagateBulk([t0, 0.5 * (t0 + tf), tf], X.reshape(6, -1).copy())
        else:
            used.propagate(t0, tf, X.copy())
        b = np.array(used.propagate(u0, uf, Y.copy()), dtype=float)
        c = np.array(_sp_dynamics(JulianDate(jd0)).propagate(u0, uf, Y.copy()), dtype=float)
    except Exception as e:  # noqa: BLE001
        if type(e).__name__ == "MissingEOP":  # the shipped EOP table has no row for this date: the input cannot be replayed (not a reproduction)
            return False, {"not replayable": f"{type(e).__name__}: {e}"[:300]}
        return True, {"raised": f"{type(e).__name__}: {e}"[:300]}
    dev = float(np.abs(b - c).max())
    return dev > 1e-9, {"first call": [t0, tf], "second call": [u0, uf], "max |used - fresh| (km, km/s)": dev, "used object": b.ravel().tolist()[:6], "fresh object": c.ravel().tolist()[:6]}


def _pins_distinct(memo):
    """Ordinary, pairwise different values for the provider outputs (one per distinct output, also for the same provider at another epoch)."""
    base = {"E": [[Fraction(3, 5), Fraction(-4, 5), 0], [Fraction(4, 5), Fraction(3, 5), 0], [0, 0, 1]], "sun": [120000000, -80000000, -35000000],
            "moon": [250000, 260000, 110000], "g": [Fraction(-8, 10 ** 6), Fraction(3, 10 ** 6), Fraction(5, 10 ** 6)], "nu": 1}
    cs, seen = [], set()
    for key, (_ts, v) in memo.tab.items():
        flat = np.asarray(v, dtype=object).ravel()
        vid = _zt(flat[0]).get_id()
        if vid in seen:
            continue
        if key[0] not in base:
            continue
        n = len(seen)
        seen.add(vid)
        b = np.array(base[key[0]], dtype=object) * Fraction(10 + n, 10 + 2 * n)
        for q, val in zip(flat, np.asarray(b, dtype=object).ravel()):
            cs.append(_zt(q) == rv(Fraction(val)))
    return cs


def _pin_state(X, k0=0):
    cs = []
    for j in range(X.shape[1]):
        for i in range(6):
            sgn = -1 if (i + j + k0) % 3 == 2 else 1
            cs.append(X[i, j].t == rv(Fraction(round(X_LEO[i] * 1000 * sgn * (1 + Fraction(7 * (j + k0) + i, 100)))) / 1000))
    return cs


def o3_reuse(cases):
    """used.propagate(u0, uf, Y) == fresh.propagate(u0, uf, Y) after `used` has served propagate(t0, tf, X) (or propagateBulk) for any two intervals
    (the second one before, inside, after the first)."""

    def fn(rep):
        from resonaate.dynamics import celestial as CEL

        ok, pin = pin_scipy()
        if not ok:
            rep.error("scipy-pin", f"the solve_ivp contract was read from another scipy: {pin}")
            return
        for first, K in cases:
            name = f"{first}-K{K}"

            def run(first=first, K=K):
                X, t0, tf = _o1_state(K)
                u0, uf, jd0 = real("u0"), real("uf"), real("jd0")
                assume(u0.t >= T_MIN, uf.t >= u0.t + DT_MIN, uf.t <= T_MAX, jd0.t >= rv(2400000.5), jd0.t <= rv(2500000.5))
                Y = reals("y", 6, K)
                for j in range(K):
                    n = _nrm(Y[:3, j])
                    assume(n.t >= rv(_earth_R() + 200.0), n.t <= rv(10 * _earth_R()))
                ivp = _Ivp(steps=(1,), max_calls=10)
                _share_step_ends(cur(), ivp)
                memo = _Memo()
                with shadow(CEL, solve_ivp=ivp, spacing=ivp.spacing, max=sym_max, zeros=sym_zeros), _SPWorld(memo):
                    used = _sp_dynamics(jd0)
                    if first == "bulk":
                        tm = real("tm")
                        assume(tm.t >= t0.t + DT_MIN, tf.t >= tm.t + DT_MIN)
                        used.propagateBulk([t0, tm, tf], X)
                    else:
                        used.propagate(t0, tf, X if K > 1 else X[:, 0])
                    y = Y if K > 1 else Y[:, 0]
                    b = used.propagate(u0, uf, y)
                    c = _sp_dynamics(jd0).propagate(u0, uf, y)
                return b, c, memo, (X, Y, t0, tf, u0, uf, jd0)

            res = explore(run, max_paths=64, max_depth=400, branch_timeout_ms=10000)
            done = 0
            for i, r in enumerate(res):
                lab = f"{name}#{i}"
                names = ("jd0", "t0", "tf", "u0", "uf")

                def inputs(m, K=K, first=first):
                    return {"_replay": "reuse", "first": first, **{n: mfloat(m, z3.Real(n)) for n in names},
                            "first_state": [[mfloat(m, z3.Real(f"x_{a}_{j}")) for j in range(K)] for a in range(6)],
                            "state": [[mfloat(m, z3.Real(f"y_{a}_{j}")) for j in range(K)] for a in range(6)]}

                kw = dict(inputs=inputs, replay=replay_reuse)
                tv = {n: z3.Real(n) for n in names}
                if r.exc is not None:
                    import traceback

                    rep.note(f"{lab} raised: {''.join(traceback.format_exception(r.exc))[-500:]}")
                    rep.prove(f"{lab}: no-exception [{type(r.exc).__name__}]", z3.BoolVal(False), r.constraints, timeout_ms=60000, sample="a second call on a used object does not raise", **kw)
                    continue
                b, c, memo, (X, Y, t0, tf, u0, uf, jd0) = r.out
                cons = r.constraints
                b, c = np.asarray(b, dtype=object), np.asarray(c, dtype=object)
                if b.shape != c.shape:
                    rep.prove(f"{lab}: shape", z3.BoolVal(False), cons, sample="used and fresh object return the same shape", **kw)
                    continue
                pairs = [(_zt(u), _zt(v)) for u, v in zip(b.ravel(), c.ravel())]
                goal = z3.And(*[x == y for x, y in pairs])
                what = "a dynamics object that already served one interval returns for any other interval what a fresh object returns (no state carried between calls)"
                v = refute(goal, cons, 30000)
                if v.status == "unsat":
                    rep._item(f"{lab}: used == fresh", "prove", v)
                    rep.sample({"obligation": f"{rep.ob}:{lab}: used == fresh", "verdict": "unsat", "what": what})
                else:
                    # counterexample search with ordinary numbers: states and provider outputs (pairwise different) pinned, the two intervals pinned to one of
                    # REUSE_PINS (shapes a replay with the real integrator can see); every candidate is a solver model of the path; the first one that the
                    # real code reproduces (else the last one found) is handed to Report.prove as a point
                    base = [tv["jd0"] == rv(SP_CFG["jd0"])] + _pin_state(X) + _pin_state(Y, 1) + _pins_distinct(memo)
                    thr = rv(Fraction(1, 10 ** 9))
                    far = z3.And(*[z3.And(x - y <= thr, y - x <= thr) for x, y in pairs])
                    cand, stat = None, []
                    for pin in REUSE_PINS:
                        rel = _relaxed(r.path, cons) + base + [tv[n] == val for n, val in pin.items()]
                        v2 = refute(far, rel, 60000)
                        stat.append(v2.status)
                        if v2.status != "sat":
                            continue
                        point = [dcl() == v2.model[dcl] for dcl in v2.model.decls() if dcl.arity() == 0 and z3.is_rational_value(v2.model[dcl])]
                        cand = rel + point
                        try:
                            if replay_reuse(inputs(v2.model))[0]:
                                break
                        except Exception:  # noqa: BLE001  (Report.prove runs the replay again and records what happened)
                            break
                    if cand is not None:
                        rep.prove(f"{lab}: used == fresh", goal, cand, timeout_ms=60000, sample=what, **kw)
                    elif v.status == "sat":
                        rep.prove(f"{lab}: used == fresh", goal, cons, timeout_ms=30000, sample=what, **kw)
                    else:
                        rep.undecided(f"{lab}: used == fresh", f"no verdict on the open query ({v.reason}); pinned, relaxed queries: {stat}")
                if rep.status == "violation":
                    return  # fail fast
                done += 1
            rep.note(f"{name}: paths={len(res)}")
            if done:
                r0 = next(r for r in res if r.exc is None)
                t0v, tfv, u0v = z3.Real("t0"), z3.Real("tf"), z3.Real("u0")
                rep.reachable(f"{name}: reach (second interval starts before the first one ended)", r0.constraints + [u0v >= t0v, u0v <= tfv - 3600], timeout_ms=30000)
                rep.reachable(f"{name}: reach (second interval starts before the first one started)", r0.constraints + [u0v <= t0v - 3600], timeout_ms=30000)
                rep.reachable(f"{name}: reach (second interval after the first)", r0.constraints + [u0v >= tfv + 60], timeout_ms=30000)
            elif rep.status == "ok":
                rep.error(f"{name}: reach", "no completed path")

    return fn


# ------------------------------------------------------------------------------------------------------------------------
# O2: restart loops in the free-motion world
# ------------------------------------------------------------------------------------------------------------------------
class _FreeWorld:
    """Real TwoBody with mu -> 0: the derivative is (v, 0); solve_ivp contract; event log."""

    def __init__(self, ivp):
        self.ivp = ivp
        self.log = _Log()

    def __enter__(self):
        from resonaate.dynamics import celestial as CEL
        from resonaate.dynamics import two_body as TBD
        from resonaate.dynamics.integration_events import finite_thrust as FT
        from resonaate.dynamics.integration_events import scheduled_impulse as SI

        self.cms = [shadow(CEL, solve_ivp=self.ivp, spacing=self.ivp.spacing, max=sym_max, zeros=sym_zeros),
                    shadow(TBD, empty_like=_el, norm=lambda v: SReal(1), Earth=_Tok(mu=0.0, radius=_earth_R()), checkEarthCollision=lambda r: None),
                    shadow(SI, EventStack=self.log, zeros=sym_zeros), shadow(FT, EventStack=self.log, zeros=sym_zeros)]
        for c in self.cms:
            c.__enter__()
        return self

    def __exit__(self, *a):
        for c in reversed(self.cms):
            c.__exit__(*a)
        return False


def _free_parts(col, x, dvs):
    """One output column of the free-motion world: position_c - x_c =?= v_c * H + sum_k dv_k,c * P_k, velocity_c - v_c =?= sum_k dv_k,c * N_k.
    Returns (identity goal, H, [P_k], [N_k]) with H, P_k, N_k read off component 0 by substituting unit vectors (linear terms in the times)."""
    syms = [_zt(q) for q in x] + [_zt(q) for d in dvs for q in d]

    def at(e, one):
        return z3.simplify(z3.substitute(e, *[(s, z3.RealVal(1 if s.eq(one) else 0)) for s in syms]))

    pos0, vel0 = _zt(col[0]) - _zt(x[0]), _zt(col[3]) - _zt(x[3])
    H = at(pos0, _zt(x[3]))
    P = [at(pos0, _zt(d[0])) for d in dvs]
    N = [at(vel0, _zt(d[0])) for d in dvs]
    goals = []
    for c in range(3):
        goals.append(_zt(col[c]) - _zt(x[c]) == _zt(x[3 + c]) * H + sum((_zt(d[c]) * Pk for d, Pk in zip(dvs, P)), z3.RealVal(0)))
        goals.append(_zt(col[3 + c]) - _zt(x[3 + c]) == sum((_zt(d[c]) * Nk for d, Nk in zip(dvs, N)), z3.RealVal(0)))
    return z3.And(*goals), H, P, N


def _progress(log, grid=()):
    """Every restart begins strictly later than the previous call began and strictly after it ended (a new propagate() call of
    the compose driver begins exactly where the previous one was asked to end)."""
    cs = []
    for a, b in zip(log, log[1:]):
        end = a["root"] if a["root"] is not None else a["tf"]
        new_call = z3.Or(*[_zt(b["t0"]) == g for g in grid]) if grid else z3.BoolVal(False)
        cs += [_zt(b["t0"]) > _zt(a["t0"]), z3.Or(_zt(b["t0"]) > _zt(end), z3.And(new_call, _zt(b["t0"]) >= _zt(end)))]
    return z3.And(*cs) if cs else z3.BoolVal(True)


# ---- real runs for the replays ---------------------------------------------------------------------------------------
def _rhs(t, y):
    from resonaate.physics.bodies import Earth

    r = y[:3]
    return np.concatenate((y[3:], -float(Earth.mu) * r / np.linalg.norm(r) ** 3))


def _ref_states(x0, t0, outs, imps, at_start=True):
    """Independent reference: own two-body right-hand side, scipy DOP853, impulses applied once at their times; returns for every
    requested output time the (pre-impulse, post-impulse) pair (they differ only when an impulse sits exactly on the output time)."""
    from scipy.integrate import solve_ivp as ivp

    marks = sorted(set([float(t) for t in outs] + [float(t) for t, _dv in imps if t >= t0]))
    y = np.array(x0, dtype=float)
    t = float(t0)
    res = {}
    todo = [m for m in marks if m >= t0]
    # impulses exactly at t0
    pre = y.copy()
    for ti, dv in imps:
        if ti == t and at_start:
            y = y + np.concatenate((np.zeros(3), dv))
    if t in [float(o) for o in outs]:
        res[t] = (pre, y.copy())
    for m in todo:
        if m == t:
            continue
        sol = ivp(_rhs, (t, m), y, method="DOP853", rtol=1e-12, atol=1e-12)
        y = sol.y[:, -1]
        t = m
        pre = y.copy()
        for ti, dv in imps:
            if ti == t:
                y = y + np.concatenate((np.zeros(3), dv))
        res[t] = (pre, y.copy())
    return res


class _Spy:
    """Wrapper (not a replacement) around the real solve_ivp: records spans and event roots of every call."""

    def __init__(self, real_ivp):
        self.real, self.calls = real_ivp, []

    def __call__(self, fun, t_span, y0, **kw):
        sol = self.real(fun, t_span, y0, **kw)
        roots = [[float(v) for v in te] for te in (sol.t_events or [])]
        end = float(sol.t[-1]) if len(sol.t) else (max(max(r) for r in roots if r) if any(roots) else float(t_span[0]))
        if sol.status == 1 and any(roots):
            end = max(max(r) for r in roots if r)
        self.calls.append({"t0": float(t_span[0]), "tf": float(t_span[1]), "end": end, "roots": roots, "status": int(sol.status)})
        return sol


def _real_events(evs):
    from functools import partial

    from resonaate.dynamics.integration_events.finite_thrust import ScheduledFiniteBurn, eciBurn
    from resonaate.dynamics.integration_events.scheduled_impulse import ScheduledECIImpulse

    out = []
    k = 0
    for e in evs:
        if e["kind"] == "impulse":
            out.append(ScheduledECIImpulse(float(e["t"]), np.array(DV_REPLAY[k % 2]), 7))
            k += 1
        else:
            out.append(ScheduledFiniteBurn(float(e["ts"]), float(e["te"]), partial(eciBurn, acc_vector=np.array([1e-6, 2e-6, -1e-6])), 7))
    return out


def _real_loop(d):
    """Real TwoBody + real scipy on the counterexample's times.  d: mode propagate|compose|bulk, times [...], events [...], K.
    Returns (states per requested output, spy calls, number of getStateChange applications, exception text)."""
    from resonaate.agents.agent_base import Agent
    from resonaate.dynamics import celestial as CEL
    from resonaate.dynamics.integration_events import finite_thrust as FT
    from resonaate.dynamics.integration_events import scheduled_impulse as SI
    from resonaate.dynamics.two_body import TwoBody

    K = int(d.get("K", 1))
    times = [float(t) for t in d["times"]]
    x0 = np.array([[X_LEO[i] * (1 + 0.003 * j) for j in range(K)] for i in range(6)])
    evs = _real_events(d.get("events", []))
    spy = _Spy(CEL.solve_ivp)
    log = _Log()
    dyn = TwoBody()
    out, exc = None, None
    with shadow(CEL, solve_ivp=spy), shadow(SI, EventStack=log), shadow(FT, EventStack=log):
        try:
            if d["mode"] == "propagate":
                x = x0 if (K > 1 or d.get("shape") == "col") else x0[:, 0]
                out = [np.array(dyn.propagate(times[0], times[-1], x.copy(), scheduled_events=list(evs)), dtype=float).reshape(6, K)]
            elif d["mode"] == "compose":
                ag = _new_agent(times[0], evs)
                x = x0 if K > 1 else x0[:, 0]
                for a, b in zip(times, times[1:]):
                    ag._time = a
                    Agent.prunePropagateEvents(ag)
                    x = dyn.propagate(a, b, np.array(x, dtype=float), scheduled_events=ag.propagate_event_queue)
                out = [np.array(x, dtype=float).reshape(6, K)]
            else:
                B = np.array(dyn.propagateBulk(list(times), x0.copy(), scheduled_events=list(evs)), dtype=float)
                out = [B[..., i] for i in range(B.shape[-1])]
        except Exception as e:  # noqa: BLE001
            exc = f"{type(e).__name__}: {e}"[:300]
    napp = sum(1 for r in log.records if "Impulse" in str(getattr(r, "event_type", r.__dict__ if hasattr(r, "__dict__") else r)))
    return x0, out, spy.calls, napp, exc


def _new_agent(time, queue):
    from resonaate.agents.agent_base import Agent

    class _A(Agent):
        def getCurrentEphemeris(self):
            return None

        def importState(self, ephemeris):
            return None

        eci_state = ecef_state = lla_state = None

    ag = object.__new__(_A)
    ag._time = time
    ag._id = 7
    ag.propagate_event_queue = list(queue)
    return ag


def replay_loop(d):
    """Reproduced = the real run (real TwoBody, real scipy) deviates from the exactly-once / full-span / right-column semantics."""
    try:
        x0, out, calls, napp, exc = _real_loop(d)
    except Exception as e:  # noqa: BLE001
        return True, {"raised": f"{type(e).__name__}: {e}"[:300]}
    detail = {"solve_ivp calls (t0, end, roots)": [(c["t0"], c["end"], c["roots"]) for c in calls][:10], "impulse applications": napp}
    if exc is not None:
        detail["raised"] = exc
        return True, detail
    times = [float(t) for t in d["times"]]
    K = int(d.get("K", 1))
    imps = [(float(e["t"]), np.array(DV_REPLAY[k % 2])) for k, e in enumerate([e for e in d.get("events", []) if e["kind"] == "impulse"])]
    t0, tf = times[0], times[-1]
    bad = False
    # exactly-once count
    lo_n = sum(1 for ti, _ in imps if t0 < ti <= tf)
    hi_n = lo_n + sum(1 for ti, _ in imps if ti == t0)  # an impulse exactly on the start instant: either convention
    detail["expected impulse applications"] = [lo_n, hi_n]
    bad = bad or not lo_n <= napp <= hi_n
    # integrated span and progress
    span = sum(c["end"] - c["t0"] for c in calls)
    detail["integrated span"], detail["expected span"] = span, tf - t0
    bad = bad or abs(span - (tf - t0)) > 0.5 * float(TOL_T)
    bad = bad or any(b["t0"] <= a["t0"] for a, b in zip(calls, calls[1:]) if not (d["mode"] == "compose" and b["t0"] in times))
    # trajectory against the independent reference (coarse: catches wrong columns / wrong layout / missing or doubled impulses)
    outs = times[1:] if d["mode"] == "bulk" else [tf]
    worst = 0.0
    if len(out) != len(outs):
        detail["columns"] = len(out)
        bad = True
    else:
        for j in range(K):
            per_conv = []
            for at_start in ((True, False) if hi_n > lo_n else (True,)):
                ref = _ref_states(x0[:, j], t0, outs, imps, at_start)
                w = 0.0
                for i, to in enumerate(outs):
                    pre, post = ref[to]
                    got = out[i][:, j] if out[i].ndim == 2 else out[i]
                    e = min(np.abs(got - pre).max(), np.abs(got - post).max()) if d["mode"] == "bulk" else np.abs(got - post).max()
                    w = max(w, float(e))
                per_conv.append(w)
            worst = max(worst, min(per_conv))
    detail["max deviation from the independent reference (km, km/s)"] = worst
    bad = bad or worst > 1e-4
    return bad, detail


def replay_hang(d, limit_s=25):
    import json
    import subprocess
    import sys

    code = "import json, sys; import harness.c03 as H; d = json.loads(sys.argv[1]); H._real_loop(d); print('DONE')"
    try:
        r = subprocess.run([sys.executable, "-c", code, json.dumps(d)], capture_output=True, text=True, timeout=limit_s)
        return False, {"returned": True, "stdout": r.stdout[-200:], "stderr": r.stderr[-300:]}
    except subprocess.TimeoutExpired:
        return True, {"returned": False, "note": f"the real run did not finish within {limit_s} s (normally < 1 s)"}


def replay_raises(d):
    try:
        _x0, _out, _calls, _napp, exc = _real_loop(d)
    except Exception as e:  # noqa: BLE001
        return True, {"raised": f"{type(e).__name__}: {e}"[:300]}
    return exc is not None, {"raised": exc}


def replay_raises_or_deviates(d):
    """The real code raises on the candidate, or (when the exception was only the proxies') the real run deviates from the independent reference."""
    bad, detail = replay_raises(d)
    if bad:
        return bad, detail
    bad, detail = replay_loop(d)
    if bad:
        detail = dict(detail)
        detail["note"] = "symbolic execution could not follow the code on this path; the candidate point of the path was judged on the real code against the independent reference"
    return bad, detail


# ---- zones -----------------------------------------------------------------------------------------------------------
def _zone_cond(ti, grid, z):
    """Zone of an event time relative to the grid times: 'lt' before the first, 'gt' after the last, 'at<k>' exactly on grid[k], 'in<k>' strictly between grid[k], grid[k+1]."""
    e = rv(ETA)
    if z == "lt":
        return ti < grid[0] - e
    if z == "gt":
        return ti > grid[-1] + e
    k = int(z[2:])
    if z.startswith("at"):
        return ti == grid[k]
    return z3.And(ti > grid[k] + e, ti < grid[k + 1] - e)


def _zones(n):
    """All zones for a grid of n times."""
    out = ["lt"]
    for k in range(n):
        out.append(f"at{k}")
        if k < n - 1:
            out.append(f"in{k}")
    return out + ["gt"]


def _grid(n, prefix="t"):
    ts = [real(f"{prefix}{i}") for i in range(n)]
    assume(ts[0].t >= T_MIN, ts[-1].t <= T_MAX)
    for a, b in zip(ts, ts[1:]):
        assume(b.t >= a.t + DT_MIN)
    return ts


def _applied_expect(z, i_out):
    """Is an impulse in zone z applied at / before output grid[i_out] (grid[0] is the start)?  1, 0 or None (= either).
    None: the impulse sits exactly on that output time (the reported state is one of the two one-sided limits), or exactly on
    the start instant (whether the start instant belongs to the window is the caller's convention: the event delivery window
    of the scenario loop is (lb, ub]); in both cases the count must still be 0 or 1 and position/velocity must be consistent."""
    if z == "lt" or z == "gt":
        return 0
    k = int(z[2:])
    if z.startswith("at"):
        if k == 0:
            return None
        return 1 if i_out > k else (None if i_out == k else 0)
    return 1 if i_out > k else 0


def _decide(rep, label, goal, cons, visible, timeout_ms=60000, sample=None, **kw):
    """Prove `goal`; when it is refuted, look for the counterexample again under `visible` (extra constraints that make the effect large enough
    to be seen in a replay with the real integrator; restricting the search for a counterexample is always sound)."""
    v = refute(goal, cons, timeout_ms)
    if v.status == "unsat":
        rep._item(label, "prove", v)
        if sample is not None:
            rep.sample({"obligation": f"{rep.ob}:{label}", "verdict": "unsat", "what": sample})
        return True
    if visible and v.status == "sat":
        for vis in (visible if isinstance(visible[0], (list, tuple)) else [visible]):  # alternatives, most visible first
            if refute(goal, list(cons) + list(vis), timeout_ms).status == "sat":
                cons = list(cons) + list(vis)
                break
    return rep.prove(label, goal, cons, timeout_ms=timeout_ms, sample=sample, **kw)


def _handle_exception(rep, label, r, d, finding_regions=None):
    """A path on which the analysed code raised / used up the call budget."""
    if isinstance(r.exc, ContractBudget):
        ok = rep.prove(f"{label}: restart-progress", _progress(r.exc.log), r.constraints, timeout_ms=60000, inputs=lambda m: _times_from_model(m, d, "hang"), replay=replay_hang,
                       sample="every restart of the integration begins strictly later than the previous one (the loop terminates)")
        if ok:
            rep.undecided(f"{label}: budget", str(r.exc))
        return
    import traceback

    rep.note(f"{label} raised: {''.join(traceback.format_exception(r.exc))[-500:]}")
    # The candidate is drawn as a *generic* point of the path (times with a fractional part, when the path allows it): if the real code does not raise
    # there, the exception came from a construct the proxies cannot follow (a conversion to a C double, say) - the candidate is then judged on the
    # real code against the independent reference (replay_loop); only a reproduced deviation is reported, anything else stays a harness error.
    cons = list(r.constraints)
    names = list(d["times"]) + [e[k] for e in d.get("events", []) for k in ("t", "ts", "te") if k in e]
    generic = [z3.And(z3.Real(n) - z3.ToReal(z3.ToInt(z3.Real(n))) >= rv(0.3), z3.Real(n) - z3.ToReal(z3.ToInt(z3.Real(n))) <= rv(0.45)) for n in names]
    from symx.core import solve

    if solve(cons + generic, 20000).status == "sat":
        cons = cons + generic
    rep.prove(f"{label}: no-exception [{type(r.exc).__name__}]", z3.BoolVal(False), cons, timeout_ms=60000, inputs=lambda m: _times_from_model(m, d, "raises-or-deviates"),
              replay=replay_raises_or_deviates, regions=finding_regions, sample="the propagation does not raise inside the bounds")


def _times_from_model(m, d, tag):
    """Concrete replay input from a model: the template d names the z3 time variables."""
    out = {"_replay": tag, "mode": d["mode"], "K": d.get("K", 1), "times": [mfloat(m, z3.Real(n)) for n in d["times"]], "events": []}
    if "shape" in d:
        out["shape"] = d["shape"]
    for e in d.get("events", []):
        if e["kind"] == "impulse":
            out["events"].append({"kind": "impulse", "t": mfloat(m, z3.Real(e["t"]))})
        else:
            out["events"].append({"kind": "burn", "ts": mfloat(m, z3.Real(e["ts"])), "te": mfloat(m, z3.Real(e["te"]))})
    return out


CONFIGS = {"quick": [((2,), 8)], "thorough": [((2,), 8), ((1, 2), 8), ((3,), 8)]}


def _cfg_tag(cfg):
    return "n=" + "|".join(map(str, cfg[0]))


def _loop_run(mode, ngrid, zones, K, cfg, burn=None, shape="flat", retrig=0):
    """Build the symbolic run: grid of `ngrid` times, one impulse per entry of `zones`, optionally one finite burn (zones of start/end)."""
    from functools import partial

    from resonaate.agents.agent_base import Agent
    from resonaate.dynamics import two_body as TBD
    from resonaate.dynamics.integration_events import finite_thrust as FT
    from resonaate.dynamics.integration_events import scheduled_impulse as SI

    def run():
        ts = _grid(ngrid)
        g = [t.t for t in ts]
        X = reals("x", 6, K)
        tis, dvs = [], []
        for k, z in enumerate(zones):
            ti = real(f"ti{k}")
            assume(ti.t >= T_MIN, ti.t <= T_MAX, _zone_cond(ti.t, g, z))
            tis.append(ti)
            dvs.append(reals(f"dv{k}", 3))
        for a in range(len(tis)):
            for b in range(a + 1, len(tis)):
                assume(z3.Or(tis[a].t - tis[b].t >= DT_MIN, tis[b].t - tis[a].t >= DT_MIN))
        ivp = _Ivp(steps=cfg[0], max_calls=cfg[1], max_retrigger=retrig)
        with _FreeWorld(ivp) as w:
            evs = [SI.ScheduledECIImpulse(ti, dv, 7) for ti, dv in zip(tis, dvs)]
            if burn is not None:
                bs, be = real("bs"), real("be")
                assume(bs.t >= T_MIN, be.t <= T_MAX, be.t >= bs.t + DT_MIN, _zone_cond(bs.t, g, burn[0]), _zone_cond(be.t, g, burn[1]))
                for ti in tis:
                    assume(z3.Or(ti.t - bs.t >= DT_MIN, bs.t - ti.t >= DT_MIN), z3.Or(ti.t - be.t >= DT_MIN, be.t - ti.t >= DT_MIN))
                evs.insert(0, FT.ScheduledFiniteBurn(bs, be, partial(FT.eciBurn, acc_vector=reals("acc", 3)), 7))
            dyn = TBD.TwoBody()
            if mode == "propagate":
                x = X if K > 1 else (X[:, 0] if shape == "flat" else X)
                out = dyn.propagate(ts[0], ts[-1], x, scheduled_events=evs)
            elif mode == "compose":
                ag = _new_agent(ts[0], evs)
                x = X if K > 1 else X[:, 0]
                for a, b in zip(ts, ts[1:]):
                    ag._time = a
                    Agent.prunePropagateEvents(ag)
                    x = dyn.propagate(a, b, x, scheduled_events=ag.propagate_event_queue)
                out = x
            else:
                out = dyn.propagateBulk(list(ts), X, scheduled_events=evs)
            nrec = sum(1 for r in w.log.records if "Impulse" in str(r.event_type))
        return out, X, ts, tis, dvs, ivp, nrec

    return run


def _template(mode, ngrid, zones, K, burn, shape):
    d = {"mode": mode, "K": K, "times": [f"t{i}" for i in range(ngrid)], "events": [{"kind": "impulse", "t": f"ti{k}"} for k in range(len(zones))], "shape": shape}
    if burn is not None:
        d["events"].insert(0, {"kind": "burn", "ts": "bs", "te": "be"})
    return d


def _loop_case(rep, mode, ngrid, zones, K, cfg, burn=None, shape="flat", regions=None):
    """One (mode, zones) class: explore every path, prove the ring identity per path, decide span / count / time claims per path."""
    tag = f"{mode}[{','.join(zones) or '-'}{'|burn ' + '-'.join(burn) if burn else ''}|K{K}{'' if shape == 'flat' else 'c'}|{_cfg_tag(cfg)}]"
    d = _template(mode, ngrid, zones, K, burn, shape)
    res = explore(_loop_run(mode, ngrid, zones, K, cfg, burn, shape), max_paths=1500, max_depth=400, branch_timeout_ms=10000)
    if not res:
        # every path was cut by the contract's R2 assumption (after a restart the same crossing does not fire again): the restart does not get past
        # the crossing.  Explore again with re-triggers allowed; a stall then shows up as a used-up call budget whose restarts make no progress.
        rep.note(f"{tag}: no path under R2 (no re-trigger); exploring with re-trigger chains <= 2")
        res = explore(_loop_run(mode, ngrid, zones, K, (cfg[0], 6), burn, shape, retrig=2), max_paths=1500, max_depth=400, branch_timeout_ms=10000)
    n_ok = 0
    tol = rv(TOL_T)
    nviol = len(rep.violations)
    for i, r in enumerate(res):
        lab = f"{tag}#{i}"
        if len(rep.violations) > nviol:
            break  # one replayed counterexample per class is enough
        if r.exc is not None:
            _handle_exception(rep, lab, r, d, regions)
            continue
        out, X, ts, tis, dvs, ivp, nrec = r.out
        out = np.asarray(out, dtype=object)
        g = [t.t for t in ts]
        inputs = lambda m, d=d: _times_from_model(m, d, "loop")  # noqa: E731
        kw = dict(inputs=inputs, replay=replay_loop, regions=regions)
        nout = ngrid - 1 if mode == "bulk" else 1
        want_shape = (6, K, nout) if mode == "bulk" else ((6,) if K == 1 else (6, K))
        if out.shape != want_shape:
            rep.prove(f"{lab}: shape", z3.BoolVal(False), r.constraints, sample=f"result has shape {want_shape}", **kw)
            continue
        O = out.reshape(6, K, nout)
        goals_id, claims = [], []
        for io in range(nout):
            i_out = io + 1 if mode == "bulk" else ngrid - 1
            gid, H, P, N = _free_parts(O[:, 0, io], X[:, 0], dvs)
            goals_id.append(gid)
            for j in range(1, K):  # the other columns: same span, same impulses
                for c in range(3):
                    goals_id.append(_zt(O[c, j, io]) - _zt(X[c, j]) == _zt(X[3 + c, j]) * H + sum((_zt(dv[c]) * Pk for dv, Pk in zip(dvs, P)), z3.RealVal(0)))
                    goals_id.append(_zt(O[3 + c, j, io]) - _zt(X[3 + c, j]) == sum((_zt(dv[c]) * Nk for dv, Nk in zip(dvs, N)), z3.RealVal(0)))
            claims.append(_near(H, g[i_out] - g[0], tol))
            for k, z in enumerate(zones):
                exp = _applied_expect(z, i_out)
                since = g[i_out] - tis[k].t
                if exp is None:
                    claims.append(z3.And(z3.Or(N[k] == 0, N[k] == 1), _near(P[k], N[k] * since, tol)))
                elif exp == 1:
                    claims.append(z3.And(N[k] == 1, _near(P[k], since, tol)))
                else:
                    claims.append(z3.And(N[k] == 0, P[k] == 0))
        ok = rep.prove(f"{lab}: ring-identity", z3.And(*goals_id), [], timeout_ms=30000,
                       sample="free-motion world: returned state = x + v*H + sum dv_k*P_k, v + sum dv_k*N_k with H, P_k, N_k common to all components and columns", **kw)
        if not ok:
            continue
        # total number of getStateChange applications over the whole call = what the final state carries
        claims.append(z3.RealVal(nrec) == sum(N, z3.RealVal(0)))
        visible = []
        for k, z in enumerate(zones):  # keep event times a quarter of a second away from the grid times they are not on
            for gt in g:
                if not (z.startswith("at") and gt is g[int(z[2:])]):
                    visible.append(z3.Or(tis[k].t - gt >= rv(0.25), gt - tis[k].t >= rv(0.25)))
        _decide(rep, f"{lab}: span/count/time", z3.And(*claims), r.constraints, visible, timeout_ms=60000,
                  sample=f"{mode}: integrated span = t_out - t_0, each impulse applied exactly once iff its time lies in the window (at its time), within {float(TOL_T)} s", **kw)
        rep.prove(f"{lab}: progress", _progress(ivp.log, g[1:-1] if mode == "compose" else ()), r.constraints, timeout_ms=60000, inputs=lambda m, d=d: _times_from_model(m, d, "hang"), replay=replay_hang,
                  sample="every restart begins strictly after the previous call ended")
        n_ok += 1
    rep.note(f"{tag}: paths={len(res)}, completed={n_ok}")
    if n_ok:
        first = next(r for r in res if r.exc is None)
        rep.reachable(f"{tag}: reach", first.constraints, timeout_ms=30000)
    elif not res:
        rep.error(f"{tag}: reach", "no path")


def o2_cases(cases, tier, regions_fn=None):
    def fn(rep):
        ok, pin = pin_scipy()
        if not ok:
            rep.error("scipy-pin", f"the solve_ivp contract was read from another scipy: {pin}")
            return
        for cfg in CONFIGS[tier]:
            for case in cases:
                _loop_case(rep, cfg=cfg, regions=regions_fn() if regions_fn else None, **case)

    return fn


def replay_noevent(d):
    from resonaate.dynamics.two_body import TwoBody

    out = {}
    bad = False
    x = np.array(X_LEO)
    for method in ("RK45", "DOP853"):
        dyn = TwoBody(method=method)
        a = dyn.propagate(60.0, 120.0, x.copy())
        b = dyn.propagate(60.0, 120.0, x.copy()[:, None])
        c = dyn.propagate(60.0, 120.0, np.stack([x, x * 1.001], axis=1))
        out[method] = [list(np.shape(a)), list(np.shape(b)), list(np.shape(c))]
        bad = bad or np.shape(a) != (6,) or np.size(b) != 6 or np.shape(c) != (6, 2) or np.abs(np.ravel(b) - a).max() > 1e-9 or np.abs(c[:, 0] - a).max() > 1e-6
    for t0, tf in ((60.0, 60.0), (61.0, 60.0)):
        try:
            TwoBody().propagate(t0, tf, x.copy())
            bad = True
            out[f"propagate({t0},{tf})"] = "returned"
        except ValueError:
            out[f"propagate({t0},{tf})"] = "ValueError"
    return bad, out


def o2_noevent(rep):
    """No events: identity round trip of the layout (zero velocity: the integrator returns what it was handed), shapes, ValueError for an empty span,
    the configured method string reaches solve_ivp."""
    from resonaate.dynamics import two_body as TBD

    for K, shape in ((1, "flat"), (1, "col"), (2, "batch"), (3, "batch")):
        name = f"K{K}{shape}"
        with single_path() as p:
            ts = _grid(2)
            X = reals("x", 6, K)
            methods = []

            class _IvpM(_Ivp):
                def __call__(self, fun, t_span, y0, method="RK45", **kw):
                    methods.append(method)
                    return super().__call__(fun, t_span, y0, method=method, **kw)

            ivp = _IvpM(steps=(2,), max_calls=2)
            with _FreeWorld(ivp):
                x = X[:, 0] if shape == "flat" else X
                dyn = TBD.TwoBody(method="DOP853")
                out = np.asarray(dyn.propagate(ts[0], ts[1], x), dtype=object)
                Z = x.copy()
                Z[3:] = SReal(0)  # a state at rest: the integrator's final state is its initial state
                back = np.asarray(dyn.propagate(ts[0], ts[1], Z), dtype=object)
            cons = p.constraints()
            inputs = lambda m: {"_replay": "noevent"}  # noqa: E731
            want = (6,) if K == 1 else (6, K)
            rep.prove(f"{name}: shape", z3.BoolVal(out.shape == want and back.shape == want), [], inputs=inputs, replay=replay_noevent,
                      sample="propagate returns the caller's shape ((6,1) and (6,) both give a flat vector)")
            if out.shape != want or back.shape != want:
                continue
            rep.prove(f"{name}: round-trip", z3.And(*[_zt(a) == _zt(b) for a, b in zip(back.ravel(), Z.ravel())]), cons, inputs=inputs, replay=replay_noevent,
                      sample="with a vanishing derivative propagate() returns its input element for element (ravel/reshape are mutually inverse)")
            H = ts[1].t - ts[0].t
            Xc = X.reshape(6, K)
            goal = z3.And(*[z3.And(_zt(out.reshape(6, K)[c, j]) == _zt(Xc[c, j]) + _zt(Xc[3 + c, j]) * H, _zt(out.reshape(6, K)[3 + c, j]) == _zt(Xc[3 + c, j])) for c in range(3) for j in range(K)])
            rep.prove(f"{name}: full-span", goal, cons, inputs=inputs, replay=replay_noevent, sample="free motion: r + v (tf - t0), v for every column; one solve_ivp call")
            rep.prove(f"{name}: method", z3.BoolVal(methods == ["DOP853", "DOP853"]), [], inputs=inputs, replay=replay_noevent, sample="the configured integrator name is what solve_ivp receives")
            rep.reachable(f"{name}: reach", cons)

    # empty / reversed span
    def run():
        t0, tf = real("t0"), real("tf")
        assume(t0.t >= T_MIN, tf.t >= T_MIN, t0.t <= T_MAX, tf.t <= T_MAX)
        ivp = SolveIvpContract(steps=(1,), max_calls=2)
        with _FreeWorld(ivp):
            TBD.TwoBody().propagate(t0, tf, reals("x", 6))
        return True

    res = explore(run, max_paths=8)
    t0, tf = z3.Real("t0"), z3.Real("tf")
    seen = set()
    for i, r in enumerate(res):
        raised = isinstance(r.exc, ValueError)
        seen.add(raised)
        if r.exc is not None and not raised:
            rep.error(f"span#{i}", repr(r.exc))
            continue
        rep.prove(f"span#{i}: ValueError iff tf <= t0", (tf <= t0) == z3.BoolVal(raised), r.constraints, inputs=lambda m: {"_replay": "noevent"}, replay=replay_noevent,
                  sample="propagate raises ValueError exactly when final_time <= initial_time")
    if seen != {True, False}:
        rep.error("span: reach", f"both outcomes must be reachable, saw {seen}")


# ------------------------------------------------------------------------------------------------------------------------
# O4: universal-variable Kepler solver: Lagrange coefficients
# ------------------------------------------------------------------------------------------------------------------------
def replay_kepler(d):
    """Real solveKeplerProblemUniversal on a bound orbit realising the model's (|r|, |v|, r.v), tof, mu (the Stumpff values are the code's own):
    reproduced = it raises or returns a state whose angular momentum differs from the input's."""
    from resonaate.physics.bodies import Earth
    from resonaate.physics.orbits.kepler import solveKeplerProblemUniversal

    cases = []
    R0, V0, S, tof, mu = (float(d[k]) for k in ("R0", "V0", "S", "tof", "mu"))
    if 6500 <= R0 <= 1e5 and 0.1 <= V0 <= 12 and abs(S) < R0 * V0 and 1 <= tof <= 86400 and 2.0 / R0 - V0 * V0 / mu > 1e-5:
        c = S / (R0 * V0)
        cases.append((np.array([R0, 0, 0, V0 * c, V0 * np.sqrt(1 - c * c) * 0.8, V0 * np.sqrt(1 - c * c) * 0.6]), tof, mu))
    cases.append((np.array(X_LEO), 900.0, float(Earth.mu)))
    cases.append((np.array([42164.0, 0.0, 0.0, 0.1, 3.0, 0.5]), 7200.0, float(Earth.mu)))
    detail = []
    bad = False
    for x, t, m in cases:
        try:
            y = np.array(solveKeplerProblemUniversal(x.copy(), t, mu=m), dtype=float)
            h0, h1 = np.cross(x[:3], x[3:]), np.cross(y[:3], y[3:])
            e = float(np.abs(h1 - h0).max() / np.linalg.norm(h0))
            detail.append({"tof": t, "relative angular momentum change": e})
            bad = bad or e > 1e-6
        except Exception as e:  # noqa: BLE001
            detail.append({"tof": t, "raised": f"{type(e).__name__}: {e}"[:200]})
            bad = True
    return bad, detail


def o4_kepler(rep):
    from resonaate.physics.orbits import kepler as KP

    def run():
        stump, calls = [], []
        r0, v0 = reals("r", 3), reals("v", 3)
        tof, mu = real("tof"), real("mu")
        R0, V0, S = real("R0"), real("V0"), real("S")
        assume(mu.t >= 1000, mu.t <= 10 ** 6, tof.t >= 1, tof.t <= 86400, R0.t >= 6500, R0.t <= 10 ** 5, V0.t >= rv(0.1), V0.t <= 12, (S * S).t <= (R0 * R0 * V0 * V0).t)
        assume((2 / R0 - V0 * V0 / mu).t >= rv(Fraction(1, 10 ** 5)))  # bound orbit, a <= 1e5 km: the elliptical initial guess

        def nrm(v, *a, **k):
            v = np.asarray(v, dtype=object)
            if all(_zt(a).eq(_zt(b)) for a, b in zip(v, r0)):
                return R0
            if all(_zt(a).eq(_zt(b)) for a, b in zip(v, v0)):
                return V0
            raise RuntimeError("norm of an unexpected vector")

        def vd(a, b):
            return S

        def c2c3(psi):
            i = len(stump)
            c2, c3 = real(f"c2_{i}"), real(f"c3_{i}")
            assume((1 - 2 * c2 + psi * c2 * c2 - 2 * psi * c3 + psi * psi * c3 * c3).t == 0)
            stump.append((psi, c2, c3))
            return c2, c3

        def isclose(a, b, rtol=0.0, atol=0.0):
            calls.append((a, b, atol))
            if len(calls) == 1:  # the loop's convergence test: an exact fixed point of the Newton iteration
                assume((a == b).t)
                return True
            inside = abs(a - b) <= atol
            p = cur()
            if refute(_zt(a) == _zt(b), p.constraints(), 90000).status == "unsat":  # proved equal: inside every tolerance
                calls.append("proved")
                return True
            return inside

        def sq(x):
            return (x if isinstance(x, SReal) else SReal(x)).sqrt()

        with shadow(KP, norm=nrm, vdot=vd, universalC2C3=c2c3, isclose=isclose, sqrt=sq, fabs=abs, array=lambda x, copy=True: np.array(list(x), dtype=object)):
            out = KP.solveKeplerProblemUniversal(np.concatenate((r0, v0)), tof, mu=mu)
        return out, r0, v0, (R0, V0, S, tof, mu), calls

    res = explore(run, max_paths=16, branch_timeout_ms=5000)
    names = ("R0", "V0", "S", "tof", "mu")
    inputs = lambda m: {"_replay": "kepler", **{n: mfloat(m, z3.Real(n)) for n in names}}  # noqa: E731
    if len(res) != 1 or res[0].exc is not None:
        for i, r in enumerate(res):
            if r.exc is not None:
                rep.prove(f"path#{i}: no exception [{type(r.exc).__name__}: {str(r.exc)[:60]}]", z3.BoolVal(False), r.constraints, timeout_ms=60000, inputs=inputs, replay=replay_kepler,
                          sample="solveKeplerProblemUniversal does not raise at a converged iterate of a bound orbit")
    for i, r in enumerate(res):
        if r.exc is not None:
            continue
        out, r0, v0, (R0, V0, S, tof, mu), calls = r.out
        syms = [_zt(x) for x in list(r0) + list(v0)]

        def at(e, one):
            return z3.simplify(z3.substitute(e, *[(s, z3.RealVal(1 if s.eq(one) else 0)) for s in syms]))

        f, g, fd, gd = at(_zt(out[0]), _zt(r0[0])), at(_zt(out[0]), _zt(v0[0])), at(_zt(out[3]), _zt(r0[0])), at(_zt(out[3]), _zt(v0[0]))
        lin = z3.And(*[z3.And(_zt(out[c]) == f * _zt(r0[c]) + g * _zt(v0[c]), _zt(out[3 + c]) == fd * _zt(r0[c]) + gd * _zt(v0[c])) for c in range(3)])
        kw = dict(inputs=inputs, replay=replay_kepler)
        rep.prove(f"path#{i}: r2 = f r1 + g v1, v2 = fdot r1 + gdot v1", lin, [], timeout_ms=30000,
                  sample="the returned state is the Lagrange combination of r1, v1 with scalar coefficients depending on |r1|, |v1|, r1.v1, tof, mu only", **kw)
        rep.prove(f"path#{i}: f gdot - fdot g = 1", f * gd - fd * g == 1, r.constraints, timeout_ms=120000,
                  sample="Lagrange identity of the returned coefficients at a converged universal variable, Stumpff values constrained by their defining identity (nlsat over scalar cuts)", **kw)
        # conservation of angular momentum: pure ring identity + the lemma
        F, G, FD, GD = (z3.Real(n) for n in ("F", "G", "FD", "GD"))
        rr, vv = [z3.Real(f"r_{c}") for c in range(3)], [z3.Real(f"v_{c}") for c in range(3)]
        r2 = [F * rr[c] + G * vv[c] for c in range(3)]
        v2 = [FD * rr[c] + GD * vv[c] for c in range(3)]

        def cross(a, b):
            return [a[1] * b[2] - a[2] * b[1], a[2] * b[0] - a[0] * b[2], a[0] * b[1] - a[1] * b[0]]

        h1, h0 = cross(r2, v2), cross(rr, vv)
        rep.prove(f"path#{i}: angular momentum", z3.And(*[a == b for a, b in zip(h1, h0)]), [F * GD - FD * G == 1], timeout_ms=60000,
                  sample="r2 x v2 = (f gdot - fdot g) r1 x v1 = r1 x v1: the returned state conserves angular momentum exactly (real arithmetic)", **kw)
        rep.prove(f"path#{i}: the code's own consistency check passes", z3.BoolVal("proved" in calls), [], sample="f gdot - fdot g is provably 1 where the code tests it", **kw)
        rep.reachable(f"path#{i}: reach", r.constraints, timeout_ms=60000)
    if not any(r.exc is None for r in res):
        rep.error("reach", "no completed path")


# ------------------------------------------------------------------------------------------------------------------------
def replay_dispatch(d):
    """`./check C03 --replay <file>`: the replay that belongs to the item that produced the inputs."""
    return {"batch": replay_batch, "epoch": replay_epoch, "loop": replay_loop, "hang": replay_hang, "raises": replay_raises, "raises-or-deviates": replay_raises_or_deviates, "noevent": replay_noevent,
            "kepler": replay_kepler, "factory": replay_factory, "reuse": replay_reuse}[d.get("_replay", "loop")](d)


def _prop_cases(K, zones=None):
    return [dict(mode="propagate", ngrid=2, zones=(z,), K=K) for z in (zones or _zones(2))]


def _bulk_cases(ngrid, K, zones):
    return [dict(mode="bulk", ngrid=ngrid, zones=((z,) if z else ()), K=K) for z in zones]


def _obligation_table(tier):
    T = 4 if tier == "quick" else 5  # grid times of propagateBulk (start + output times)
    zb = _zones(T)
    tab = {
        "O1-twobody": (o1_batch("twobody", (1, 2, 3), 1), "TwoBody: batch result == separate calls, through the real propagate(), K = 1, 2, 3", 120),
        "O1-perturbed": (o1_batch("perturbed", (1, 2) if tier == "quick" else (1, 2, 3), 1), "SpecialPerturbations (Sun+Moon, SRP, GR): batch result == separate calls, K = 1, 2 (thorough 3)", 240),
        "O2-noevent": (o2_noevent, "propagate without events: shapes, ravel/reshape round trip, full span, method passed on, ValueError for an empty span", 120),
        "O2-prop-impulse": (o2_cases(_prop_cases(1) + _prop_cases(2, ("at0", "in0", "at1")) + [dict(mode="propagate", ngrid=2, zones=("in0",), K=1, shape="col")], tier),
                            "propagate with one ECI impulse in every zone: applied exactly once iff in [t0, tf], at its time; span; strict progress; K = 1, 2", 240),
        "O2-prop-two": (o2_cases([dict(mode="propagate", ngrid=2, zones=zz, K=1) for zz in (("in0", "in0"), ("at0", "in0"), ("in0", "at1"), ("lt", "in0"), ("at0", "at1"))], tier),
                        "propagate with two ECI impulses (either order in the list): each applied exactly once", 240),
        "O2-prop-burn": (o2_cases([dict(mode="propagate", ngrid=2, zones=("in0",), K=1, burn=b) for b in (("in0", "in0"), ("lt", "in0"), ("in0", "gt"), ("at0", "at1"))]
                                  + [dict(mode="propagate", ngrid=2, zones=(), K=1, burn=("in0", "in0"))], tier),
                         "propagate with a finite burn (inert under TwoBody, cuts the integration at its boundaries) next to an impulse: span, count, progress", 300),
        "O2-compose": (o2_cases([dict(mode="compose", ngrid=3, zones=(z,), K=1) for z in _zones(3)], tier),
                       "two consecutive calls [t0,t1],[t1,t2] with prunePropagateEvents before each == one impulse application iff it lies in [t0,t2]", 300),
        "O2-bulk-a": (o2_cases(_bulk_cases(T, 1, [None] + [z for z in zb if z.startswith("in")]), tier), "propagateBulk: no event / impulse strictly between output times: every column", 300),
        "O2-bulk-b": (o2_cases(_bulk_cases(T, 1, [z for z in zb if not z.startswith("in")]), tier), "propagateBulk: impulse exactly on an output time / before / after the grid", 300),
        "O2-bulk-k2": (o2_cases(_bulk_cases(3, 2, [None, "in0", "at1", "in1"]), tier), "propagateBulk with two states at once: both columns carry the same span / impulses", 300),
        "O2-bulk-two": (o2_cases([dict(mode="bulk", ngrid=3, zones=zz, K=1) for zz in (("in0", "in1"), ("in1", "in0"), ("in0", "in0"), ("at1", "in1"))], tier),
                        "propagateBulk with two impulses (different output intervals, either order in the list; same interval; one on an output time)", 300),
        "O3-epoch": (o3_epoch, "perturbed derivative: providers asked for jd0 + t/86400; result invariant under the split (jd0 + s/86400, t - s)", 240),
        "O3-factory": (o3_factory, "dynamics built by the real dynamicsFactory() while the clock reads D s: providers asked for julian_date_start + t/86400; start-date split / late-join invariance", 240),
        "O3-reuse": (o3_reuse([("propagate", 1)] if tier == "quick" else [("propagate", 1), ("propagate", 2), ("bulk", 1)]),
                     "history independence: a SpecialPerturbations object that served one interval returns for any other interval what a fresh object returns", 300),
        "O3-epoch-fp": (o3_epoch_fp, "double arithmetic of the epoch: within 1e-9 d of jd0 + t/86400; two splits agree within 2.5e-9 d", 120),
        "O4-kepler": (o4_kepler, "solveKeplerProblemUniversal: returned state = f r1 + g v1 ..., f gdot - fdot g = 1, angular momentum conserved", 300),
    }
    if tier == "thorough":
        tab["O1-twobody-2stage"] = (o1_batch("twobody", (1, 2, 3), 2), "TwoBody, two integrator stages (derivative evaluated at a propagated state), K = 1, 2, 3", 600)
    return tab


REPLAYS = {name: replay_dispatch for name in list(_obligation_table("quick")) + list(_obligation_table("thorough"))}


def obligations(tier):
    mult = 1 if tier == "quick" else 2
    return [Ob(name, fn, desc, min(840, to * mult)) for name, (fn, desc, to) in _obligation_table(tier).items()]


# ---- additions (start-date-derived state, generic-point fallback) ----
BOUNDS["start-date-derived state"] = "O3-epoch runs the real SpecialPerturbations constructor once per start date; replays compare start dates 6 h before a calendar seam (new year before/after a leap year, leap day, 1 March, month end, midnight) with start dates after it"
ASSUMPTIONS.append("whatever the perturbed-dynamics code derives from an epoch (calendar fields, a Julian date rebuilt from calendar fields, extra arguments of _getRotationMatrix) is a memoised uninterpreted function of that epoch: state derived from the start date and used at a later epoch shows up as a dependence on the split")
ASSUMPTIONS.append("a path on which the analysed code raises only because of the proxies (conversion to a C double) is not passed: a generic point of the path (times with a fractional part) is run on the real code against the independent reference; only a reproduced deviation is reported, anything else is a harness error")
