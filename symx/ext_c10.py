"""Engine helper for C10: forking over *free* choices without feasibility queries.

`SInt.concretize` / `SBool.__bool__` ask the solver whether each side of a branch is feasible under the whole
path condition (one query with every constraint re-asserted per value).  A schedule choice - "which of the n pending
jobs finishes next", "does agent X exist" - is a fresh variable that occurs in no other constraint than its own
range, so every value is feasible under any path condition over *other* variables by construction; the query is
redundant.  `free_choice` / `free_flag` record exactly what `Path.branch` would record (decision, path condition,
the alternative prefix to explore later) and skip the query.  The harness still hands every explored path's
constraints to the solver in the final query and checks their satisfiability (vacuity guard), so a path that were
infeasible after all would be noticed there, never silently "proved".
"""
from __future__ import annotations

import z3

from .core import cur


def _fork(p, cond):
    idx = len(p.decisions)
    if idx < len(p.prefix):
        d = p.prefix[idx]
    else:
        p.pending.append(p.decisions + [False])
        d = True
    p.decisions.append(d)
    p.forced.append(False) if hasattr(p, "forced") else None
    p.pc.append(cond if d else z3.Not(cond))
    p.witness = None  # the concolic witness was not checked against this decision
    return d


def free_choice(name, n, used):
    """A fresh integer 0 <= k < n (a name never used before on this path); forks over its n values.  Returns (value, term)."""
    if name in used:
        raise RuntimeError(f"free_choice: {name} reused on one path")
    used.add(name)
    p = cur()
    k = z3.Int(name)
    p.assume(z3.And(k >= 0, k < n))
    for v in range(n - 1):
        if _fork(p, k == v):
            return v, k
    return n - 1, k


def free_flag(name, used):
    if name in used:
        raise RuntimeError(f"free_flag: {name} reused on one path")
    used.add(name)
    return _fork(cur(), z3.Bool(name))
