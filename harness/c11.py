"""C11 - ground facilities stay fixed at their configured geodetic location."""
from __future__ import annotations

import datetime as _dt
import types
from fractions import Fraction

import numpy as np
import z3

from harness import c05 as C05
from harness.c04 import _cut_reduction
from symx import fp
from symx.core import (SReal, Unsupported, assume, cur, eq_arrays, explore, integer, marray, mfloat, mval, real, reals, resume, rv, single_path, slice_for, solve, terms)
from symx.dtmodel import SDateTime
from symx.runner import Ob
from symx.stubs import shadow, sym_array
from symx.timeenv import time_env

ID = "C11"
TECHNIQUE = ("the real Terrestrial.__init__/propagate, dynamicsFactory (ground branch), LLAStateConfig.toECI, lla2ecef, SensingAgent.fromConfig/__init__/eci_state setter, "
             "Agent.datetime_epoch, PropagateRegistration.generateSubmission/processResults, asyncPropagate, ecef2eci/eci2ecef are executed on proxies carrying z3 terms: "
             "(O1) the scenario start instant is a symbolic whole second per calendar class and Terrestrial(datetimeToJulianDate(t), x).datetime_start is computed by the real "
             "getJulianDate/getCalendarDate/days2mdh/julianDateToDatetime on symbolic IEEE doubles (relaxed rounding for the proof, candidates replayed, exact rounding for a "
             "candidate's day); (O2, O4, O5) start instant, clock reading, step and elapsed whole seconds are z3 integers, the frame rotations are cut to their contract "
             "(eci2ecef(ecef2eci(x, d), d) = x, anything for different dates) so that every datetime reaching a rotation is a solver term; (O6) the same flow for a ground sensor that "
             "Scenario.addSensor receives with an ECI state on an advanced clock (SensorAdditionEvent); (O3) the real ecef2eci/eci2ecef run on "
             "symbolic orthogonal polar-motion and precession-nutation-rotation matrices; the configured site is checked against the geodetic definition of (lat, lon, alt); "
             "(O7) the same creation flow for a configuration object with a history: validated at one site (real pydantic validation of the real SensingAgentConfig at a concrete site, or "
             "emulated validation at a symbolic site), then edited through the public API (attribute assignment, model_copy(update=...), also after a first agent was built from it) to "
             "symbolic latitude/longitude/altitude - the site must be the geodetic point of the values the public fields show, and equal to the site of a directly validated configuration. "
             "z3 decides each assertion for all values; models are replayed on the real code with plain floats")
FLOAT_SEMANTICS = ("O1: IEEE-754 double (relaxed encoding = sound over-approximation for proofs; exact round-to-nearest-even for a candidate's day); "
                   "O2/O4/O5: exact integer seconds (all scenario times are whole seconds, exactly representable); O3/site: Real-ideal")
ENCODED = ["resonaate.scenario.config.state_config:ECIStateConfig.toECI", "resonaate.dynamics.terrestrial:Terrestrial.__init__", "resonaate.dynamics.terrestrial:Terrestrial.propagate", "resonaate.dynamics:dynamicsFactory",
           "resonaate.scenario.config.state_config:LLAStateConfig.toECI", "resonaate.physics.transforms.methods:lla2ecef",
           "resonaate.physics.transforms.methods:ecef2eci", "resonaate.physics.transforms.methods:eci2ecef",
           "resonaate.physics.time.stardate:datetimeToJulianDate", "resonaate.physics.time.stardate:JulianDate.getJulianDate", "resonaate.physics.time.stardate:getCalendarDate",
           "resonaate.physics.time.stardate:days2mdh", "resonaate.physics.time.stardate:julianDateToDatetime", "resonaate.physics.time.stardate:ScenarioTime.convertToDatetime",
           "resonaate.agents.sensing_agent:SensingAgent.fromConfig", "resonaate.agents.sensing_agent:SensingAgent.__init__", "resonaate.agents.sensing_agent:SensingAgent.eci_state",
           "resonaate.agents.agent_base:Agent.__init__", "resonaate.agents.agent_base:Agent.datetime_epoch", "resonaate.scenario.clock:ScenarioClock.datetime_epoch",
           "resonaate.parallel.agent_propagation:PropagateRegistration.generateSubmission", "resonaate.parallel.agent_propagation:PropagateRegistration.processResults",
           "resonaate.parallel.agent_propagation:asyncPropagate._function"]
BOUNDS = {"O1 start instants": "every whole second 1901-01-01 .. 2099-12-31 of the listed calendar classes (year = 1901 + 4a + b, a symbolic; quick: months 1 and 12 of every b and "
                               "months 2, 3 of leap years = 10 classes; thorough: all 48 classes)",
          "O2/O4/O5 start instants": "every whole second 2014-01-01 .. 2022-08-01 (inside the Earth-orientation table, so that replays can run the real rotations)",
          "elapsed time": "clock reading k0*dt and propagation times: whole seconds 0 .. 30 days (crossing midnight, month and year ends)",
          "dt": "symbolic whole seconds 1 .. 86400", "steps": "quick: 2 consecutive propagation steps after creation; thorough: 3; O2: 2 (quick) / 3 consecutive propagate calls",
          "site": "latitude -90..90 deg, longitude -360..360 deg, altitude -1..100 km (symbolic reals)",
          "O7 histories": "one edit step between validation and agent construction; quick: assignment of all three fields / model_copy(update=all three) / first agent built, then assignment, "
                          "each starting from the real pydantic validation at the concrete site lat 35 deg, lon 139 deg, alt 0.25 km, and assignment of the longitude alone starting "
                          "from a symbolic site; thorough adds: model_copy of the latitude alone, of longitude+altitude, assignment of the altitude alone, reuse-then-assign, all from a symbolic first site "
                          "(first-site values inside the same site bounds)",
          "O7 oracle": "the geodetic facets of the site for the values the public fields show when the agent is built, and site == site of another agent's configuration validated directly at "
                       "the same values (reference built after the history under test, so that it does not disturb it)",
          "O3": "any site position r in R^3, any orthogonal W, N and any length-of-day",
          "O6": "any 6-vector as configured ECI state; clock reading as above; quick: 1 step after creation, thorough: 2"}
OUTSIDE = ["numerical content of ReductionParams.build (IAU-76/FK5 series, EOP table values): cut to symbolic orthogonal matrices (their orthogonality is C04-O4a)",
           "ecef2lla (cube roots / arccos branch): an uninterpreted function of its argument; only the ECEF state it is applied to is checked",
           "the 1 m figure is discharged as 'start datetime exact, every rotation applied at start + elapsed, rotations mutually inverse, site = geodetic definition', not numerically; "
           "double rounding inside the rotations (about 1e-9 km) is outside",
           "ground facilities configured by orbital elements (COE/EQE); for an ECI-configured one (what a SensorAdditionEvent hands to Scenario.addSensor) only 'held at the Earth-fixed point it is "
           "created at' is claimed (O6), the conversion of the event's LLA state to ECI in SensorAdditionEvent.fromConfig is not",
           "configuration histories other than the listed single edit step (several edits, edits of the platform or of the enclosing ScenarioConfig, dump-edit-revalidate round trips, "
           "pickling/deep copies of configuration objects); pydantic's own type coercion and Field constraints of the float fields",
           "SensingAgent.importState (C19); sub-second start instants or steps; leap seconds; events whose time is not a step boundary",
           "Earth-orientation table coverage itself (MissingEOP outside 2014-01-01 .. 2022-10-04)"]
ASSUMPTIONS = ["datetime/timedelta -> integer calendar model (symx.dtmodel, validated in C05 'dtmodel'), with a replace() for the time-of-day fields added in this harness",
               "O1: relaxed rounding |r - e| <= half an ulp per operation (over-approximation); candidates replayed; exact rounding for a candidate's calendar day",
               "O2/O4/O5: clock.julian_date_start is a token double; julianDateToDatetime(token) = the instant it was made from (this is exactly what O1 proves at this call site); any other Julian date -> an arbitrary instant",
               "O2/O4/O5/O6: ecef2eci(x, d) -> a fresh ECI token vector; eci2ecef(token(x, d), d') -> x when d' = d (what O3 proves of the real pair), an unconstrained fresh vector otherwise; "
               "eci2ecef of any other vector (an ECI-configured state) -> an unknown function of (vector, date): same vector and provably equal dates give the same result, otherwise unconstrained",
               "pydantic validation of LLAStateConfig on proxies (pydantic-core rejects non-floats) is emulated: model_construct (fields stored, private attributes initialised, model_post_init run) + "
               "every declared 'after' model validator executed for real in declaration order; field validators / 'before' validators would be reported as unsupported (harness error); the emulation is "
               "compared with the real validation on a pinned concrete site at the start of O4/O5/O7 (fields, private state, toECI); attribute assignment and model_copy are pydantic's real ones "
               "(they accept proxies: no validate_assignment in these models)",
               "O7 'from-validated': the first site is concrete (real validation needs floats); the edited values are symbolic. O7 'from-symbolic': first-site values of the edited fields are fresh symbolic reals",
               "ecef2lla -> uninterpreted token of its argument; sensorFactory -> a bare Optical object; ReductionParams.build in generateSubmission (station keeping only) -> stub",
               "degrees -> radians by the code's own constant DEG2RAD (angles are atoms of the angle algebra: cos/sin pairs with c^2+s^2=1); sqrt contract; Earth.radius/eccentricity at their double values",
               "O3: rot_w / rot_pnr replaced by symbolic orthogonal matrices (cut justified by C04-O4a), lod symbolic",
               "site oracle: 'on the ellipsoid' within 1e-9 (relative) and 'normal parallel' within 1e-12, not exactly: the code's double constants e^2 and fl(1 - e^2) are not exactly consistent with one ellipsoid",
               "O2: the stored Earth-fixed state is a concrete representative site vector (propagate never looks at its value); the initial_state argument is a symbolic vector",
               "counterexamples are requested first at a generic site (|lat|, |lon|, |lat +- lon| >= 5 deg, alt 1..5 km; O3: r components 1000..5000 km, lod 0.5..1 s) so that they replay in doubles, "
               "then over the whole domain; O3 replays enter the model's length of day through setEarthOrientationParameters (restored afterwards)",
               "replays instantiate token sites with a representative site (lat 0.4 rad, lon 1.1 rad, alt 0.3 km; ECI-configured: lat 0.1 rad, lon 1.1 rad, alt 5 km) when the site itself is not an input of the obligation"]
LEVEL_TEXT = ("Bounded symbolic verification: for every whole-second scenario start (O1, IEEE double semantics of the real calendar code at the Terrestrial call site), every clock "
              "reading, step and elapsed time (O2/O4/O5, exact integer seconds) and every site (geodetic oracle, Real-ideal) z3 proves that the ground agent's dynamics, initial state "
              "and per-step state are the configured Earth-fixed point rotated at exactly start + elapsed seconds, and (O3) that the rotation pair is an exact inverse pair giving the "
              "Earth-rotation velocity. Failing inputs (non-zero start seconds, advanced clocks, 31 Dec of leap years) are measure-thin for sampled scenarios.")
LEVEL_NOTE = ("Whole seconds; configuration histories: one public-API edit step after validation;  calendar classes in the quick tier are the year-boundary months; frame rotations cut to the inverse-pair contract proved in O3; FK5 series/EOP values, "
              "ecef2lla and double rounding inside the rotations are outside; for ECI-configured ground sensors only consistency (held where created) is claimed.")

JD_LO, JD_HI = Fraction(4830041, 2), Fraction(4976899, 2)
TOT_2014 = (_dt.datetime(2014, 1, 1) - _dt.datetime(1901, 1, 1)).days * 86400
TOT_2022 = (_dt.datetime(2022, 8, 1) - _dt.datetime(1901, 1, 1)).days * 86400
SPAN = 30 * 86400
SITE_LLA = (0.4, 1.1, 0.3)  # representative site for token replays: lat rad, lon rad, alt km
ECI_SITE_LLA = (0.1, 1.1, 5.0)  # the same for ECI-configured ground sensors (ECIStateConfig requires |r| > Earth.radius)


# ------------------------------------------------------------------------------------------------
# calendar model with replace() (time-of-day fields), used for every datetime that reaches Terrestrial
# ------------------------------------------------------------------------------------------------
class DT(SDateTime):
    def replace(self, year=None, month=None, day=None, hour=None, minute=None, second=None, microsecond=None, tzinfo=True, fold=0):
        if year is not None or month is not None or day is not None:
            raise Unsupported("datetime model: replace of a date field")
        if microsecond not in (None, 0):
            raise Unsupported("datetime model: microseconds")
        _y, _m, _d, h, mi, s = self._fields()

        def pick(new, old, hi):
            if new is None:
                return old
            if not 0 <= int(new) <= hi:
                raise ValueError("datetime model: field out of range")
            return z3.IntVal(int(new))

        h, mi, s = pick(hour, h, 23), pick(minute, mi, 59), pick(second, s, 59)
        return DT._of(self.n, 3600 * h + 60 * mi + s)


def _as_dt(d):
    return d if isinstance(d, DT) else DT._of_total(d.tot)


def _real_jd2dt(jd):
    """The real julianDateToDatetime (run on the proxies), its result re-wrapped so that .replace() works on it."""
    from resonaate.physics.time import stardate as SD

    return _as_dt(SD.julianDateToDatetime(jd))


def _tot_of(d):
    return (d - _dt.datetime(1901, 1, 1)).days * 86400 + (d - _dt.datetime(1901, 1, 1)).seconds


def _dt_of(tot):
    return _dt.datetime(1901, 1, 1) + _dt.timedelta(seconds=int(tot))


def _site_ecef():
    from resonaate.physics.transforms.methods import lla2ecef

    return lla2ecef(np.array(SITE_LLA))


def o_model(rep):
    """Validation of the calendar model's replace() (added here) against the real datetime: symbolic law + pinned instants (solver-checked)."""
    def run():
        s = integer("s")
        assume(s.t >= 0, s.t < 72684 * 86400)
        d = DT._of_total(s.t)
        return s, d.replace(second=0, microsecond=0), d.replace(minute=0, second=0), d.replace(hour=0, minute=0, second=0, microsecond=0), d.replace(second=59)

    res = explore(run, max_paths=4)
    if len(res) != 1 or res[0].exc is not None:
        rep.error("model", f"unexpected paths: {res}")
        return
    r = res[0]
    s, m1, m2, m3, m4 = r.out
    laws = z3.And(m1.tot == s.t - s.t % 60, m2.tot == s.t - s.t % 3600, m3.tot == s.t - s.t % 86400, m4.tot == s.t - s.t % 60 + 59)
    rep.prove("replace-laws", laws, r.constraints, sample="model: replace(second=0) / (minute=0, second=0) / (hour=0, ...) truncate to the minute / hour / day")
    for i, d in enumerate([_dt.datetime(2016, 12, 31, 23, 59, 59), _dt.datetime(2020, 2, 29, 6, 0, 1), _dt.datetime(2019, 7, 3, 11, 13, 17)]):
        want = [d.replace(second=0, microsecond=0), d.replace(minute=0, second=0), d.replace(hour=0, minute=0, second=0, microsecond=0), d.replace(second=59)]
        pin = z3.And(*[m.tot == _tot_of(w) for m, w in zip((m1, m2, m3, m4), want)])
        rep.prove(f"replace-pin{i}", pin, r.constraints + [s.t == _tot_of(d)], sample="model replace() equals datetime.replace() on a pinned instant")
        rep.reachable(f"replace-pin{i}-sat", r.constraints + [s.t == _tot_of(d)])


# ------------------------------------------------------------------------------------------------
# O1: Terrestrial(jd_start, x).datetime_start == configured start, per calendar class (IEEE doubles)
# ------------------------------------------------------------------------------------------------
def _run_start(b, month, pin=None):
    from resonaate.dynamics import terrestrial as TR

    with time_env([("resonaate.dynamics.terrestrial", {"julianDateToDatetime": _real_jd2dt})]) as ns:
        t = C05._instant(b, month, pin)
        jd = ns.stardate.datetimeToJulianDate(t)  # what ScenarioClock.__init__ stores as julian_date_start
        x = np.array([1.0, 2.0, 3.0, 0.0, 0.0, 0.0])
        terr = TR.Terrestrial(jd, x)
        keeps = z3.And(terr.julian_date_start.t == jd.t, z3.BoolVal(bool(np.array_equal(np.asarray(terr.x_ecef, dtype=float), x))))
    return t, terr.datetime_start, keeps


def replay_start(d):
    from resonaate.dynamics.terrestrial import Terrestrial
    from resonaate.physics.time.stardate import datetimeToJulianDate
    from resonaate.physics.transforms.methods import ecef2eci

    t = C05._real_dt(d)
    x = _site_ecef()
    try:
        terr = Terrestrial(datetimeToJulianDate(t), x)
    except Exception as e:  # noqa: BLE001
        return True, {"start": t.isoformat(), "raised": repr(e)}
    det = {"start": t.isoformat(), "Terrestrial.datetime_start": terr.datetime_start.isoformat()}
    bad = terr.datetime_start != t
    if bad and _dt.datetime(2014, 1, 2) <= t <= _dt.datetime(2022, 9, 1):
        det["site_displacement_m"] = float(np.linalg.norm((terr.propagate(0, 0, None) - ecef2eci(x, t))[:3]) * 1000)
    return bad, det


def _start_goal(t, start, keeps):
    return z3.And((t == start).t, keeps)


WHAT_O1 = "Terrestrial(datetimeToJulianDate(t), x).datetime_start == t (and the arguments are stored) for every whole second of the class"


def o_start(rep, b, month):
    tag = f"[y%4={(1901 + b) % 4},m={month}]"
    with fp.mode("relaxed"):
        res = explore(lambda: _run_start(b, month), max_paths=200, max_depth=200, branch_timeout_ms=20000, catch=(Exception,))
    rep.note(f"{tag}: {len(res)} paths (relaxed rounding)")
    ok_paths = 0
    for k, r in enumerate(res):
        if r.exc is not None:
            if isinstance(r.exc, (Unsupported, TypeError, AttributeError, NameError)):
                rep.error(f"exception{tag}#{k}", repr(r.exc))
                continue
            m = solve(r.constraints, 30000)  # the real code raised on a feasible path: a violation candidate
            if m.status != "sat":
                continue
            _ladder(rep, f"raises{tag}#{k}", C05._inputs(b, month)(m.model), b, month, f"{type(r.exc).__name__}: {r.exc}", r.constraints)
            continue
        ok_paths += 1
        goal = _start_goal(*r.out)
        v = solve(fp.sliced(r.path, goal) + [z3.Not(goal)], 120000)
        rep._item(f"start{tag}#{k}", "prove", v)
        rep.sample({"obligation": f"start{tag}", "verdict": v.status, "what": WHAT_O1})
        if v.status == "unsat":
            continue
        if v.status == "unknown":
            rep.undecided(f"start{tag}#{k}", v.reason)
            continue
        _ladder(rep, f"start{tag}#{k}", C05._inputs(b, month)(v.model), b, month, "relaxed-rounding candidate", r.constraints + [z3.Not(goal)])
    if ok_paths == 0:
        rep.error(f"reach{tag}", "no path returned normally")
    else:
        rep.reach.append(f"paths{tag}")


def _ladder(rep, label, cand, b, month, why, cand_constraints):
    """Relaxed-mode candidate: replay; if it does not replay, decide the candidate's calendar day in the exact encoding."""
    reproduced, detail = replay_start(cand)
    if reproduced:
        if rep.items:
            rep.items[-1]["counterexample"] = cand
        rep.concrete_violation(label, cand, detail)
        return
    pin = {"a": (cand["year"] - 1901 - b) // 4, "day": cand["day"]}
    with fp.mode("exact"):
        res = explore(lambda: _run_start(b, month, pin), max_paths=200, max_depth=200, branch_timeout_ms=20000)
    for k, r in enumerate(res):
        if r.exc is not None:
            continue
        goal = _start_goal(*r.out)
        v = solve(r.constraints + [z3.Not(goal)], 120000)
        rep._item(f"{label}:exact#{k}", "prove", v)
        if v.status == "sat":
            c2 = C05._inputs(b, month)(v.model)
            rp, det = replay_start(c2)
            if rp:
                rep.concrete_violation(f"{label}:exact", c2, det)
            else:
                rep.error(f"{label}:exact", f"bit-exact counterexample does not reproduce: {det}")
            return
        if v.status == "unknown":
            rep.undecided(f"{label}:exact#{k}", v.reason)
            return
    only = solve(list(cand_constraints) + [z3.Or(z3.Int("a") != pin["a"], z3.Int("day") != pin["day"])], 60000)
    rep._item(f"{label}:only-that-day", "prove", only)
    if only.status == "unsat":
        rep.note(f"{label}: relaxed-only candidate on {cand['year']}-{cand['month']}-{cand['day']} refuted in the exact encoding; no other day admits it")
        return
    rep.undecided(label, f"relaxed candidate {cand} ({why}) is spurious for its day in the exact encoding; the class is not decided")


# ------------------------------------------------------------------------------------------------
# cuts shared by O2 / O4 / O5
# ------------------------------------------------------------------------------------------------
def _ids(v):
    return tuple(z3.simplify(t).get_id() for t in terms(v))


class StartToken:
    """clock.julian_date_start as a token double; julianDateToDatetime(token) = the instant it stands for (O1's claim); any other Julian date -> arbitrary instant."""

    def __init__(self, ns, start):
        self.ns, self.start = ns, start
        self.jd = ns.JulianDate(fp.fresh_float("js", JD_LO, JD_HI, -31))
        self.other = 0

    def to_datetime(self, jd):
        if isinstance(jd, fp.SFloat) and z3.simplify(jd.t).get_id() == z3.simplify(self.jd.t).get_id():
            return DT._of_total(self.start.tot)
        self.other += 1
        u = integer(f"unknown_instant{self.other}")
        assume(u.t >= 0, u.t <= 72683 * 86400)
        return DT._of_total(u.t)


class Frames:
    """ecef2eci / eci2ecef / ecef2lla cut to the contract proved in O3: an inverse pair at equal dates, unconstrained otherwise."""

    def __init__(self):
        self.tokens, self.calls, self.lla, self.raw, self.fresh = [], [], [], [], 0

    def _fresh(self, kind):
        self.fresh += 1
        return reals(f"{kind}{self.fresh}", 6)

    def lookup(self, y):
        try:
            key = _ids(y)
        except TypeError:
            return None
        for yk, x, d in self.tokens:
            if yk == key:
                return x, d
        return None

    def ecef2eci(self, x, d):
        y = self._fresh("eci")
        self.tokens.append((_ids(y), x, d))
        cur().keep.extend(terms(y))
        self.calls.append(("ecef2eci", x, d, y))
        return y

    def eci2ecef(self, y, d2):
        hit = self.lookup(y)
        if hit is not None:
            x, d = hit
            if bool(d == d2):
                out = np.array(x, dtype=object)
                self.calls.append(("eci2ecef", y, d2, out))
                return out
        else:
            # an ECI vector that is not one of our tokens (an ECI-configured state): eci2ecef is an unknown function of (vector, date)
            try:
                key = _ids(y)
            except TypeError:
                key = None
            for k2, d, o2 in self.raw:
                if key is not None and k2 == key and bool(d == d2):
                    out = np.array(o2, dtype=object)
                    self.calls.append(("eci2ecef", y, d2, out))
                    return out
            out = self._fresh("rotated")
            if key is not None:
                self.raw.append((key, d2, out))
            self.calls.append(("eci2ecef", y, d2, out))
            return out
        out = self._fresh("rotated")  # one of our tokens, converted back at another date: anything
        self.calls.append(("eci2ecef", y, d2, out))
        return out

    def ecef2lla(self, x):
        tok = np.empty(3, dtype=object)
        tok[:] = [("lla-of", len(self.lla), i) for i in range(3)]
        self.lla.append((tok, x))
        return tok

    def lla_arg(self, tok):
        for t, x in self.lla:
            if t is tok or (np.shape(t) == np.shape(tok) and all(a == b for a, b in zip(t, tok))):
                return x
        return None


# ------------------------------------------------------------------------------------------------
# O2: Terrestrial.propagate(t0, t, .) converts exactly the stored ECEF state at datetime_start + t
# ------------------------------------------------------------------------------------------------
def _run_propagate(ncalls):
    from resonaate.dynamics import terrestrial as TR

    fr = Frames()
    box = {}
    x = np.array(_site_ecef(), dtype=float)  # the stored Earth-fixed state: a concrete site (its value never matters to propagate)
    with time_env([("resonaate.dynamics.terrestrial", {"julianDateToDatetime": lambda jd: box["tok"].to_datetime(jd), "ecef2eci": fr.ecef2eci, "array": sym_array, "asarray": sym_array})]) as ns:
        s0 = integer("s0")
        assume(s0.t >= TOT_2014, s0.t <= TOT_2022)
        start = DT._of_total(s0.t)
        box["tok"] = tok = StartToken(ns, start)
        terr = TR.Terrestrial(tok.jd, x)
        stored = terr.datetime_start  # O1's subject; propagate is judged relative to what the constructor stored
        log = []
        prev = reals("init", 6)
        for i in range(ncalls):
            ta, tb = integer(f"ta{i}"), integer(f"tb{i}")
            assume(ta.t >= 0, ta.t <= SPAN, tb.t >= 0, tb.t <= SPAN)
            n0 = len(fr.calls)
            try:
                out = terr.propagate(ns.ScenarioTime(fp.from_int(ta.t, 0, SPAN)), ns.ScenarioTime(fp.from_int(tb.t, 0, SPAN)), prev)
            except ValueError as e:
                log.append((ta, tb, None, fr.calls[n0:], e))
                continue
            log.append((ta, tb, out, fr.calls[n0:], None))
            prev = out
    return s0, x, log, stored


def _prop_inputs(ncalls):
    def f(m):
        g = lambda n: mval(m, z3.Int(n))  # noqa: E731
        return {"start": _dt_of(g("s0")).isoformat(), "calls": [[g(f"ta{i}"), g(f"tb{i}")] for i in range(ncalls)]}
    return f


def replay_propagate(d):
    from resonaate.dynamics.terrestrial import Terrestrial
    from resonaate.physics.time.stardate import ScenarioTime, datetimeToJulianDate
    from resonaate.physics.transforms.methods import ecef2eci

    start = _dt.datetime.fromisoformat(d["start"])
    x = _site_ecef()
    terr = Terrestrial(datetimeToJulianDate(start), x)
    stored = terr.datetime_start  # judged relative to what the constructor stored (its equality with the configured start is O1)
    prev, det, bad = ecef2eci(x, stored), [], False
    for ta, tb in d["calls"]:
        try:
            out = terr.propagate(ScenarioTime(ta), ScenarioTime(tb), prev)
        except ValueError as e:
            det.append({"t0": ta, "t": tb, "raised": repr(e)})
            bad = bad or not tb < ta
            continue
        if tb < ta:
            det.append({"t0": ta, "t": tb, "raised": None, "expected": "ValueError"})
            bad = True
            continue
        want = ecef2eci(x, stored + _dt.timedelta(seconds=tb))
        err = float(np.abs(np.asarray(out, dtype=float) - want).max())
        det.append({"t0": ta, "t": tb, "max_abs_diff_km": err})
        bad = bad or err > 1e-6
        prev = out
    return bad, {"start": d["start"], "calls": det}


def o_propagate(rep, ncalls):
    res = explore(lambda: _run_propagate(ncalls), max_paths=64, branch_timeout_ms=20000, catch=(Exception,))
    kinds = set()
    for k, r in enumerate(res):
        if r.exc is not None:
            rep.error(f"exception#{k}", repr(r.exc))
            continue
        s0, x, log, stored = r.out
        goals = []
        for ta, tb, out, calls, exc in log:
            if exc is not None:
                kinds.add("raise")
                goals.append(z3.And(tb.t < ta.t, z3.BoolVal(len(calls) == 0)))
                continue
            kinds.add("ok")
            g = [tb.t >= ta.t, z3.BoolVal(len(calls) == 1 and calls[0][0] == "ecef2eci")]
            if len(calls) == 1:
                _n, cx, cd, cy = calls[0]
                g += [eq_arrays(cx, x), cd.tot == stored.tot + tb.t, z3.BoolVal(np.shape(out) == (6,)) if np.shape(out) != (6,) else eq_arrays(out, cy)]
            goals.append(z3.And(*g))
        pattern = "".join("R" if e is not None else "K" for *_x, e in log)
        rep.prove(f"propagate[{pattern}]#{k}", z3.And(*goals), r.constraints, inputs=_prop_inputs(ncalls), replay=replay_propagate, timeout_ms=60000,
                  sample="every propagate(t0, t, .) returns ecef2eci(stored x_ecef, datetime_start + t) - one conversion, at the final time, of the stored state - and raises iff t < t0, "
                         "also for a second/third call on the same object")
        rep.reachable(f"path[{pattern}]#{k}", r.constraints)
    if kinds != {"raise", "ok"}:
        rep.error("reach", f"expected both outcomes, got {kinds}")


# ------------------------------------------------------------------------------------------------
# O3: the real ecef2eci / eci2ecef on a site state (r, 0) with symbolic orthogonal W, N
# ------------------------------------------------------------------------------------------------
def replay_rotation(d):
    """Real ecef2eci / eci2ecef / ReductionParams.build on floats; the model's length of day is entered through the public EOP setter (table entry of the replay date)."""
    import dataclasses

    from resonaate.physics import constants as const
    from resonaate.physics.bodies import Earth
    from resonaate.physics.transforms import methods as T
    from resonaate.physics.transforms.eops.getter import getEarthOrientationParameters, setEarthOrientationParameters
    from resonaate.physics.transforms.reductions import ReductionParams

    t = _dt.datetime(2019, 7, 3, 11, 13, 17)
    r = np.array(d["r"], dtype=float)
    x = np.concatenate((r, np.zeros(3)))
    sc = max(1.0, float(np.abs(r).max()))
    eop0 = getEarthOrientationParameters(t.date())
    try:
        if d.get("lod") is not None and abs(d["lod"]) <= 10:
            setEarthOrientationParameters(t.date(), dataclasses.replace(eop0, length_of_day=float(d["lod"])))
        y = T.ecef2eci(x, t)
        red = ReductionParams.build(t)
        om = np.array([0, 0, Earth.spin_rate * (1 - red.lod / const.DAYS2SEC)])
        v = red.rot_pnr @ np.cross(om, red.rot_w @ r)
        back = T.eci2ecef(y, t)
    finally:
        setEarthOrientationParameters(t.date(), eop0)
    e1 = float(np.abs(back[:3] - r).max())
    e1v = float(np.abs(back[3:]).max())
    e2 = float(abs(np.linalg.norm(y[:3]) - np.linalg.norm(r)))
    e3 = float(np.abs(y[3:] - v).max())
    e4 = float(np.abs(y[:3] - red.rot_pnr @ (red.rot_w @ r)).max())
    bad = max(e1, e2, e4) > 1e-8 * sc or max(e1v, e3) > 1e-11 * sc
    return bad, {"lod_s": float(red.lod), "|r_eci - N W r| km": e4, "|eci2ecef(ecef2eci(x)) - x| position km": e1, "same, velocity km/s": e1v, "| |r_eci| - |r_ecef| | km": e2, "|v_eci - N (w x W r)| km/s": e3}


def o_rotation(rep):
    from resonaate.physics import constants as const
    from resonaate.physics.bodies import Earth
    from resonaate.physics.transforms import methods as T

    with single_path() as p:
        Red = _cut_reduction()

        class RP:
            @staticmethod
            def build(utc_date, eops=None):
                return Red

        r = reals("r", 3)
        x = np.concatenate((r, np.array([SReal(0)] * 3, dtype=object)))
        inputs = lambda m: {"r": marray(m, r), "lod": mfloat(m, Red.lod.t)}  # noqa: E731
        with shadow(T, ReductionParams=RP, array=sym_array):
            y = T.ecef2eci(x, None)
            back = T.eci2ecef(y, None)
        cons = p.constraints()
        kw = dict(timeout_ms=60000, linearize=True, inputs=inputs, replay=replay_rotation)
        # counterexamples are first asked at a site away from the centre and the axes and with a large length of day, so that they replay robustly in doubles
        generic = [z3.And(c.t >= 1000, c.t <= 5000) for c in r] + [Red.lod.t >= rv(Fraction(1, 2)), Red.lod.t <= 1]
        for i in range(6):
            _prove2(rep, f"site-roundtrip[{i}]", back[i].t == x[i].t, cons, generic, sample="eci2ecef(ecef2eci((r, 0), d), d) = (r, 0): the site is recovered, at rest in the Earth-fixed frame", **kw)
        n2 = lambda v: (v[0] * v[0] + v[1] * v[1] + v[2] * v[2]).t  # noqa: E731
        _prove2(rep, "geocentric-distance", n2(y[:3]) == n2(r), cons, generic, sample="|r_eci| = |r_ecef|", **kw)
        om = SReal(Earth.spin_rate) * (1 - Red.lod / const.DAYS2SEC)
        wr = Red.rot_w.dot(r)
        r_want = Red.rot_pnr.dot(wr)
        for i in range(3):
            _prove2(rep, f"inertial-position[{i}]", y[i].t == r_want[i].t, cons, generic, sample="r_eci = N (W r): polar motion, then precession-nutation-rotation", **kw)
        spin_v = np.array([-om * wr[1], om * wr[0], SReal(0)], dtype=object)  # omega x (W r), omega along the PEF pole
        v_want = Red.rot_pnr.dot(spin_v)
        for i in range(3):
            _prove2(rep, f"earth-rotation-velocity[{i}]", y[3 + i].t == v_want[i].t, cons, generic, sample="v_eci = N (omega x (W r)), omega = (0, 0, spin (1 - lod/86400))", **kw)
        _prove2(rep, "earth-rotation-speed", n2(y[3:]) == (om * om * (wr[0] * wr[0] + wr[1] * wr[1])).t, cons, generic, sample="|v_eci| = omega * distance from the rotation axis", **kw)
        rep.reachable("orthogonal-matrices-exist", cons + [r[0].t == 3000, r[1].t == -4000, r[2].t == 3500], timeout_ms=60000)


# ------------------------------------------------------------------------------------------------
# O4 / O5: creation of a ground sensor on a clock that has already advanced, then propagation steps
# ------------------------------------------------------------------------------------------------
def _geodetic_goals(P, lat_deg, lon_deg, alt):
    """(lat, lon, alt) by definition: Q = P - alt*n lies on the ellipsoid and the ellipsoid normal at Q is n = (cos lat cos lon, cos lat sin lon, sin lat)."""
    from resonaate.physics.bodies import Earth
    from resonaate.physics.constants import DEG2RAD

    a2 = Fraction(Earth.radius) ** 2
    b2 = a2 * (1 - Fraction(Earth.eccentricity ** 2))
    lat, lon = lat_deg * DEG2RAD, lon_deg * DEG2RAD
    n = np.array([lat.cos() * lon.cos(), lat.cos() * lon.sin(), lat.sin()], dtype=object)
    Q = np.array([P[0] - alt * n[0], P[1] - alt * n[1], P[2] - alt * n[2]], dtype=object)
    grad = np.array([Q[0] / a2, Q[1] / a2, Q[2] / b2], dtype=object)
    cr = np.cross(grad, n)
    F = ((Q[0] * Q[0] + Q[1] * Q[1]) / a2 + Q[2] * Q[2] / b2).t
    tol, ctol = rv(Fraction(1, 10 ** 9)), rv(Fraction(1, 10 ** 12))
    return {"on-ellipsoid": z3.And(F - 1 <= tol, 1 - F <= tol),
            "normal-parallel": z3.And(*[z3.And(c.t <= ctol, -c.t <= ctol) for c in cr]),
            "normal-outward": (grad[0] * n[0] + grad[1] * n[1] + grad[2] * n[2]).t > 0}


SENSOR_DICT = {"type": "optical", "covariance": [[2.30e-11, 0.0], [0.0, 2.30e-11]], "slew_rate": 0.25, "azimuth_range": [0.0, 6.283185132646661],
               "elevation_range": [0.0, 1.5707961522619713], "efficiency": 0.98, "aperture_diameter": 1.1283791670955126, "field_of_view": {"fov_shape": "conic"},
               "background_observations": False, "detectable_vismag": 25.0, "minimum_range": 0.0, "maximum_range": 99000}


def _bare_clock(start, jd_start, now, dt):
    from resonaate.scenario.clock import ScenarioClock

    clock = object.__new__(ScenarioClock)
    clock.datetime_start, clock.julian_date_start, clock.time, clock.dt_step = start, jd_start, now, dt
    clock.initial_time = type(now)(0)
    return clock


# ------------------------------------------------------------------------------------------------
# the site configuration object and its history (O7): validation, then public-API edits, then the agent is built
# ------------------------------------------------------------------------------------------------
FIELDS = ("latitude", "longitude", "altitude")
FIELD_BOUNDS = {"latitude": (-90, 90), "longitude": (-360, 360), "altitude": (-1, 100)}
INIT_SITE = {"latitude": 35.0, "longitude": 139.0, "altitude": 0.25}  # deg, deg, km: where the template configuration of a history is first validated


def _emulated_validation(cls, **fields):
    """pydantic validation of a model whose field values are proxies (pydantic-core rejects them): the fields are stored (model_construct, which also initialises
    private attributes and runs model_post_init) and every declared 'after' model validator is executed for real, in declaration order, on the proxies."""
    dec = cls.__pydantic_decorators__
    if dec.field_validators or dec.validators or dec.root_validators:
        raise Unsupported(f"emulated validation of {cls.__name__}: field/root validators are not modelled")
    obj = cls.model_construct(**fields)
    for name, d in dec.model_validators.items():
        if d.info.mode != "after":
            raise Unsupported(f"emulated validation of {cls.__name__}: model validator {name} of mode {d.info.mode}")
        out = getattr(obj, name)()
        obj = obj if out is None else out
    return obj


def _emulation_pin():
    """The emulation agrees with the real pydantic validation on a pinned site: same fields, same private state, same toECI (plain floats, real code)."""
    from resonaate.scenario.config.state_config import LLAStateConfig

    real_one, emu = LLAStateConfig(**INIT_SITE), _emulated_validation(LLAStateConfig, **INIT_SITE)
    t = _dt.datetime(2019, 7, 3, 11, 13, 17)
    same = (real_one.__dict__ == emu.__dict__ and repr(real_one.__pydantic_private__) == repr(emu.__pydantic_private__) and real_one == emu
            and np.array_equal(real_one.toECI(t), emu.toECI(t)))
    return same, {"real": repr(real_one), "real_private": repr(real_one.__pydantic_private__), "emulated": repr(emu), "emulated_private": repr(emu.__pydantic_private__)}


def _ground_cfg(state, agent_id=120002):
    from resonaate.scenario.config.platform_config import GroundFacilityConfig

    return types.SimpleNamespace(id=agent_id, name="GROUND SENSOR", state=state, platform=GroundFacilityConfig(mass=10000.0, visual_cross_section=400.0), sensor=None)


def _real_cfg(site):
    from resonaate.scenario.config.agent_config import SensingAgentConfig

    return SensingAgentConfig(id=120002, name="GROUND SENSOR", platform={"type": "ground_facility"}, state={"type": "lla", **site}, sensor=SENSOR_DICT)


def _apply_history(cfg, op, update, first_use):
    """Public-API operations on an existing agent configuration: what a scenario builder does with a template site before the agent is built."""
    if op == "reuse":
        first_use(cfg)  # the template is used for a first facility (dynamicsFactory + SensingAgent.fromConfig), then edited for the next one
    if op in ("assign", "reuse"):
        for f, v in update.items():
            setattr(cfg.state, f, v)
        return cfg
    if op == "copy":
        state = cfg.state.model_copy(update=dict(update))
        if isinstance(cfg, types.SimpleNamespace):
            return types.SimpleNamespace(**{**vars(cfg), "state": state})
        return cfg.model_copy(update={"state": state})
    raise ValueError(op)


def _lla_config(hist, new, first_use):
    """The ground sensor's configuration with the LLA state `new` (proxies). hist None: validated at `new`. hist (op, fields, init): validated at another site
    (init 'validated': by the real pydantic validation of the real SensingAgentConfig at the concrete INIT_SITE; init 'symbolic': emulated validation, the
    fields that change start at fresh symbolic values), then `fields` are changed to their `new` values by `op`."""
    from resonaate.scenario.config.state_config import LLAStateConfig

    if hist is None:
        return _ground_cfg(_emulated_validation(LLAStateConfig, **new)), {}
    op, fields, init = hist
    old = {}
    if init == "validated":
        if tuple(fields) != FIELDS:
            raise ValueError("a history from the concrete validated site changes all three fields")
        cfg = _real_cfg(INIT_SITE)
    else:
        for f in fields:
            old[f] = real(f"old_{f}")
            assume(old[f].t >= FIELD_BOUNDS[f][0], old[f].t <= FIELD_BOUNDS[f][1])
        cfg = _ground_cfg(_emulated_validation(LLAStateConfig, **{**new, **old}))
    return _apply_history(cfg, op, {f: new[f] for f in fields}, first_use), old


def _run_flow(nsteps, kind="lla", hist=None):
    from resonaate import dynamics as DY
    from resonaate.agents import sensing_agent as SA
    from resonaate.parallel import agent_propagation as AP
    from resonaate.scenario.config.state_config import ECIStateConfig
    from resonaate.sensors.optical import Optical

    fr = Frames()
    box = {}
    sensor = object.__new__(Optical)
    sensor._host = None
    nothing = types.SimpleNamespace(build=lambda *a, **k: None)
    mods = [("resonaate.scenario.clock", {}),
            ("resonaate.dynamics.terrestrial", {"julianDateToDatetime": lambda jd: box["tok"].to_datetime(jd), "ecef2eci": fr.ecef2eci, "array": sym_array, "asarray": sym_array}),
            ("resonaate.dynamics", {"eci2ecef": fr.eci2ecef, "array": sym_array, "asarray": sym_array}),
            ("resonaate.scenario.config.state_config", {"array": sym_array, "ecef2eci": fr.ecef2eci}),
            ("resonaate.physics.transforms.methods", {"array": sym_array}),
            ("resonaate.agents.sensing_agent", {"eci2ecef": fr.eci2ecef, "ecef2lla": fr.ecef2lla, "sensorFactory": lambda cfg: sensor, "array": sym_array}),
            ("resonaate.parallel.agent_propagation", {"ReductionParams": nothing})]
    with time_env(mods) as ns:
        s0, k0, dt = integer("s0"), integer("k0"), integer("dt")
        assume(s0.t >= TOT_2014, s0.t <= TOT_2022, dt.t >= 1, dt.t <= 86400, k0.t >= 0, k0.t * dt.t <= SPAN)
        lat, lon, alt = real("lat"), real("lon"), real("alt")
        assume(lat.t >= -90, lat.t <= 90, lon.t >= -360, lon.t <= 360, alt.t >= -1, alt.t <= 100)
        start = DT._of_total(s0.t)
        box["tok"] = tok = StartToken(ns, start)
        now = ns.ScenarioTime(fp.from_int(k0.t * dt.t, 0, SPAN))
        clock = _bare_clock(start, tok.jd, now, ns.ScenarioTime(fp.from_int(dt.t, 1, 86400)))
        raw, old = None, {}
        prop_cfg = types.SimpleNamespace(propagation_model="special_perturbations", integration_method="RK45", station_keeping=False, sensor_realtime_propagation=True)
        if kind == "lla":
            cfg, old = _lla_config(hist, {"latitude": lat, "longitude": lon, "altitude": alt},
                                   lambda c: SA.SensingAgent.fromConfig(c, clock, DY.dynamicsFactory(c, prop_cfg, None, None, clock), prop_cfg))
        else:  # what Scenario.addSensor receives from a SensorAdditionEvent: the agent's ECI state at the time it is added
            raw = reals("cfg_eci", 6)
            cfg = _ground_cfg(ECIStateConfig.model_construct(position=list(raw[:3]), velocity=list(raw[3:])))
        dyn = DY.dynamicsFactory(cfg, prop_cfg, None, None, clock)
        made = (dyn.datetime_start, dyn.julian_date_start, dyn.x_ecef)  # as returned by the factory, before anything is propagated
        agent = SA.SensingAgent.fromConfig(cfg, clock, dyn, prop_cfg)
        snaps = [_snapshot(fr, agent)]
        reg = AP.PropagateRegistration(agent)
        for _ in range(nsteps):
            sub = reg.generateSubmission()
            result = AP.asyncPropagate._function(sub)
            reg.processResults(result)
            snaps.append(_snapshot(fr, agent))
        fresh = None
        if hist is not None:
            # reference, built last so that it does not disturb the history under test: the same site configured for another agent by a configuration
            # object without a history (validated at the final values)
            fresh_cfg = _lla_config(None, {"latitude": lat, "longitude": lon, "altitude": alt}, None)[0]
            fresh_cfg.id = 120003
            fresh = DY.dynamicsFactory(fresh_cfg, prop_cfg, None, None, clock).x_ecef
    return dict(s0=s0, k0=k0, dt=dt, lat=lat, lon=lon, alt=alt, dyn=dyn, clock=clock, tok=tok, agent=agent, snaps=snaps, fr=fr, raw=raw, made=made, old=old, fresh=fresh)


def _snapshot(fr, agent):
    return {"time": agent.time, "eci": agent.eci_state, "eci_token": fr.lookup(agent.eci_state), "ecef": agent.ecef_state, "lla_arg": fr.lla_arg(agent.lla_state),
            "epoch": agent.datetime_epoch}


def _flow_inputs(nsteps, kind="lla", hist=None):
    def f(m):
        g = lambda n: mval(m, z3.Int(n))  # noqa: E731
        d = {"config": kind, "start": _dt_of(g("s0")).isoformat(), "clock_time": g("k0") * g("dt"), "dt": g("dt"), "steps": nsteps}
        if kind == "lla":
            d.update({"lat_deg": mfloat(m, z3.Real("lat")), "lon_deg": mfloat(m, z3.Real("lon")), "alt_km": mfloat(m, z3.Real("alt"))})
        if hist is not None:
            op, fields, init = hist
            first = dict(INIT_SITE) if init == "validated" else {"latitude": d["lat_deg"], "longitude": d["lon_deg"], "altitude": d["alt_km"],
                                                                  **{fld: mfloat(m, z3.Real(f"old_{fld}")) for fld in fields}}
            d["history"] = {"validated_at": first, "then": op, "fields": list(fields)}
        return d
    return f


def replay_flow(d):
    """The real dynamicsFactory / SensingAgent.fromConfig / propagation step on floats, with a real clock state that has advanced."""
    from resonaate.agents.sensing_agent import SensingAgent
    from resonaate.dynamics import dynamicsFactory
    from resonaate.parallel.agent_propagation import PropagateRegistration, asyncPropagate
    from resonaate.physics import constants as const
    from resonaate.physics.bodies import Earth
    from resonaate.physics.time.stardate import ScenarioTime, datetimeToJulianDate
    from resonaate.physics.transforms.methods import ecef2eci, lla2ecef
    from resonaate.physics.transforms.reductions import ReductionParams
    from resonaate.scenario.config.agent_config import SensingAgentConfig

    start = _dt.datetime.fromisoformat(d["start"])
    clock = _bare_clock(start, datetimeToJulianDate(start), ScenarioTime(d["clock_time"]), ScenarioTime(d["dt"]))
    prop_cfg = types.SimpleNamespace(propagation_model="special_perturbations", integration_method="RK45", station_keeping=False, sensor_realtime_propagation=True)
    cfg = None
    if d.get("config", "lla") == "lla":
        state = {"type": "lla", "latitude": d["lat_deg"], "longitude": d["lon_deg"], "altitude": d["alt_km"]}
        want = _geodetic_point(d["lat_deg"], d["lon_deg"], d["alt_km"])
        if d.get("history"):
            # the configuration object's history: really validated (pydantic) at the first site, then edited through the public API, then used below
            h = d["history"]
            cfg = _apply_history(_real_cfg({k: float(v) for k, v in h["validated_at"].items()}), h["then"], {k: float(state[k]) for k in h["fields"]},
                                 lambda c: SensingAgent.fromConfig(c, clock, dynamicsFactory(c, prop_cfg, None, None, clock), prop_cfg))
    else:
        # the ECI state a SensorAdditionEvent hands to Scenario.addSensor: a ground site (representative: lat 0.1 rad, lon 1.1 rad, alt 5 km) at the epoch of the addition
        site = lla2ecef(np.array(ECI_SITE_LLA))
        want = site[:3]
        eci0 = ecef2eci(site, start + _dt.timedelta(seconds=d["clock_time"]))
        state = {"type": "eci", "position": [float(v) for v in eci0[:3]], "velocity": [float(v) for v in eci0[3:]]}
    if cfg is None:
        cfg = SensingAgentConfig(id=120002, name="GROUND SENSOR", platform={"type": "ground_facility"}, state=state, sensor=SENSOR_DICT)
    det, bad = {}, False
    if d.get("history"):
        det["configured (public fields of cfg.state when the agent is built)"] = {k: getattr(cfg.state, k) for k in FIELDS}
        if any(float(getattr(cfg.state, k)) != float(state[k]) for k in FIELDS):
            return False, {"harness": "the replayed history does not end at the model's site", **det}

    def judge(tag, ecef, eci, when):
        nonlocal bad
        e_pos = float(np.linalg.norm(np.asarray(ecef[:3], dtype=float) - want) * 1000)
        e_vel = float(np.linalg.norm(np.asarray(ecef[3:], dtype=float)) * 1000)
        det[tag] = {"ecef_position_error_m": e_pos, "ecef_speed_m_s": e_vel}
        if eci is not None:
            red = ReductionParams.build(when)
            om = np.array([0, 0, Earth.spin_rate * (1 - red.lod / const.DAYS2SEC)])
            truth = ecef2eci(np.concatenate((want, np.zeros(3))), when)
            det[tag]["eci_position_error_m"] = float(np.linalg.norm(eci[:3] - truth[:3]) * 1000)
            det[tag]["eci_velocity_vs_earth_rotation_m_s"] = float(np.linalg.norm(eci[3:] - red.rot_pnr @ np.cross(om, red.rot_w @ want)) * 1000)
            bad = bad or det[tag]["eci_position_error_m"] > 1.0 or det[tag]["eci_velocity_vs_earth_rotation_m_s"] > 1e-3
        bad = bad or e_pos > 1.0 or e_vel > 1e-3

    dyn = dynamicsFactory(cfg, prop_cfg, None, None, clock)
    judge("dynamics.x_ecef", dyn.x_ecef, None, None)
    if dyn.datetime_start != start or float(dyn.julian_date_start) != float(clock.julian_date_start):
        bad = True
        det["dynamics.datetime_start"] = dyn.datetime_start.isoformat()
    agent = SensingAgent.fromConfig(cfg, clock, dyn, prop_cfg)
    judge("agent@creation", agent.ecef_state, agent.eci_state, start + _dt.timedelta(seconds=d["clock_time"]))
    reg = PropagateRegistration(agent)
    for j in range(d["steps"]):
        reg.processResults(asyncPropagate._function(reg.generateSubmission()))
        t = d["clock_time"] + (j + 1) * d["dt"]
        if float(agent.time) != t:
            bad = True
            det[f"agent.time@step{j + 1}"] = float(agent.time)
        judge(f"agent@step{j + 1}", agent.ecef_state, agent.eci_state, start + _dt.timedelta(seconds=t))
    if d.get("config", "lla") == "lla" and abs(d["lat_deg"]) < 89.9:
        import math

        la, lo, al = (float(v) for v in agent.lla_state)  # the real ecef2lla (outside the symbolic claim) on the final state: reported only, with a 1 m criterion
        dl = math.remainder(lo - math.radians(d["lon_deg"]), 2 * math.pi)
        det["lla_state_error"] = {"lat_rad": la - math.radians(d["lat_deg"]), "lon_rad": dl, "alt_km": al - d["alt_km"]}
        bad = bad or abs(la - math.radians(d["lat_deg"])) > 1.5e-7 or abs(dl) * math.cos(la) > 1.5e-7 or abs(al - d["alt_km"]) > 1e-3
    return bad, det


def _geodetic_point(lat_deg, lon_deg, alt):
    """Independent float oracle: foot point on the ellipsoid by its parametric (reduced-latitude free) form + alt along the normal."""
    import math

    from resonaate.physics.bodies import Earth

    a, e2 = float(Earth.radius), float(Earth.eccentricity) ** 2
    la, lo = math.radians(lat_deg), math.radians(lon_deg)
    n = np.array([math.cos(la) * math.cos(lo), math.cos(la) * math.sin(lo), math.sin(la)])
    # the normal at the foot point Q is n  <=>  Q = (a^2 nx, a^2 ny, b^2 nz) / sqrt(a^2 (nx^2+ny^2) + b^2 nz^2)
    b2 = a * a * (1 - e2)
    Q = np.array([a * a * n[0], a * a * n[1], b2 * n[2]]) / math.sqrt(a * a * (n[0] ** 2 + n[1] ** 2) + b2 * n[2] ** 2)
    return Q + alt * n


def _prove2(rep, label, goal, cons, generic, **kw):
    """The whole domain is decided; when it is not 'unsat', a counterexample is first asked at a generic site (so that it replays), then over the whole domain."""
    if generic and not kw.get("linearize"):
        # proof attempt on the constraints that speak about the goal's variables only (dropping constraints is sound for 'unsat')
        v = solve(slice_for(goal, list(cons)) + [z3.Not(goal)], kw.get("timeout_ms", 30000))
        if v.status == "unsat":  # holds for every site: nothing to replay
            rep._item(label, "prove", v)
            if kw.get("sample") is not None:
                rep.sample({"obligation": f"{rep.ob}:{label}", "verdict": v.status, "what": kw["sample"]})
            return True
    if generic:
        r = rep.prove(f"{label}[generic-site]", goal, list(cons) + generic, **kw)
        if r is not True:
            return r
    return rep.prove(label, goal, cons, **kw)


def o_flow(rep, nsteps, site=True, kind="lla", hist=None):
    if kind == "lla":
        try:
            same, det = _emulation_pin()
        except Exception as e:  # noqa: BLE001
            same, det = False, {"raised": repr(e)}
        if not same:
            rep.error("validation-emulation", f"emulated validation of LLAStateConfig differs from the real pydantic validation on the pinned site: {det}")
            return
    res = explore(lambda: _run_flow(nsteps, kind, hist), max_paths=64, branch_timeout_ms=20000, catch=(Exception,))
    n_ok = n_adv = 0
    for k, r in enumerate(res):
        if r.exc is not None:
            rep.error(f"exception#{k}", f"{type(r.exc).__name__}: {r.exc}")
            continue
        n_ok += 1
        o = r.out
        cons = r.constraints
        lat, lon, alt = o["lat"], o["lon"], o["alt"]
        ab = lambda v: z3.If(v.t >= 0, v.t, -v.t)  # noqa: E731
        generic = ([ab(lat) >= 5, ab(lat) <= 80, ab(lon) >= 5, ab(lon) <= 175, ab(lat - lon) >= 5, ab(lat + lon) >= 5, alt.t >= 1, alt.t <= 5] if kind == "lla" else [])
        for f, v in o["old"].items():
            # the site the configuration was first validated at is a generic one too, and far (>= 1 deg / 1 km) from the final one, so that a counterexample replays in doubles
            nv = {"latitude": lat, "longitude": lon, "altitude": alt}[f]
            generic += [ab(v - nv) >= 1] + ([ab(v) >= 5, ab(v) <= (80 if f == "latitude" else 175)] if f != "altitude" else [v.t >= 1, v.t <= 5])
        kw = dict(inputs=_flow_inputs(nsteps, kind, hist), replay=replay_flow, timeout_ms=60000)
        if kind == "eci":
            kw["regions"] = {"C11-eci-ground-advanced-clock": o["k0"].t >= 1}
        dyn, clock, tok, agent, snaps = o["dyn"], o["clock"], o["tok"], o["agent"], o["snaps"]
        made_start, made_jd, x = o["made"]
        if np.shape(x) != (6,) or np.shape(snaps[0]["ecef"]) != (6,):
            rep.error(f"shape#{k}", f"Terrestrial.x_ecef has shape {np.shape(x)}, agent.ecef_state {np.shape(snaps[0]['ecef'])}")
            continue
        # --- the dynamics object: start epoch and stored site --------------------------------------------------
        g_start = z3.And(made_start.tot == o["s0"].t, made_jd.t == tok.jd.t)
        _prove2(rep, f"dynamics-start#{k}", g_start, cons, generic, sample="dynamicsFactory(ground): Terrestrial gets the scenario's start Julian date / start datetime, whatever the clock reads", **kw)
        if kind == "lla" and site:
            with resume(r.path):
                geo = _geodetic_goals(x[:3], lat, lon, alt)
            cons = r.path.constraints()
            facets = [("normal-parallel", geo["normal-parallel"]), ("normal-outward", geo["normal-outward"]), ("on-ellipsoid", geo["on-ellipsoid"])]
            what = "Terrestrial.x_ecef is the point at the configured geodetic latitude/longitude/altitude (ellipsoid foot point + altitude along the normal)"
            if o["fresh"] is not None:
                what += "; with a history: it equals the site built from a configuration validated directly at the same latitude/longitude/altitude"
                facets.insert(0, ("history-independent", eq_arrays(x, o["fresh"]) if np.shape(o["fresh"]) == np.shape(x) else z3.BoolVal(False)))
            for name, g in facets:
                if _prove2(rep, f"site-{name}#{k}", g, cons, generic, sample=what, **kw) is False:
                    rep.note(f"site-{name}#{k} is violated: the remaining facets of 'x_ecef is the configured geodetic point' are not asked")
                    break
            _prove2(rep, f"site-at-rest#{k}", z3.And(*[t == 0 for t in terms(x[3:])]), cons, generic, sample="Terrestrial.x_ecef has zero Earth-fixed velocity", **kw)
        if kind == "eci":
            # the Earth-fixed point the dynamics will hold the agent at is the point the agent is created at
            _prove2(rep, f"site-is-creation-point#{k}", eq_arrays(x, snaps[0]["ecef"]), cons, generic,
                    sample="ECI-configured ground sensor (SensorAdditionEvent): Terrestrial.x_ecef == the agent's Earth-fixed state at creation, also when the clock has advanced", **kw)
        # --- the agent at creation and after every step ------------------------------------------------------
        for j, s in enumerate(snaps):
            want_t = o["k0"].t * o["dt"].t + j * o["dt"].t
            ok = s["lla_arg"] is not None and np.shape(s["ecef"]) == (6,) and (s["eci_token"] is not None or (kind == "eci" and j == 0))
            g = [s["time"].t == z3.ToReal(want_t), s["epoch"].tot == o["s0"].t + want_t, z3.BoolVal(bool(ok))]
            if ok:
                ref = x if kind == "lla" else snaps[0]["ecef"]
                g += [eq_arrays(s["ecef"], ref), eq_arrays(s["lla_arg"], ref)]
                if s["eci_token"] is not None:
                    tx, td = s["eci_token"]
                    g += [eq_arrays(tx, ref), td.tot == o["s0"].t + want_t]
                else:
                    g += [eq_arrays(s["eci"], o["raw"])]
            tag = "creation" if j == 0 else f"step{j}"
            _prove2(rep, f"agent-{tag}#{k}", z3.And(*g), cons, generic,
                    sample="the agent's ECI state is its site rotated at exactly start + agent.time; its ECEF state (and the argument of ecef2lla) is that site; agent.time advanced by dt", **kw)
        adv = rep.feasible(f"advanced-clock#{k}", cons + [o["k0"].t >= 1, o["s0"].t % 60 != 0, (o["s0"].t + o["k0"].t * o["dt"].t) / 86400 != o["s0"].t / 86400], timeout_ms=30000)
        if adv is not None and adv is not True:
            n_adv += 1
    if n_ok == 0:
        rep.error("reach", "no path returned normally")
    elif n_adv == 0:
        rep.error("reach-advanced-clock", "no path admits a clock that has advanced past midnight from a start instant with non-zero seconds")
    rep.note(f"{len(res)} paths")


REPLAYS = {}

QUICK_CLASSES = [(b, m) for b in range(4) for m in (1, 12)] + [(3, 2), (3, 3)]
ALL_CLASSES = [(b, m) for b in range(4) for m in range(1, 13)]


def obligations(tier):
    quick = tier == "quick"
    obs = [Ob("O0-model", o_model, "calendar model replace() agrees with datetime.replace()", 60)]
    for b, m in (QUICK_CLASSES if quick else ALL_CLASSES):
        name = f"O1-start-y{(1901 + b) % 4}-m{m}"
        obs.append(Ob(name, (lambda b, m: lambda rep: o_start(rep, b, m))(b, m), f"Terrestrial.datetime_start == configured start, years = {1901 + b} mod 4, month {m}", 900))
        REPLAYS[name] = replay_start
    n = 2 if quick else 3
    obs.append(Ob("O2-propagate", lambda rep: o_propagate(rep, n), f"Terrestrial.propagate converts the stored site at datetime_start + final time ({n} consecutive calls)", 300))
    REPLAYS["O2-propagate"] = replay_propagate
    obs.append(Ob("O3-rotation", o_rotation, "ecef2eci/eci2ecef on a site state: inverse pair, distance kept, Earth-rotation velocity", 300))
    REPLAYS["O3-rotation"] = replay_rotation
    obs.append(Ob("O4-factory", lambda rep: o_flow(rep, 0), "dynamicsFactory + SensingAgent.fromConfig for a ground sensor on an advanced clock: start epoch, geodetic site, consistent epochs", 300))
    REPLAYS["O4-factory"] = replay_flow
    obs.append(Ob("O5-steps", lambda rep: o_flow(rep, n, site=False), f"{n} propagation steps of the ground agent: site recovered at every epoch", 300))
    REPLAYS["O5-steps"] = replay_flow
    hists = [("assign", FIELDS, "validated"), ("copy", FIELDS, "validated"), ("reuse", FIELDS, "validated"), ("assign", ("longitude",), "symbolic")]
    if not quick:
        hists += [("copy", ("latitude",), "symbolic"), ("assign", ("altitude",), "symbolic"), ("reuse", FIELDS, "symbolic"), ("copy", ("longitude", "altitude"), "symbolic")]
    for h in hists:
        name = f"O7-history-{h[0]}-{'all' if h[1] == FIELDS else '+'.join(h[1])}-from-{h[2]}"
        obs.append(Ob(name, (lambda h: lambda rep: o_flow(rep, 0, hist=h))(h),
                      "a site configuration that was validated at one location and then edited through the public API "
                      f"({'attribute assignment' if h[0] == 'assign' else 'model_copy(update=...)' if h[0] == 'copy' else 'used for a first agent, then attribute assignment'} of {', '.join(h[1])}; "
                      f"first validated {'by the real pydantic validation at a concrete site' if h[2] == 'validated' else 'at a symbolic site'}) gives an agent at the location its public fields show", 300))
        REPLAYS[name] = replay_flow
    obs.append(Ob("O6-eci-configured", lambda rep: o_flow(rep, 1 if quick else 2, kind="eci"),
                  "ground sensor handed to Scenario.addSensor with an ECI state (SensorAdditionEvent) on an advanced clock: it is held where it was created", 300))
    REPLAYS["O6-eci-configured"] = replay_flow
    return obs


obligations("thorough")  # fills REPLAYS for `./check C11 --replay <file>` (every obligation name of both tiers)
