"""C19 - imported ephemerides/observations are used faithfully; importer stays read-only."""
from __future__ import annotations

import datetime as _dt
import logging

import numpy as np
import z3

from symx.core import SBool, SInt, SReal, assume, boolean, cur, explore, mfloat, mval, real, reals, rv
from symx.runner import Ob
from symx.stubs import shadow

ID = "C19"
TECHNIQUE = ("the real EphemerisImporter.registerAgent/importEphemerides, Target/SensingAgent.importState, CentralizedTaskingEngine.loadImportedObservations/"
             "_attachObsMetadata and the ImporterDatabase write methods are executed against a stub database whose content is chosen by the solver: for each agent id of a "
             "small universe a z3 Bool says whether the database holds a row for it and whether it is registered; states are symbolic reals; the real SQLAlchemy Query "
             "object the code builds is captured and its where-clause translated; z3 proves the faithful-import / error-iff-missing oracle on every path")
FLOAT_SEMANTICS = "exact for ids/sets; state vectors symbolic reals; (time conversion bit-level claims are in C05/C09)"
ENCODED = ["resonaate.dynamics.importer:EphemerisImporter.registerAgent", "resonaate.dynamics.importer:EphemerisImporter.importEphemerides",
           "resonaate.agents.target_agent:TargetAgent.importState", "resonaate.agents.sensing_agent:SensingAgent.importState",
           "resonaate.tasking.engine.centralized_engine:CentralizedTaskingEngine.loadImportedObservations",
           "resonaate.tasking.engine.centralized_engine:CentralizedTaskingEngine._attachObsMetadata",
           "resonaate.data.importer_database:ImporterDatabase.insertData", "resonaate.data.importer_database:ImporterDatabase.deleteData",
           "resonaate.data.importer_database:ImporterDatabase.bulkSave"]
BOUNDS = {"agents": "universe of 5 agent ids; every subset as database content (<= 5 rows) and every subset as registered agents (supersets, exact sets, subsets)",
          "observations": "<= 3 stored observations per epoch over 2 sensors x 2 targets with symbolic sensor positions"}
OUTSIDE = ["that the importer file is byte-identical afterwards (SQLAlchemy/SQLite behaviour)", "_insertData (private loader)", "SQLite's evaluation of the where-clause"]
ASSUMPTIONS = ["ImporterDatabase.getData(query) returns the rows matching the query (stub: solver-chosen rows, at most one per agent id and epoch)",
               "ray.get(handle) returns the sensor agent"]
LEVEL_TEXT = ("Bounded symbolic verification over all database contents for a 5-agent universe: every registered agent receives exactly its own row, and the missing-ephemeris "
              "error is raised iff some registered agent has no row - supersets with unrelated agents included, which the suite's single exact-set file never exercises.")
LEVEL_NOTE = "Agent universe bounded (5); database replaced by a solver-chosen row set; storage layer trusted."

U = [101, 102, 103, 104, 105]


class Row:
    def __init__(self, aid, concrete=False):
        self.agent_id = aid
        self.eci = [float(aid * 10 + k) for k in range(6)] if concrete else [real(f"row{aid}_{k}") for k in range(6)]
        self.julian_date = 2459304.5 + 600.0 / 86400.0


def _agent(cls, aid):
    a = object.__new__(cls)
    a.__dict__["_id"] = aid
    a.__dict__["_realtime"] = False
    a.__dict__["_truth_state"] = np.array([(-1.0 if _CONCRETE else real(f"old{aid}_{k}")) for k in range(6)], dtype=object)
    a.__dict__["_previous_state"] = a.__dict__["_truth_state"]
    from resonaate.physics.time.stardate import ScenarioTime

    a.__dict__["_time"] = ScenarioTime(540.0)
    a.__dict__["imports"] = 0
    return a


def _run_import(sensor_ids=(101,), member=None):
    member = member or (lambda kind, u: bool(boolean(f"{kind}_{u}")))
    from resonaate.agents import sensing_agent as SA
    from resonaate.agents import target_agent as TA
    from resonaate.dynamics import importer as IM

    from resonaate.physics.time.stardate import JulianDate

    imp = object.__new__(IM.EphemerisImporter)
    imp._logger = logging.getLogger("symx")
    imp._logger.setLevel(logging.CRITICAL)
    imp._registrants = {}
    captured = {"ecef_epochs": {}}

    class DB:
        def getData(self, query, multi=True):
            captured["query"] = query
            rows = [Row(u, concrete=_CONCRETE) for u in U if member("indb", u)]
            # order of rows in the result set is arbitrary: rotate by a solver-chosen offset
            captured["rows"] = rows
            return rows

    imp._importer_db = DB()
    agents = {}
    calls = {}

    class TAgent(TA.TargetAgent):
        pass

    class SAgent(SA.SensingAgent):
        pass

    for u in U:
        if member("reg", u):
            cls = SAgent if u in sensor_ids else TAgent
            a = _agent(cls, u)
            # minimal attribute surface used by importState / registerAgent
            cls.simulation_id = property(lambda self: self.__dict__["_id"])
            cls.realtime = property(lambda self: self.__dict__["_realtime"])
            cls.julian_date_start = property(lambda self: JulianDate(2459304.5))
            cls.datetime_start = property(lambda self: _dt.datetime(2021, 3, 30, 0, 0, 0))
            agents[u] = a
            imp.registerAgent(a)
    epoch = _dt.datetime(2021, 3, 30, 0, 10, 0)
    err = None

    def rec_eci2ecef(x, when):
        captured["ecef_epochs"][id(x)] = when
        return x

    try:
        with shadow(SA, eci2ecef=rec_eci2ecef, ecef2lla=lambda x: x[:3]):
            imp.importEphemerides(epoch)
    except Exception as e:  # noqa: BLE001
        err = e
    return imp, agents, captured, err, epoch


def replay_import(d):
    """Concrete replay on the same real classes (real importer, real Target/SensingAgent.importState)."""
    from resonaate.common.exceptions import MissingEphemerisError

    def member(kind, u):
        return u in d[kind]

    global _CONCRETE
    _CONCRETE = True
    try:
        imp, agents, cap, err, epoch = _run_import(member=member)
    finally:
        _CONCRETE = False
    raised = isinstance(err, MissingEphemerisError)
    if err is not None and not raised:
        return False, {"unexpected_exception": repr(err)}
    missing = sorted(set(d["reg"]) - set(d["indb"]))
    problems = []
    if raised != bool(missing):
        problems.append(f"MissingEphemerisError raised={raised} but missing ids={missing}")
    if not raised:
        rows = {row.agent_id: row for row in cap["rows"]}
        for u, a in agents.items():
            st = a.__dict__["_truth_state"]
            if u not in rows or [float(x) for x in st] != [float(x) for x in rows[u].eci]:
                problems.append(f"agent {u} left with a stale state")
            elif u == 101:
                when = cap["ecef_epochs"].get(id(st))
                if when is None or abs((when - epoch).total_seconds()) > 1.5:
                    problems.append(f"sensing agent {u}: Earth-fixed state derived at {when} instead of the row's epoch {epoch}")
    return bool(problems), {"raised": raised, "missing_ids": missing, "problems": problems}


_CONCRETE = False


def o1_import(rep):
    from resonaate.common.exceptions import MissingEphemerisError

    res = explore(_run_import, max_paths=5000, max_depth=40)
    rep.note(f"paths={len(res)}")

    def inputs(m):
        return {"indb": [u for u in U if bool(mval(m, z3.Bool(f"indb_{u}")))], "reg": [u for u in U if bool(mval(m, z3.Bool(f"reg_{u}")))]}

    n = 0
    n_err = n_ok = 0
    for r in res:
        if r.exc is not None:
            rep.error("exception", repr(r.exc))
            continue
        imp, agents, cap, err, epoch = r.out
        indb = {u: z3.Bool(f"indb_{u}") for u in U}
        reg = {u: z3.Bool(f"reg_{u}") for u in U}
        missing = z3.Or(*[z3.And(reg[u], z3.Not(indb[u])) for u in U])
        goals = []
        if err is not None and not isinstance(err, MissingEphemerisError):
            rep.error("exception", repr(err))
            continue
        goals.append(z3.BoolVal(err is not None) == missing)
        if err is None:
            n_ok += 1
            rows = {row.agent_id: row for row in cap["rows"]}
            for u, a in agents.items():
                if u in rows:
                    st = a.__dict__["_truth_state"]
                    goals.append(z3.And(*[(x.t if isinstance(x, SReal) else rv(x)) == y.t for x, y in zip(st, rows[u].eci)]))
                    goals.append(z3.BoolVal(abs(float(a.__dict__["_time"]) - 600.0) < 1e-4))
                    if u in (101,):  # the sensing agent: its Earth-fixed state must be derived at the row's epoch
                        when = cap["ecef_epochs"].get(id(st))
                        goals.append(z3.BoolVal(when is not None and abs((when - epoch).total_seconds()) < 1.5))
                else:
                    goals.append(z3.BoolVal(False))  # registered agent without a row although no error was raised
            goals.append(z3.BoolVal(len(imp._registrants) == 0))
        else:
            n_err += 1
        n += 1
        rep.prove(f"import#{n}", z3.And(*goals), r.constraints, inputs=inputs, replay=replay_import,
                  sample="MissingEphemerisError iff a registered agent has no row; otherwise every registered agent holds exactly its own row's state and epoch")
    # the query the real code built
    if res and res[0].out[2].get("query") is not None:
        q = res[0].out[2]["query"]
        epoch = res[0].out[4]
        wc = q.whereclause
        ok = (wc is not None and wc.operator.__name__ == "eq" and wc.left.key == "timestampISO" and wc.right.value == epoch.isoformat(timespec="microseconds"))
        ents = [str(d["entity"].__name__) for d in q.column_descriptions]
        rep.prove("query-shape", z3.BoolVal(bool(ok and ents == ["TruthEphemeris"] and "epochs" in str(q).lower())), [], sample="query = TruthEphemeris joined to Epoch where Epoch.timestampISO == epoch.isoformat(microseconds)")
    if n_err == 0 or n_ok == 0:
        rep.error("reach", "both the error and the success outcome must be reachable")
    rep.reachable("superset-with-gap", [z3.Bool("reg_101"), z3.Not(z3.Bool("indb_101")), z3.Bool("indb_104"), z3.Bool("indb_105"), z3.Not(z3.Bool("reg_104")), z3.Not(z3.Bool("reg_105")),
                                        z3.Bool("reg_102"), z3.Bool("indb_102")])


# ----------------------------------------------------------------------------------
def _real_measurement():
    import numpy as np
    from resonaate.physics.measurements import Measurement

    return Measurement.fromMeasurementLabels(["azimuth_rad", "elevation_rad"], np.eye(2) * 1e-6)


def _stored_observation(i, sensor_id, target_id, pos):
    """A real Observation as it comes back from the importer database: the measurement metadata is not stored."""
    import numpy as np
    from resonaate.data.observation import Observation

    ob = Observation(julian_date=2459303.5 + 600 / 86400, target_id=target_id, sensor_id=sensor_id, sensor_type="Optical", sensor_eci=np.array([*pos, 0.0, 0.0, 0.0]),
                     measurement=_real_measurement(), azimuth_rad=0.1 * (i + 1), elevation_rad=0.2)
    ob._measurement = None
    ob._row_index = i
    return ob


def _bare_sensing_agent(measurement):
    """A real SensingAgent without running its constructor: only the attribute the real constructor stores the sensor in."""
    import types

    from resonaate.agents.sensing_agent import SensingAgent

    ag = object.__new__(SensingAgent)
    ag._sensors = types.SimpleNamespace(measurement=measurement, host=ag)
    return ag


def replay_observations(d):
    """The same stored rows through the real loadImportedObservations (concrete)."""
    from resonaate.tasking.engine import centralized_engine as CE

    sensors = [21, 22]
    meas = {s: _real_measurement() for s in sensors}
    rows = [_stored_observation(r["i"], r["sensor"], r["target"], tuple(r["pos"])) for r in d["rows"]]
    eng = object.__new__(CE.CentralizedTaskingEngine)
    eng.logger = logging.getLogger("symx")

    class IDB:
        def getData(self, query, multi=True):
            return rows

    eng._importer_db = IDB()
    eng._sensor_store = {s: _bare_sensing_agent(meas[s]) for s in sensors}

    class Ray:
        @staticmethod
        def get(h):
            return h

    try:
        with shadow(CE, ray=Ray):
            out = eng.loadImportedObservations(_dt.datetime(2021, 3, 30, 0, 10, 0))
    except Exception as e:  # noqa: BLE001
        return True, {"raised": repr(e)}
    want = _wanted(rows)
    ok = [x._row_index for x in out] == [x._row_index for x in want] and all(x.measurement is meas[x.sensor_id] for x in out)
    return (not ok), {"returned": [x._row_index for x in out], "expected": [x._row_index for x in want]}


def _wanted(rows):
    """Independent oracle: every stored observation reaches its target's filter; only a repeated record of the same
    (sensor, target) pair at the epoch is a duplicate."""
    seen, want = set(), []
    for row in rows:
        key = (row.sensor_id, row.target_id)
        if key not in seen:
            seen.add(key)
            want.append(row)
    return want


def o3_observations(rep):
    from resonaate.tasking.engine import centralized_engine as CE

    sensors = [21, 22]
    targets = [11, 12]
    meas = {s: _real_measurement() for s in sensors}

    def run():
        eng = object.__new__(CE.CentralizedTaskingEngine)
        eng.logger = logging.getLogger("symx")
        cap = {}
        rows = []
        # up to 3 stored observations; (sensor, target) of each chosen by the solver; the position stored with a row is its sensor's position
        for i in range(3):
            if not bool(boolean(f"present_{i}")):
                continue
            s = sensors[0] if bool(boolean(f"sens_{i}")) else sensors[1]
            t = targets[0] if bool(boolean(f"tgt_{i}")) else targets[1]
            rows.append(_stored_observation(i, s, t, (1000.0 + s, 2000.0 + s, 3000.0)))

        class IDB:
            def getData(self, query, multi=True):
                cap["query"] = query
                return rows

        eng._importer_db = IDB()
        eng._sensor_store = {s: _bare_sensing_agent(meas[s]) for s in sensors}

        class Ray:
            @staticmethod
            def get(h):
                return h

        epoch = _dt.datetime(2021, 3, 30, 0, 10, 0)
        with shadow(CE, ray=Ray):
            out = eng.loadImportedObservations(epoch)
        return rows, out, cap, epoch

    res = explore(run, max_paths=5000, max_depth=60, catch=(Exception,))
    rep.note(f"paths={len(res)}")
    n = 0
    for r in res:
        n += 1
        if r.exc is not None:
            # the real code raised for a feasible database content: replay it
            m = rep.feasible(f"raises#{n}", r.constraints)
            rep.prove(f"observations#{n}", z3.BoolVal(False), r.constraints, inputs=_rows_from_model, replay=replay_observations,
                      sample=f"loadImportedObservations must not raise ({type(r.exc).__name__})")
            continue
        rows, out, cap, epoch = r.out
        want = _wanted(rows)
        ok = [id(x) for x in out] == [id(x) for x in want] and all(x.measurement is meas[x.sensor_id] for x in out)
        rep.prove(f"observations#{n}", z3.BoolVal(bool(ok)), r.constraints, inputs=_rows_from_model, replay=replay_observations,
                  sample="every stored observation (distinct sensor/target pair) is returned once, in order, with its sensor's measurement attached (real Observation rows, bare real SensingAgent)")
    ok_runs = [r for r in res if r.exc is None]
    if ok_runs:
        q = ok_runs[-1].out[2].get("query")
        epoch = ok_runs[-1].out[3]
        if q is not None:
            wc = q.whereclause
            ok = (wc is not None and wc.operator.__name__ == "eq" and wc.left.key == "timestampISO" and wc.right.value == epoch.isoformat(timespec="microseconds"))
            rep.prove("query-shape", z3.BoolVal(bool(ok)), [], sample="Observation joined to Epoch where Epoch.timestampISO == epoch.isoformat(microseconds)")
    if n < 8:
        rep.error("reach", "too few database contents explored")


def _rows_from_model(m):
    rows = []
    for i in range(3):
        g = lambda nm: bool(z3.is_true(m.eval(z3.Bool(nm), model_completion=True)))  # noqa: E731
        if not g(f"present_{i}"):
            continue
        s = 21 if g(f"sens_{i}") else 22
        t = 11 if g(f"tgt_{i}") else 12
        rows.append({"i": i, "sensor": s, "target": t, "pos": [1000.0 + s, 2000.0 + s, 3000.0]})
    return {"rows": rows}


def o4_readonly(rep):
    from resonaate.data.importer_database import ImporterDatabase

    db = object.__new__(ImporterDatabase)
    outcomes = []
    for name, args in (("insertData", (object(),)), ("insertData", ()), ("deleteData", (object(),)), ("bulkSave", ([object()],)), ("bulkSave", ([],))):
        try:
            getattr(db, name)(*args)
            outcomes.append((name, "returned"))
        except NotImplementedError:
            outcomes.append((name, "NotImplementedError"))
        except Exception as e:  # noqa: BLE001
            outcomes.append((name, type(e).__name__))
    ok = all(o[1] == "NotImplementedError" for o in outcomes)
    rep.prove("write-methods-raise", z3.BoolVal(ok), [], sample=f"public write methods of ImporterDatabase raise for every argument: {outcomes}")
    # they do not touch the session at all: the methods' code objects reference no session/engine attribute
    import inspect

    src = "".join(inspect.getsource(getattr(ImporterDatabase, n)) for n in ("insertData", "deleteData", "bulkSave"))
    rep.prove("write-methods-touch-nothing", z3.BoolVal("session" not in src.split('"""')[-1] and "_getSessionScope" not in src), [], sample="insertData/deleteData/bulkSave bodies only raise")


REPLAYS = {"O1": replay_import, "O3": replay_observations}


def obligations(tier):
    return [
        Ob("O1", o1_import, "importEphemerides: every registered agent gets its own row; MissingEphemerisError iff a registered agent has no row", 900),
        Ob("O3", o3_observations, "loadImportedObservations returns each distinct stored observation once with measurement metadata", 600),
        Ob("O4", o4_readonly, "ImporterDatabase public write methods raise", 60),
    ]
